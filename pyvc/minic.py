"""Mini-C: semantics of the statement forms emitted by xobjects/capi.py, over template strings.

Input: a Tmpl / str holding the text of ONE generated function (declaration `{` statements `}`) or
of a statement block.  Output: a CResult describing what the function does, as solver terms:
    offset      final value of the C variable `offset`
    ret         returned value: ('int', term) | ('ptr', addr, elem) | ('load', addr, elem)
    stores      list of (addr, elem, value)
    loads       list of (addr, elem)       every dereference performed (for bounds/alignment obligations)
    ints        list of terms              every int64 intermediate (for overflow obligations)
    decl_tokens tokens of the declaration (before the first `{`)
    pointer_decls  list of (qualifier_tokens_before, type tokens) for every pointer declarator / cast seen
Memory model: one byte-addressed memory; `W8(addr)` is the little-endian signed 64-bit word at
absolute address addr (uninterpreted function), loads of other widths are uninterpreted per width.
`obj` is the absolute address OBJ of the object's first byte.  Integer arithmetic is mathematical;
the int64 range of every intermediate is a separate obligation (C07), not an assumption of C02.

Trusted: this file (the C semantics of these statement forms).  Cross-checked natively by compiling
the same emitted text with the host compiler (bounded part of C02).
"""
import re
import z3

from .core import Unsupported
from .tmpl import Tmpl, Atom, CBlock

OBJ = z3.Int("OBJ")
W8 = z3.Function("W8", z3.IntSort(), z3.IntSort())
IDX = z3.Function("IDX", z3.IntSort(), z3.IntSort())  # k-th index argument of the accessor
LOADW = {}

KNOWN_SIZES = {
    "char": 1, "int8_t": 1, "uint8_t": 1, "int16_t": 2, "uint16_t": 2, "int32_t": 4, "uint32_t": 4,
    "int64_t": 8, "uint64_t": 8, "double": 8, "float": 4, "void": None,
}
TYPE_WORDS = set(KNOWN_SIZES) | {"const", "struct", "unsigned", "signed", "int", "long", "short", "__global", "restrict"}


class Tok:
    __slots__ = ("kind", "val")

    def __init__(self, kind, val):
        self.kind = kind  # 'id' | 'num' | 'p' | 'atom' | 'cblock'
        self.val = val

    def __repr__(self):
        return f"{self.kind}:{self.val}"


_WORD = re.compile(r"[A-Za-z0-9_]")


def tokenize(t):
    parts = t.parts if isinstance(t, Tmpl) else [t]
    toks = []
    run = []  # current identifier-ish run: list of str | z3 | Atom

    def flush():
        nonlocal run
        if not run:
            return
        if all(isinstance(r, str) for r in run):
            s = "".join(run)
            if s.isdigit():
                toks.append(Tok("num", int(s)))
            elif s[0].isdigit():
                raise Unsupported(f"mini-C: bad token {s}")
            else:
                toks.append(Tok("id", (s,)))
        elif len(run) == 1 and isinstance(run[0], z3.ExprRef):
            toks.append(Tok("num", run[0]))
        elif len(run) == 1 and isinstance(run[0], Atom):
            toks.append(Tok("atom", run[0]))
        else:
            if isinstance(run[0], z3.ExprRef) or (isinstance(run[0], str) and run[0][0].isdigit()):
                raise Unsupported(f"mini-C: number glued to identifier {run}")
            toks.append(Tok("id", tuple(r if isinstance(r, str) else r for r in run)))
        run = []

    for p in parts:
        if isinstance(p, CBlock):
            flush()
            toks.append(Tok("cblock", p))
            continue
        if isinstance(p, (z3.ExprRef, Atom)):
            if isinstance(p, Atom) and p.props.get("role") in ("qual", "text"):
                flush()
                toks.append(Tok("atom", p))
            else:
                run.append(p)
            continue
        i = 0
        s = p
        while i < len(s):
            ch = s[i]
            if _WORD.match(ch):
                j = i
                while j < len(s) and _WORD.match(s[j]):
                    j += 1
                if run and isinstance(run[-1], str):
                    run[-1] += s[i:j]
                else:
                    run.append(s[i:j])
                i = j
                continue
            flush()
            if ch in " \t\n\r":
                i += 1
                continue
            if s.startswith("/*", i):
                j = s.find("*/", i + 2)
                if j < 0:
                    raise Unsupported("mini-C: unterminated comment")
                toks.append(Tok("atom", Atom("comment:" + s[i:j + 2], role="qual")))
                i = j + 2
                continue
            if s.startswith("+=", i):
                toks.append(Tok("p", "+="))
                i += 2
                continue
            if s[i:i + 2] in ("<=", ">=", "==", "!="):
                toks.append(Tok("rel", s[i:i + 2]))
                i += 2
                continue
            if ch in "<>":
                toks.append(Tok("rel", ch))
                i += 1
                continue
            if ch in "(){}[];=+-*,":
                toks.append(Tok("p", ch))
                i += 1
                continue
            raise Unsupported(f"mini-C: unexpected character {ch!r} in emitted text")
    flush()
    return toks


class Elem:
    """pointee type of a pointer value"""

    def __init__(self, toks):
        self.toks = toks
        self.size = None
        self.name = None
        for t in toks:
            if t.kind == "id" and len(t.val) == 1 and t.val[0] in KNOWN_SIZES:
                self.size = KNOWN_SIZES[t.val[0]]
                self.name = t.val[0]
            elif t.kind == "atom" and t.val.props.get("role") == "type":
                self.size = t.val.props.get("sizeof")
                self.name = t.val
            elif t.kind == "id" and t.val[0] not in TYPE_WORDS:
                self.name = t.val

    def __repr__(self):
        return f"elem({self.name},{self.size})"


class CResult:
    def __init__(self):
        self.offset = None
        self.ret = None
        self.stores = []
        self.loads = []
        self.ints = []
        self.decl_tokens = []
        self.pointer_decls = []
        self.locals = {}
        self.text = None
        self.early = []  # guarded early returns `if (a rel b) return e;` met before the final return: (condition, value)


class _P:
    def __init__(self, toks, res, env):
        self.t = toks
        self.i = 0
        self.res = res
        self.env = env

    def peek(self, k=0):
        return self.t[self.i + k] if self.i + k < len(self.t) else None

    def isp(self, ch, k=0):
        t = self.peek(k)
        return t is not None and t.kind == "p" and t.val == ch

    def eat(self, ch):
        if not self.isp(ch):
            raise Unsupported(f"mini-C: expected {ch!r} at token {self.i}: {self.t[max(0, self.i - 3):self.i + 3]}")
        self.i += 1

    # ---- types
    def is_type_tok(self, t):
        if t is None:
            return False
        if t.kind == "atom":
            return True
        if t.kind == "id":
            if len(t.val) == 1 and (t.val[0] in TYPE_WORDS or t.val[0].endswith("_t")):
                return True
            if t.val in self.env.get("typenames", ()):
                return True
        return False

    def try_cast(self):
        """at '(' : if the parenthesis holds a type, consume it and return (typetoks, nstars) else None"""
        if not self.isp("("):
            return None
        j = self.i + 1
        typetoks = []
        stars = 0
        seen_name = False
        while j < len(self.t):
            t = self.t[j]
            if t.kind == "p" and t.val == ")":
                break
            if t.kind == "p" and t.val == "*":
                stars += 1
                typetoks.append(t)
            elif self.is_type_tok(t) and stars == 0:
                if not (t.kind == "atom" and t.val.props.get("role") == "qual"):
                    seen_name = True
                typetoks.append(t)
            else:
                return None
            j += 1
        else:
            return None
        if not seen_name:
            return None
        self.i = j + 1
        return typetoks, stars

    # ---- expressions
    def expr(self):
        v = self.term()
        while self.isp("+") or self.isp("-"):
            op = self.peek().val
            self.i += 1
            w = self.term()
            v = self.add(v, w, op)
        return v

    def term(self):
        v = self.unary()
        while self.isp("*"):
            self.i += 1
            w = self.unary()
            a, b = self.as_int(v), self.as_int(w)
            r = a * b
            self.res.ints.append(r)
            v = ("int", r)
        return v

    def unary(self):
        if self.isp("*"):
            self.i += 1
            v = self.unary()
            if v[0] != "ptr":
                raise Unsupported("mini-C: dereference of a non-pointer")
            self.res.loads.append((v[1], v[2]))
            return ("load", v[1], v[2])
        if self.isp("-"):
            self.i += 1
            v = self.unary()
            return ("int", -self.as_int(v))
        if self.isp("("):
            save = self.i
            c = self.try_cast()
            if c is not None:
                typetoks, stars = c
                v = self.unary()
                return self.cast(typetoks, stars, v)
            self.i = save
        return self.postfix()

    def cast(self, typetoks, stars, v):
        base = [t for t in typetoks if not (t.kind == "p")]
        quals = [t for t in base if t.kind == "atom" and t.val.props.get("role") == "qual"]
        if stars >= 1:
            self.res.pointer_decls.append({"quals": [q.val.name for q in quals], "type": [str(t.val) for t in base], "where": "cast"})
            if stars == 1:
                elem = Elem(base)
            else:
                elem = Elem([Tok("id", ("void*",))])
                elem.size = 8
            if v[0] == "ptr":
                return ("ptr", v[1], elem)
            if v[0] in ("int", "load"):
                return ("ptr", self.as_int(v), elem)
            raise Unsupported("mini-C: cast of unknown value to pointer")
        # value cast  (T) expr
        e = Elem(base)
        if v[0] == "ptr":
            # cast to an opaque handle typedef (struct pointer): keep address
            return ("ptr", v[1], e)
        return ("int", self.as_int(v))

    def postfix(self):
        v = self.primary()
        while self.isp("["):
            self.i += 1
            k = self.expr()
            self.eat("]")
            if v[0] != "ptr":
                raise Unsupported("mini-C: subscript of non-pointer")
            if v[2].size is None:
                raise Unsupported("mini-C: subscript of pointer to unsized type")
            addr = v[1] + self.as_int(k) * v[2].size
            self.res.loads.append((addr, v[2]))
            v = ("load", addr, v[2])
        return v

    def primary(self):
        t = self.peek()
        if t is None:
            raise Unsupported("mini-C: unexpected end of expression")
        if t.kind == "num":
            self.i += 1
            return ("int", t.val if isinstance(t.val, z3.ExprRef) else z3.IntVal(t.val))
        if t.kind == "id":
            self.i += 1
            return self.var(t.val)
        if self.isp("("):
            self.i += 1
            v = self.expr()
            self.eat(")")
            return v
        raise Unsupported(f"mini-C: unexpected token {t} in expression")

    def var(self, key):
        if key == ("obj",):
            return ("ptr", OBJ, Elem([Tok("id", ("struct_obj",))]))
        if key in self.res.locals:
            return self.res.locals[key]
        if len(key) == 1:
            m = re.fullmatch(r"i(\d+)", key[0])
            if m:
                return ("int", IDX(z3.IntVal(int(m.group(1)))))
            if key[0] == "value":
                return ("value",)
        if len(key) == 2 and key[0] == "i" and isinstance(key[1], z3.ExprRef):
            return ("int", IDX(key[1]))
        raise Unsupported(f"mini-C: undeclared identifier {key}")

    def as_int(self, v):
        if v[0] == "int":
            return v[1]
        if v[0] == "load":
            sz = v[2].size
            if sz is None:
                raise Unsupported("mini-C: load through pointer to unsized type")
            if isinstance(sz, int) and sz == 8:
                return W8(v[1])
            key = str(sz)
            if key not in LOADW:
                LOADW[key] = z3.Function(f"W_{len(LOADW)}", z3.IntSort(), z3.IntSort())
            return LOADW[key](v[1])
        raise Unsupported(f"mini-C: {v[0]} used as integer")

    def add(self, v, w, op):
        if v[0] == "ptr" and w[0] != "ptr":
            if v[2].size is None:
                raise Unsupported("mini-C: arithmetic on pointer to unsized type")
            k = self.as_int(w)
            d = k * v[2].size
            return ("ptr", v[1] + d if op == "+" else v[1] - d, v[2])
        if w[0] == "ptr":
            raise Unsupported("mini-C: int + pointer / pointer difference")
        a, b = self.as_int(v), self.as_int(w)
        r = a + b if op == "+" else a - b
        self.res.ints.append(r)
        return ("int", r)

    # ---- statements
    def statement(self):
        t = self.peek()
        if t.kind == "cblock":
            self.i += 1
            self.res.locals[("offset",)] = ("int", t.val.value)
            return
        if t.kind == "id" and t.val == ("if",):
            # the one conditional form understood: `if (<int expr> <rel> <int expr>) return <expr>;` -- a guarded early return
            self.i += 1
            self.eat("(")
            a = self.as_int(self.expr())
            r = self.peek()
            if r is None or r.kind != "rel":
                raise Unsupported("mini-C: condition of `if` is not a comparison")
            self.i += 1
            b = self.as_int(self.expr())
            self.eat(")")
            k = self.peek()
            if not (k is not None and k.kind == "id" and k.val == ("return",)):
                raise Unsupported("mini-C: `if` controlling something other than a return")
            self.i += 1
            v = self.expr()
            self.eat(";")
            a_, b_ = (z3.IntVal(a) if isinstance(a, int) else a), (z3.IntVal(b) if isinstance(b, int) else b)
            cond = {"<": a_ < b_, "<=": a_ <= b_, ">": a_ > b_, ">=": a_ >= b_, "==": a_ == b_, "!=": a_ != b_}[r.val]
            self.res.early.append((cond, v))
            return
        if t.kind == "id" and t.val == ("return",):
            self.i += 1
            if self.isp(";"):
                self.i += 1
                self.res.ret = ("void",)
                return "return"
            self.res.ret = self._fold_early(self.expr())
            self.eat(";")
            return "return"
        # find the end of the statement and the top-level assignment operator
        j = self.i
        depth = 0
        eqpos = None
        while j < len(self.t) and not (self.t[j].kind == "p" and self.t[j].val == ";" and depth == 0):
            tt = self.t[j]
            if tt.kind == "p" and tt.val in "([":
                depth += 1
            elif tt.kind == "p" and tt.val in ")]":
                depth -= 1
            elif tt.kind == "p" and tt.val in ("=", "+=") and depth == 0 and eqpos is None:
                eqpos = j
            j += 1
        if j >= len(self.t):
            raise Unsupported("mini-C: statement without ';'")
        if eqpos is None:
            raise Unsupported(f"mini-C: statement form not understood: {self.t[self.i:j]}")
        lhs = self.t[self.i:eqpos]
        op = self.t[eqpos].val
        # declaration:  <type tokens> [*...] name = expr
        if op == "=" and len(lhs) >= 2 and lhs[-1].kind == "id" and all(
            self.is_type_tok(x) or (x.kind == "p" and x.val == "*") for x in lhs[:-1]
        ):
            stars = sum(1 for x in lhs[:-1] if x.kind == "p")
            base = [x for x in lhs[:-1] if x.kind != "p"]
            if stars:
                quals = [q.val.name for q in base if q.kind == "atom" and q.val.props.get("role") == "qual"]
                self.res.pointer_decls.append({"quals": quals, "type": [str(x.val) for x in base], "where": "decl"})
            self.i = eqpos + 1
            v = self.expr()
            self.eat(";")
            if stars:
                if v[0] != "ptr":
                    raise Unsupported("mini-C: pointer variable initialised with non-pointer")
                v = ("ptr", v[1], Elem(base))
            else:
                v = ("int", self.as_int(v))
            self.res.locals[lhs[-1].val] = v
            return
        if len(lhs) == 1 and lhs[0].kind == "id":
            name = lhs[0].val
            if name not in self.res.locals:
                raise Unsupported(f"mini-C: assignment to undeclared {name}")
            self.i = eqpos + 1
            v = self.expr()
            self.eat(";")
            cur = self.res.locals[name]
            if op == "+=":
                r = self.as_int(cur) + self.as_int(v)
                self.res.ints.append(r)
                self.res.locals[name] = ("int", r)
            else:
                self.res.locals[name] = ("int", self.as_int(v))
            return
        # store through an lvalue expression
        if op != "=":
            raise Unsupported("mini-C: compound assignment to lvalue expression")
        sub = _P(lhs, self.res, self.env)
        nl = len(self.res.loads)
        lv = sub.unary()
        if sub.i != len(lhs) or lv[0] != "load":
            raise Unsupported("mini-C: left-hand side is not an lvalue")
        del self.res.loads[nl:]  # an lvalue is not read
        self.i = eqpos + 1
        v = self.expr()
        self.eat(";")
        self.res.stores.append((lv[1], lv[2], v))

    def _fold_early(self, ret):
        """the value returned = the first guarded early return whose condition holds, else the final one; understood when the values
        are integers (or a null pointer constant against a pointer): the address / value becomes an if-then-else term"""
        for cond, v in reversed(self.res.early):
            if ret[0] == "ptr" and v[0] == "int":
                ret = ("ptr", z3.If(cond, self.as_int(v) if not isinstance(self.as_int(v), int) else z3.IntVal(self.as_int(v)), ret[1]), ret[2])
            elif ret[0] == "int" and v[0] == "int":
                x, y = self.as_int(v), self.as_int(ret)
                ret = ("int", z3.If(cond, z3.IntVal(x) if isinstance(x, int) else x, z3.IntVal(y) if isinstance(y, int) else y))
            else:
                raise Unsupported("mini-C: guarded early return of a value of another kind than the final one")
        return ret

    def block(self):
        while self.peek() is not None and not self.isp("}"):
            if self.statement() == "return":
                break


def run_function(text, typenames=()):
    """C semantics of one emitted function  `decl { body }`"""
    toks = tokenize(text)
    res = CResult()
    res.text = text.render() if isinstance(text, Tmpl) else text
    k = None
    for i, t in enumerate(toks):
        if t.kind == "p" and t.val == "{":
            k = i
            break
    if k is None:
        raise Unsupported("mini-C: no function body")
    res.decl_tokens = toks[:k]
    p = _P(toks[k + 1:], res, {"typenames": set(typenames)})
    p.block()
    off = res.locals.get(("offset",))
    res.offset = off[1] if off else None
    return res


def run_block(text, typenames=(), offset0=None):
    """C semantics of a statement block (no declaration line), e.g. the result of gen_method_offset"""
    toks = tokenize(text)
    res = CResult()
    res.text = text.render() if isinstance(text, Tmpl) else text
    if offset0 is not None:
        res.locals[("offset",)] = ("int", offset0)
    p = _P(toks, res, {"typenames": set(typenames)})
    p.block()
    if p.peek() is not None:
        raise Unsupported(f"mini-C: trailing tokens {p.t[p.i:p.i + 4]}")
    off = res.locals.get(("offset",))
    res.offset = off[1] if off else None
    return res
