"""driver: verify functions under contract, discharge obligations, print a table"""
import importlib
import os
import sys
import time
import z3

sys.path.insert(0, os.path.dirname(os.path.dirname(os.path.abspath(__file__))))
from pyvc.registry import reg
from pyvc.interp import Interp
from pyvc import solve, source as src
from pyvc.core import PyvcError


def load_contracts(mods):
    for m in mods:
        importlib.import_module("contracts." + m)


def verify_function(relpath, qualname, budget=solve.QUICK, verbose=True):
    if relpath == "<lemma>":
        con = [l for l in reg.lemmas if l.qualname == qualname][0]
    else:
        con = reg.contracts[(relpath, qualname)]
    it = Interp(reg)
    t0 = time.time()
    obs = it.verify(con)
    tg = time.time() - t0
    ts = solve.discharge_all(obs, budget)
    if os.environ.get("PYVC_MODEL"):
        for ob in obs:
            if ob.status == "refuted" and os.environ["PYVC_MODEL"] in ob.name:
                print("MODEL for", ob.name)
                print(solve.get_model_text(ob.pc, ob.failed_sub["goal"], budget, ob.failed_sub["backend"])[:6000])
                print("GOAL", ob.failed_sub["goal"])
                break
    if verbose:
        for ob in obs:
            print(f"  {ob.status:10s} {ob.time:6.2f}s {ob.backend or '-':12s} {ob.name}")
        n = sum(1 for o in obs if o.status == "discharged")
        print(f"{qualname}: {n}/{len(obs)} discharged, paths={it.n_paths}, gen {tg:.1f}s solve {ts:.1f}s")
    return obs, it


if __name__ == "__main__":
    load_contracts(sys.argv[1].split(","))
    for q in sys.argv[2:]:
        rel, qn = q.split(":")
        verify_function(rel, qn)
