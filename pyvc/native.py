"""Native evaluation of the sidecar contracts on the real code (run-time contract checking).

The same clause texts and the same spec functions (spec/*.py) that pyvc evaluates symbolically
are evaluated here with python's own `eval` on real objects.  Used for (a) replaying solver
counter-models, (b) the bounded stand-ins / counterexample finders, (c) cross-checking the symbolic
encoding against CPython.  Never counted as proof.
"""
import ast
import copy
import types


class LiveSet:
    """ghost set of regions handed out; callable as the predicate Live(o, s)"""

    def __init__(self, regions=()):
        self.regions = list(regions)

    def __call__(self, o, s):
        return (o, s) in self.regions

    def __iter__(self):
        return iter(self.regions)

    def __repr__(self):
        return f"Live{self.regions}"


class StorageSnap:
    def __init__(self, data, ident):
        self.data = bytes(data)
        self.ident = ident

    def __len__(self):
        return len(self.data)


def _ident(s):
    return s.ident if isinstance(s, StorageSnap) else id(s)


def n_forall(lo, hi, f):
    import inspect

    n = len(inspect.signature(f).parameters)
    if n == 1:
        return all(f(i) for i in range(lo, hi))
    if n == 2:
        return all(f(i, j) for i in range(lo, hi) for j in range(lo, hi))
    raise ValueError("forall arity")


def n_exists(lo, hi, f):
    import inspect

    n = len(inspect.signature(f).parameters)
    if n == 1:
        return any(f(i) for i in range(lo, hi))
    if n == 2:
        return any(f(i, j) for i in range(lo, hi) for j in range(lo, hi))
    raise ValueError("exists arity")


def n_byte(sto, x):
    if isinstance(sto, StorageSnap):
        return sto.data[x]
    v = sto[x]
    return int(v) & 0xFF


NATIVE_BUILTINS = {
    "forall": n_forall,
    "exists": n_exists,
    "implies": lambda a, b: (not a) or bool(b),
    "iff": lambda a, b: bool(a) == bool(b),
    "ite": lambda c, a, b: a if c else b,
    "forall_live": lambda live, f: all(f(o, s) for (o, s) in live),
    "forall_int": None,  # replaced per call: quantification domain must be given by the harness
    "align_up": lambda x, a: ((x + a - 1) // a) * a,
    "pow2": lambda a: a > 0 and (a & (a - 1)) == 0,
    "pymod": lambda x, a: x % a,
    "byte": n_byte,
    "slen": lambda s: len(s),
    "same_storage": lambda a, b: _ident(a) == _ident(b),
    "same_obj": lambda a, b: getattr(a, "ident", id(a)) == getattr(b, "ident", id(b)),
}


class _OldRewriter(ast.NodeTransformer):
    """old(E)  ->  __old(lambda <params>: E)   (E then sees the pre-state snapshots of the parameters)"""

    def __init__(self, params):
        self.params = params

    def visit_Call(self, node):
        self.generic_visit(node)
        if isinstance(node.func, ast.Name) and node.func.id == "old" and len(node.args) == 1:
            lam = ast.Lambda(
                args=ast.arguments(posonlyargs=[], args=[ast.arg(arg=p) for p in self.params], kwonlyargs=[],
                                   kw_defaults=[], defaults=[]),
                body=node.args[0],
            )
            return ast.Call(func=ast.Name(id="__old", ctx=ast.Load()), args=[lam], keywords=[])
        # lazy forms: python evaluates call arguments eagerly, the spec connectives must short-circuit
        if isinstance(node.func, ast.Name) and node.func.id == "implies" and len(node.args) == 2:
            return ast.BoolOp(op=ast.Or(), values=[ast.UnaryOp(op=ast.Not(), operand=node.args[0]), node.args[1]])
        if isinstance(node.func, ast.Name) and node.func.id == "ite" and len(node.args) == 3:
            return ast.IfExp(test=node.args[0], body=node.args[1], orelse=node.args[2])
        return node


_compiled = {}


def compile_clause(text, params):
    key = (text, tuple(params))
    if key not in _compiled:
        tree = ast.parse(text.strip(), mode="eval")
        tree = _OldRewriter(list(params)).visit(tree)
        ast.fix_missing_locations(tree)
        _compiled[key] = compile(tree, "<clause>", "eval")
    return _compiled[key]


class NativeSpec:
    """namespace holding the spec functions of the registry, executable natively"""

    def __init__(self, reg, int_domain=None):
        self.ns = dict(NATIVE_BUILTINS)
        dom = int_domain if int_domain is not None else range(-2, 40)

        def forall_int(f):
            import inspect, itertools

            n = len(inspect.signature(f).parameters)
            return all(f(*t) for t in itertools.product(dom, repeat=n))

        self.ns["forall_int"] = forall_int
        for path, text in reg.spec_text.items():
            tree = _OldRewriter([]).visit(ast.parse(text))
            ast.fix_missing_locations(tree)
            exec(compile(tree, path, "exec"), self.ns)

    def eval(self, text, env, params, old_env=None):
        code = compile_clause(text, params)
        ns = dict(self.ns)
        ns.update(env)
        if old_env is not None:
            ns["__old"] = lambda f: f(*[old_env[p] for p in params])
        return eval(code, ns)


class ContractViolation(Exception):
    def __init__(self, contract, clause, detail=""):
        super().__init__(f"{contract.qualname}: {clause} {detail}")
        self.clause = clause


def check_call(spec, con, func, args, ghost=None, snap=None, result_name="result"):
    """run `func(**args)` on the real code under contract `con`.
    returns (status, failed_clauses, result, exc) with status in {'pre-false', 'ok', 'violated'}"""
    ghost = ghost or {}
    params = list(args.keys())
    env = dict(args)
    env.update(ghost)
    for nm, e in con.lets.items():
        env[nm] = spec.eval(e, env, params)
    allp = params + list(con.lets.keys())
    for nm, e in con.requires:
        if not spec.eval(e, env, allp):
            return "pre-false", [nm], None, None
    old_env = {k: (snap(v) if snap else copy.deepcopy(v)) for k, v in args.items()}
    for nm in con.lets:
        old_env[nm] = env[nm]
    failed = []
    exc = None
    res = None
    try:
        res = func(**args)
    except RecursionError as e:  # an implicit failure of "always terminates with a result"
        exc = e
    except Exception as e:  # noqa
        exc = e
    if exc is not None:
        name = type(exc).__name__
        if name in con.raises:
            if not spec.eval(con.raises[name], old_env | ghost, allp):
                failed.append(f"raises.{name}.allowed")
            env2 = dict(env)
            for nm, e in con.raises_ensures:
                if not spec.eval(e, env2, allp, old_env):
                    failed.append(f"rpost.{nm}")
        else:
            failed.append(f"raises.{name}.never")
        return ("violated" if failed else "ok"), failed, None, exc
    env[result_name] = res
    for nm, e in con.ensures:
        try:
            ok = spec.eval(e, env, allp, old_env)
        except Exception as e2:  # a clause that cannot even be evaluated on the post-state
            ok = False
            nm = f"{nm}(eval:{type(e2).__name__}:{e2})"
        if not ok:
            failed.append(f"post.{nm}")
    return ("violated" if failed else "ok"), failed, res, None
