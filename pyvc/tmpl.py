"""Template strings: the value of an f-string whose holes hold solver terms or opaque atoms.

A python `str` built by the code under verification from symbolic integers cannot be a concrete
str; it is kept as a sequence of parts
    str        literal text
    z3 Int     a decimal rendering of that integer (python's str(int) / f"{int}")
    Atom       an opaque string token (a configuration value, a class name, a C type name)
    CBlock     (only produced by contracts) text whose C semantics is given directly
Adjacent literals are merged.  A Tmpl without holes is returned as a plain str.
"""
import z3


class Atom:
    """opaque string token; props: role ('type'|'qual'|'name'|'text'), sizeof (z3/int) for C types,
    ends_star (bool) for what `.endswith("*")` answers"""

    def __init__(self, name, **props):
        self.name = name
        self.props = props

    def __repr__(self):
        return f"<{self.name}>"

    def binop(self, interp, st, op, other, reflected):
        return Tmpl([self]).binop(interp, st, op, other, reflected)

    def equal(self, other):
        if isinstance(other, Atom):
            if other is self or other.name == self.name:
                return True
        raise_unsupported(f"== between atom {self.name} and {other!r}")


class CBlock:
    """text standing for a block of C statements with known effect: declares `offset` and leaves offset == value"""

    def __init__(self, value, label="offset-block"):
        self.value = value
        self.label = label

    def __repr__(self):
        return f"<<{self.label}:{self.value}>>"


def raise_unsupported(msg):
    from .core import Unsupported

    raise Unsupported(msg)


class Tmpl:
    __slots__ = ("parts",)

    def __init__(self, parts):
        out = []
        for p in parts:
            if isinstance(p, Tmpl):
                ps = p.parts
            else:
                ps = [p]
            for q in ps:
                if isinstance(q, str):
                    if not q:
                        continue
                    if out and isinstance(out[-1], str):
                        out[-1] = out[-1] + q
                    else:
                        out.append(q)
                else:
                    out.append(q)
        self.parts = out

    def __repr__(self):
        return "T'" + "".join(p if isinstance(p, str) else "{" + str(p) + "}" for p in self.parts) + "'"

    def render(self):
        return "".join(p if isinstance(p, str) else "{" + str(p) + "}" for p in self.parts)

    def has_holes(self):
        return any(not isinstance(p, str) for p in self.parts)

    def truth(self):
        if any(isinstance(p, str) and p for p in self.parts):
            return True
        if any(isinstance(p, z3.ExprRef) for p in self.parts):
            return True  # an int renders to at least one character
        raise_unsupported("truthiness of a template made only of opaque atoms")

    def binop(self, interp, st, op, other, reflected):
        import ast

        if isinstance(op, ast.Add):
            o = to_tmpl_part(other)
            return mk([o, self] if reflected else [self, o])
        return NotImplemented

    def endswith(self, suffix):
        if not self.parts:
            return suffix == ""
        last = self.parts[-1]
        if isinstance(last, str):
            if len(last) >= len(suffix):
                return last.endswith(suffix)
            raise_unsupported("endswith across a hole")
        if isinstance(last, Atom):
            if suffix == "*" and "ends_star" in last.props:
                return last.props["ends_star"]
            raise_unsupported(f"endswith on opaque atom {last.name}")
        if isinstance(last, z3.ExprRef):
            if suffix and not suffix[-1].isdigit():
                return False
        raise_unsupported("endswith on hole")


def to_tmpl_part(v):
    from .core import is_sym

    if isinstance(v, (str, Atom, CBlock, Tmpl)):
        return v
    if isinstance(v, bool):
        return str(v)
    if isinstance(v, int):
        return str(v)
    if v is None:
        return "None"
    if isinstance(v, z3.ArithRef) and v.is_int():
        return v
    raise_unsupported(f"cannot format {v!r} into a string")


def mk(parts):
    t = Tmpl([to_tmpl_part(p) for p in parts])
    if not t.has_holes():
        return "".join(t.parts)
    return t


def join(sep, items):
    parts = []
    for k, it in enumerate(items):
        if k:
            parts.append(sep)
        parts.append(it)
    return mk(parts)


def is_strlike(v):
    return isinstance(v, (str, Tmpl, Atom))
