"""pyvc core: symbolic values, heap, path state.

Value domain of the symbolic executor
  int   : python int | z3 ArithRef(Int)
  bool  : python bool | z3 BoolRef
  None, str (concrete), tuple (python tuple of values)
  HRef  : reference to an object of a *heap class* (unboundedly many instances, fields
          live in field-indexed z3 arrays  heap[(cls, field)] : Int -> sort)
  SymObj: a singleton mutable object (e.g. `self`), attributes in a python dict
  SList : python list with symbolic length; elements encoded as Int (ints or HRef ids)
  PList : python list with concrete length, arbitrary element values
  PDict : python dict with concrete key set (insertion ordered)
  Mem   : a byte map Int -> Int  (value of a `bytes` heap field)
  Tmpl  : template string (literal pieces + holes), see pyvc/tmpl.py
"""
import itertools
import z3

_uid = itertools.count(1)
_fresh = itertools.count(1)


def fresh_name(base):
    return f"{base}!{next(_fresh)}"


def fresh_int(base):
    return z3.Int(fresh_name(base))


def fresh_bool(base):
    return z3.Bool(fresh_name(base))


def fresh_mem(base):
    return z3.Array(fresh_name(base), z3.IntSort(), z3.IntSort())


class PyvcError(Exception):
    """construct outside the supported subset / contract does not match code shape"""


class Unsupported(PyvcError):
    pass


def is_sym(v):
    return isinstance(v, z3.ExprRef)


def is_intlike(v):
    return (isinstance(v, int) and not isinstance(v, bool)) or (
        isinstance(v, z3.ArithRef) and v.is_int()
    )


def is_boollike(v):
    return isinstance(v, bool) or isinstance(v, z3.BoolRef)


def to_z3(v):
    if isinstance(v, bool):
        return z3.BoolVal(v)
    if isinstance(v, int):
        return z3.IntVal(v)
    if isinstance(v, HRef):
        return to_z3(v.ref)
    if isinstance(v, z3.ExprRef):
        return v
    raise Unsupported(f"cannot convert {v!r} to a solver term")


class _HarnessErrors:
    """exceptions a harness sub-case treats as "the code no longer has the shape this harness speaks about" (reported per sub-case
    as undecided): leaving the executable subset, and look-ups of attributes / keys / positions the unchanged code produces"""
    TYPES = (KeyError, AttributeError, TypeError, IndexError, AssertionError, z3.Z3Exception)


HARNESS_ERRORS = (PyvcError,) + _HarnessErrors.TYPES


def same_value(a, b):
    """semantic equality of two interpreter values for use in harness obligations: a formula when either side is a solver term,
    a python bool otherwise -- so that a rewritten-but-equal expression in the code (x + 0, int(x), any(...) for a loop)
    does not fail an obligation that compares terms by identity"""
    if a is b:
        return True
    za, zb = isinstance(a, z3.ExprRef), isinstance(b, z3.ExprRef)
    if za or zb:
        try:
            ta, tb = to_z3(a), to_z3(b)
        except Unsupported:
            return False
        if ta.sort() != tb.sort():
            return False
        return ta == tb
    if isinstance(a, bool) or isinstance(b, bool) or a is None or b is None:
        return a is b
    if isinstance(a, int) and isinstance(b, int):
        return a == b
    return False


def zbool(v):
    if isinstance(v, bool):
        return z3.BoolVal(v)
    if isinstance(v, z3.BoolRef):
        return v
    raise Unsupported(f"not a bool: {v!r}")


class HRef:
    """immutable reference to a heap-class object"""

    __slots__ = ("cls", "ref")

    def __init__(self, cls, ref):
        self.cls = cls
        self.ref = ref

    def __repr__(self):
        return f"<{self.cls}@{self.ref}>"


class Mem:
    """byte map value"""

    __slots__ = ("arr",)

    def __init__(self, arr):
        self.arr = arr


class _Mut:
    def __init__(self):
        self.uid = next(_uid)
        self.stale = False


class SymObj(_Mut):
    def __init__(self, cls, attrs=None):
        super().__init__()
        self.cls = cls
        self.attrs = dict(attrs or {})

    def __repr__(self):
        return f"<obj {self.cls}#{self.uid}>"


class SList(_Mut):
    """list with symbolic length; kind = 'int' or ('href', cls)"""

    def __init__(self, length, arr, kind):
        super().__init__()
        self.length = length
        self.arr = arr
        self.kind = kind

    def wrap(self, e):
        if self.kind == "int":
            return e
        return HRef(self.kind[1], e)

    def get(self, i):
        return self.wrap(z3.simplify(z3.Select(self.arr, to_z3(i))) if not is_sym(i) else z3.Select(self.arr, i))

    def __repr__(self):
        return f"<slist#{self.uid} len={self.length}>"


class PList(_Mut):
    def __init__(self, items=()):
        super().__init__()
        self.items = list(items)

    def __repr__(self):
        return f"<plist#{self.uid} {self.items!r}>"


class PDict(_Mut):
    def __init__(self, items=None):
        super().__init__()
        self.items = dict(items or {})

    def __repr__(self):
        return f"<pdict#{self.uid} {self.items!r}>"


class FuncVal:
    """a python function of /repo (to be inlined or replaced by its contract)"""

    def __init__(self, relpath, qualname, bound_self=None):
        self.relpath = relpath
        self.qualname = qualname
        self.bound_self = bound_self

    def __repr__(self):
        return f"<func {self.relpath}:{self.qualname}>"


class BuiltinVal:
    def __init__(self, name, bound=None):
        self.name = name
        self.bound = bound

    def __repr__(self):
        return f"<builtin {self.name}>"


class ClassVal:
    def __init__(self, name, relpath=None):
        self.name = name
        self.relpath = relpath

    def __repr__(self):
        return f"<class {self.name}>"


class Frame:
    def __init__(self, func, locals_=None):
        self.func = func
        self.locals = dict(locals_ or {})


class Obligation:
    def __init__(self, name, pc, goal, kind, line=None, abstraction=False, info=None):
        self.name = name
        self.pc = list(pc)
        self.goal = goal
        self.kind = kind
        self.line = line
        self.abstraction = abstraction
        self.info = info or {}
        self.status = None
        self.backend = None
        self.time = None
        self.model = None
        self.reason = None


class State:
    """one symbolic path"""

    def __init__(self):
        self.frames = []
        self.heap = {}  # (cls, field) -> z3 array
        self.heap_sorts = {}  # (cls, field) -> 'int' | 'bytes' | ('href', cls)
        self.next_ref = {}  # cls -> z3 Int expr (all existing refs are < it)
        self.pc = []
        self.writes = set()
        self.abstraction = False  # a loop cut or callee contract lies on this path
        self.ghost = {}
        self.entry = None  # snapshot at function entry (for old())
        self.loop_entries = {}  # loop ordinal -> snapshot
        self.depth = 0
        self.trace = []

    # ---- cloning -------------------------------------------------------
    def clone(self):
        memo = {}

        def cp(v):
            if isinstance(v, _Mut):
                if v.uid in memo:
                    return memo[v.uid]
                if isinstance(v, SymObj):
                    n = SymObj.__new__(SymObj)
                    n.__dict__.update({k: x for k, x in v.__dict__.items() if k != "attrs"})
                    memo[v.uid] = n
                    n.attrs = {k: cp(x) for k, x in v.attrs.items()}
                elif isinstance(v, SList):
                    n = SList.__new__(SList)
                    n.uid, n.stale = v.uid, v.stale
                    n.length, n.arr, n.kind = v.length, v.arr, v.kind
                    memo[v.uid] = n
                elif isinstance(v, PList):
                    n = PList.__new__(PList)
                    n.uid, n.stale = v.uid, v.stale
                    memo[v.uid] = n
                    n.items = [cp(x) for x in v.items]
                elif isinstance(v, PDict):
                    n = PDict.__new__(PDict)
                    n.uid, n.stale = v.uid, v.stale
                    memo[v.uid] = n
                    n.items = {k: cp(x) for k, x in v.items.items()}
                elif hasattr(v, "clone_mut"):
                    n = v.clone_mut(cp)
                    n.uid, n.stale = v.uid, v.stale
                    memo[v.uid] = n
                else:
                    raise Unsupported(f"clone {v!r}")
                return n
            if isinstance(v, tuple):
                return tuple(cp(x) for x in v)
            if isinstance(v, FuncVal) and v.bound_self is not None:
                return FuncVal(v.relpath, v.qualname, cp(v.bound_self))
            if isinstance(v, BuiltinVal) and v.bound is not None:
                return BuiltinVal(v.name, cp(v.bound))
            return v

        s = State()
        s.frames = [Frame(f.func, {k: cp(v) for k, v in f.locals.items()}) for f in self.frames]
        for f, g in zip(self.frames, s.frames):
            g.__dict__.update({k: v for k, v in f.__dict__.items() if k not in ("func", "locals")})
        s.heap = dict(self.heap)
        s.heap_sorts = self.heap_sorts
        s.next_ref = dict(self.next_ref)
        s.pc = list(self.pc)
        s.writes = set(self.writes)
        s.abstraction = self.abstraction
        s.ghost = {k: cp(v) for k, v in self.ghost.items()}
        s.entry = self.entry
        s.loop_entries = dict(self.loop_entries)
        s.depth = self.depth
        s.trace = list(self.trace)
        s._memo = memo
        # attributes that harnesses hang on a path (event records, remembered memories, pending exception): they belong to the path and go
        # with every fork of it (lists are copied so that the forks do not share later appends)
        for k, v in self.__dict__.items():
            if k not in s.__dict__ or k in ("catch_stack",):
                s.__dict__[k] = list(v) if isinstance(v, list) else (dict(v) if isinstance(v, dict) else v)
        return s

    def snapshot(self):
        """an immutable copy used to evaluate old()/at_loop() expressions"""
        s = self.clone()
        return s

    # ---- frames --------------------------------------------------------
    @property
    def locals(self):
        return self.frames[-1].locals

    def assume(self, f):
        if isinstance(f, bool):
            if not f:
                self.pc.append(z3.BoolVal(False))
            return
        self.pc.append(f)

    # ---- heap ----------------------------------------------------------
    def heap_arr(self, cls, field):
        key = (cls, field)
        if key not in self.heap:
            sort = self.heap_sorts.get(key)
            if sort is None:
                raise Unsupported(f"heap class {cls} has no declared field {field}")
            if sort == "bytes":
                a = z3.Array(fresh_name(f"H_{cls}_{field}"), z3.IntSort(), z3.ArraySort(z3.IntSort(), z3.IntSort()))
            else:
                a = z3.Array(fresh_name(f"H_{cls}_{field}"), z3.IntSort(), z3.IntSort())
            self.heap[key] = a
        return self.heap[key]

    def heap_get(self, href, field):
        key = (href.cls, field)
        a = self.heap_arr(*key)
        v = z3.Select(a, to_z3(href.ref))
        sort = self.heap_sorts[key]
        if sort == "bytes":
            return Mem(v)
        if isinstance(sort, tuple) and sort[0] == "href":
            return HRef(sort[1], v)
        if sort == "bool":
            return v != 0
        return v

    def heap_set(self, href, field, val):
        key = (href.cls, field)
        a = self.heap_arr(*key)
        sort = self.heap_sorts[key]
        if sort == "bytes":
            zv = val.arr
        elif sort == "bool":
            zv = z3.If(zbool(val), z3.IntVal(1), z3.IntVal(0))
        else:
            zv = to_z3(val)
        self.heap[key] = z3.Store(a, to_z3(href.ref), zv)
        self.writes.add(("heap", key))

    def new_href(self, cls):
        """allocate a fresh heap object: its ref equals the current allocation
        counter, every pre-existing ref of the class is below it"""
        if cls not in self.next_ref:
            n0 = fresh_int(f"N0_{cls}")
            self.next_ref[cls] = n0
            self.assume(n0 >= 0)
        r = self.next_ref[cls]
        self.next_ref[cls] = r + 1
        return HRef(cls, r)

    def ref_bound(self, cls):
        if cls not in self.next_ref:
            n0 = fresh_int(f"N0_{cls}")
            self.next_ref[cls] = n0
            self.assume(n0 >= 0)
        return self.next_ref[cls]

    def assume_existing(self, v):
        """v (HRef or SList of HRef) denotes objects allocated before now"""
        if isinstance(v, HRef):
            b = self.ref_bound(v.cls)
            self.assume(z3.And(to_z3(v.ref) >= 0, to_z3(v.ref) < b))
        elif isinstance(v, SList) and v.kind != "int":
            b = self.ref_bound(v.kind[1])
            i = z3.Int(fresh_name("ix"))
            self.assume(
                z3.ForAll([i], z3.Implies(z3.And(i >= 0, i < v.length), z3.And(v.arr[i] >= 0, v.arr[i] < b)))
            )
