"""Extensions of the pyvc interpreter (mixed into Interp): f-strings / template strings, comprehensions,
imports between modules of /repo, class attributes from source, generic construction of simple classes,
hasattr/getattr/type, while-free helpers.  See pyvc/interp.py for the core.
"""
import ast
import os
import z3

from .core import (
    SymObj, SList, PList, PDict, FuncVal, BuiltinVal, ClassVal, HRef, Unsupported, is_sym, is_intlike,
    is_boollike, _Mut, Frame, to_z3,
)
from . import source as src
from .tmpl import Tmpl, Atom, mk as tmpl_mk, join as tmpl_join, is_strlike, to_tmpl_part


class LocalFunc:
    def __init__(self, node, module, owner):
        self.node, self.module, self.owner = node, module, owner

    def call(self, interp, st, args, kwargs, node):
        yield from interp.call_localfunc(st, self, args, kwargs, node)

    def __repr__(self):
        return f"<local function {self.node.name}>"


class ClassMethodVal:
    def __init__(self, func):
        self.func = func


class BoundLocal:
    """a local function bound to its first argument (method / classmethod access)"""

    def __init__(self, func, first):
        self.func, self.first = func, first

    def call(self, interp, st, args, kwargs, node):
        yield from interp.call(st, self.func, [interp._relocate(st, self.first)] + list(args), kwargs, node)


def bind_class_attr(v, klass, instance):
    """descriptor protocol for functions stored in an abstract class dictionary"""
    if isinstance(v, ClassMethodVal):
        return BoundLocal(v.func, klass)
    if isinstance(v, LocalFunc) and instance is not None:
        return BoundLocal(v, instance)
    return v


class ObjectBuiltin:
    """`object`: object.__new__(cls) makes a bare instance of the abstract class object cls"""

    def getattr(self, interp, st, attr, node):
        if attr == "__new__":
            yield st, self
            return
        raise Unsupported(f"object.{attr}")

    def call(self, interp, st, args, kwargs, node):
        (cls,) = args
        o = SymObj("instance", {"__class__": cls})
        o.closed = True
        key = f"__new{o.uid}"
        st.ghost[key] = o
        yield st, o


class InstanceDict:
    """`obj.__dict__` of an abstract instance: the instance attributes (not those of its class object); update() copies attributes"""

    def __init__(self, obj):
        self.obj = obj

    def _attrs(self, interp, st):
        o = interp._relocate(st, self.obj)
        return {k: v for k, v in o.attrs.items() if k != "__class__"}

    def getattr(self, interp, st, attr, node):
        if attr == "update":
            def upd(i, s, a, k, n):
                (other,) = a
                if isinstance(other, InstanceDict):
                    new = other._attrs(i, s)
                elif isinstance(other, PDict) and all(isinstance(x, str) for x in other.items):
                    new = dict(other.items)
                else:
                    raise Unsupported("__dict__.update with a value that is not an instance dict or a dict with literal keys")
                me = i._relocate(s, self.obj)
                me.attrs.update(new)
                me.attrs.update({kk: vv for kk, vv in k.items()})
                return None
            yield st, _CallHook(upd)
        elif attr == "copy":
            yield st, _CallHook(lambda i, s, a, k, n: PDict(self._attrs(i, s)))
        elif attr in ("items", "keys", "values", "get"):
            yield st, BuiltinVal("dict." + attr, PDict(self._attrs(interp, st)))
        else:
            raise Unsupported(f"__dict__.{attr}")

    def getitem(self, interp, st, i, node):
        a = self._attrs(interp, st)
        if not isinstance(i, str) or i not in a:
            raise Unsupported("__dict__[...] with an unknown key")
        return a[i]


class _CallHook:
    def __init__(self, fn):
        self.fn = fn

    def call(self, interp, st, args, kwargs, node):
        yield st, self.fn(interp, st, args, kwargs, node)


class ModuleVal:
    def __init__(self, name):
        self.name = name

    def getattr(self, interp, st, attr, node):
        short = {"numpy": "np"}.get(self.name, self.name)
        yield st, BuiltinVal(f"{short}.{attr}")

    def __repr__(self):
        return f"<module {self.name}>"


def resolve_import(relpath, module, level):
    """relpath of the module imported from `relpath` by `from <.>*module import ...` (inside /repo only)"""
    if level == 0:
        if module and module.split(".")[0] == "xobjects":
            cand = module.replace(".", "/") + ".py"
            return cand if os.path.exists(os.path.join(src.REPO, cand)) else None
        return None
    base = os.path.dirname(relpath)
    for _ in range(level - 1):
        base = os.path.dirname(base)
    if not module:
        return None
    cand = os.path.join(base, module.replace(".", "/") + ".py")
    return cand if os.path.exists(os.path.join(src.REPO, cand)) else None


class ExtMixin:
    # ------------------------------------------------------------------ names across modules
    def lookup_in_module(self, relpath, name, depth=0):
        """value of global `name` of module relpath, following `from .x import name`; None if unknown"""
        if depth > 6:
            return None
        ov = getattr(self, "extern_names", {})
        if name in ov:
            return ov[name]
        m = src.module(relpath)
        if name in m.funcs:
            return FuncVal(relpath, name)
        if name in m.classes:
            return ClassVal(name, relpath)
        if name in m.assigns:
            if name in m.mutated_names and _is_mutable_display(m.assigns[name]):
                raise Unsupported(f"module-level mutable state `{name}` of {relpath} is modified by functions of the module: the result of a function "
                                  f"that reads it depends on earlier calls")
            try:
                return _lit(ast.literal_eval(m.assigns[name]))
            except Exception:
                pass
            try:
                return _lit(_const_eval(m.assigns[name], lambda nm: self.lookup_in_module(relpath, nm, depth + 1)))
            except Exception:
                return None
        if name in m.imports:
            mod, nm, level = m.imports[name]
            if nm is None:
                return ModuleVal(mod)
            rp = resolve_import(relpath, mod, level)
            if rp is None:
                if mod in ("numpy",) or (mod or "").startswith("numpy"):
                    return ModuleVal("numpy")
                return None
            return self.lookup_in_module(rp, nm, depth + 1)
        return None

    # ------------------------------------------------------------------ f-strings
    def ev_JoinedStr(self, st, n):
        for st1, vals in self.ev_list(st, list(n.values)):
            yield st1, tmpl_mk(vals)

    def ev_FormattedValue(self, st, n):
        if n.format_spec is not None or n.conversion not in (-1,):
            raise Unsupported("f-string conversion / format spec")
        for st1, v in self.ev(st, n.value):
            if isinstance(v, SymObj) and "__str__" in v.attrs:
                v = v.attrs["__str__"]
            yield st1, to_tmpl_part(v)

    # ------------------------------------------------------------------ comprehensions (concrete iterables)
    def ev_ListComp(self, st, n):
        for st1, items in self._comp(st, n.elt, list(n.generators)):
            yield st1, PList(items)

    def ev_Yield(self, st, n):
        """`yield v` inside a generator function executed by a harness: the harness's hook sees every yielded value in order"""
        hook = getattr(self, "yield_hook", None)
        if hook is None:
            raise Unsupported("yield outside a harness that observes the yielded sequence")
        if n.value is None:
            hook(st, None, n)
            yield st, None
            return
        for st1, v in self.ev(st, n.value):
            hook(st1, v, n)
            yield st1, None

    def ev_GeneratorExp(self, st, n):
        for st1, items in self._comp(st, n.elt, list(n.generators)):
            yield st1, PList(items)

    def _comp(self, st, elt, gens):
        if not gens:
            for st1, v in self.ev(st, elt):
                yield st1, [v]
            return
        g = gens[0]
        if g.is_async:
            raise Unsupported("async comprehension")
        for st1, it in self.ev(st, g.iter):
            items = self.concrete_items(st1, it)
            yield from self._comp_items(st1, elt, gens, items, 0, [])

    def _comp_items(self, st, elt, gens, items, k, acc):
        if k == len(items):
            yield st, acc
            return
        g = gens[0]
        saved = dict(st.locals)
        for st1 in self.assign(st, g.target, items[k]):
            for st2, ok in self._comp_ifs(st1, list(g.ifs)):
                if ok:
                    for st3, vals in self._comp(st2, elt, gens[1:]):
                        yield from self._comp_items(st3, elt, gens, items, k + 1, acc + vals)
                else:
                    yield from self._comp_items(st2, elt, gens, items, k + 1, acc)

    def _comp_ifs(self, st, ifs):
        if not ifs:
            yield st, True
            return
        for st1, c in self.ev(st, ifs[0]):
            for st2, tv in self.branch(st1, self.truth(st1, c)):
                if tv:
                    yield from self._comp_ifs(st2, ifs[1:])
                else:
                    yield st2, False

    def concrete_items(self, st, it):
        if isinstance(it, PList):
            return list(it.items)
        if isinstance(it, tuple):
            return list(it)
        if isinstance(it, PDict):
            return list(it.items.keys())
        if isinstance(it, SList) and not is_sym(it.length):
            return [it.get(k) for k in range(it.length)]
        if isinstance(it, str):
            return list(it)
        h = getattr(it, "concrete_items", None)
        if h is not None:
            return h(self, st)
        raise Unsupported(f"comprehension / unrolled iteration over {it!r}")

    # ------------------------------------------------------------------ builtins
    def bi_str(self, st, f, args, kw, node):
        (x,) = args
        return tmpl_mk([x])

    def bi_type(self, st, f, args, kw, node):
        (x,) = args
        if is_boollike(x):
            return ClassVal("bool")
        if is_intlike(x):
            return ClassVal("int")
        if is_strlike(x):
            return ClassVal("str")
        if isinstance(x, (PList, SList)):
            return ClassVal("list")
        if isinstance(x, tuple):
            return ClassVal("tuple")
        if isinstance(x, PDict):
            return ClassVal("dict")
        if x is None:
            return ClassVal("NoneType")
        if isinstance(x, (SymObj, HRef)):
            return ClassVal(x.cls)
        raise Unsupported(f"type() of {x!r}")

    def has_attr(self, st, o, attr):
        if isinstance(o, SymObj):
            if attr in o.attrs:
                return True
            klass = o.attrs.get("__class__")
            if isinstance(klass, SymObj):
                if attr in klass.attrs:
                    return True
                ic = getattr(klass, "instance_class", None)
                if ic and self.find_method(ic, attr):
                    return True
                if attr in getattr(klass, "absent", ()) or getattr(o, "closed", False):
                    return False
            if attr in getattr(o, "absent", ()):
                return False
            if self.reg.lookup_method(o.cls, attr) is not None or self.find_method(o.cls, attr) is not None:
                return True
            if getattr(o, "closed", False):
                return False
            raise Unsupported(f"hasattr({o!r}, {attr!r}) undetermined for an open abstract object")
        if isinstance(o, ClassVal):
            return self.class_static_attr(o, attr) is not _MISSING
        if isinstance(o, HRef):
            decl = self.reg.types.get(o.cls)
            return bool(decl and attr in decl.fields) or self.find_method(o.cls, attr) is not None
        if is_intlike(o) or is_strlike(o) or o is None or isinstance(o, (tuple, PList, PDict, SList)):
            return attr in dir(type(o)) if not is_sym(o) and not isinstance(o, (PList, PDict, SList, Tmpl, Atom)) else False
        h = getattr(o, "has_attr", None)
        if h is not None:
            return h(attr)
        raise Unsupported(f"hasattr on {o!r}")

    def bi_hasattr(self, st, f, args, kw, node):
        o, attr = args
        return self.has_attr(st, o, attr)

    def bi_getattr(self, st, f, args, kw, node):
        o, attr = args[0], args[1]
        if len(args) == 3 and not self.has_attr(st, o, attr):
            return args[2]
        out = list(self.getattr(st, o, attr, node))
        if len(out) != 1:
            raise Unsupported("getattr forked")
        return out[0][1]

    def bi_str_join(self, st, f, args, kw, node):
        (x,) = args
        return tmpl_join(f.bound, self.concrete_items(st, x))

    def bi_str_endswith(self, st, f, args, kw, node):
        (suf,) = args
        o = f.bound
        if isinstance(o, str):
            return o.endswith(suf)
        if isinstance(o, Atom):
            o = Tmpl([o])
        return o.endswith(suf)

    def bi_str_startswith(self, st, f, args, kw, node):
        (p,) = args
        o = f.bound
        if isinstance(o, str):
            return o.startswith(p)
        raise Unsupported("startswith on template")

    def bi_str_upper(self, st, f, args, kw, node):
        if isinstance(f.bound, str):
            return f.bound.upper()
        raise Unsupported("upper on template")

    def bi_str_strip(self, st, f, args, kw, node):
        if isinstance(f.bound, str):
            return f.bound.strip(*args)
        raise Unsupported("strip on template")

    def bi_dict_get(self, st, f, args, kw, node):
        d = f.bound
        k = args[0]
        if is_sym(k):
            raise Unsupported("symbolic dict key")
        if k in d.items:
            return d.items[k]
        return args[1] if len(args) > 1 else None

    def bi_dict_items(self, st, f, args, kw, node):
        return PList([(k, v) for k, v in f.bound.items.items()])

    def bi_dict_keys(self, st, f, args, kw, node):
        return PList(list(f.bound.items.keys()))

    def bi_dict_values(self, st, f, args, kw, node):
        return PList(list(f.bound.items.values()))

    def bi_list_copy(self, st, f, args, kw, node):
        o = f.bound
        if isinstance(o, PList):
            return PList(list(o.items))
        return SList(o.length, o.arr, o.kind)

    def bi_abs(self, st, f, args, kw, node):
        (x,) = args
        if is_sym(x):
            return z3.If(x >= 0, x, -x)
        return abs(x)

    def bi_np_array(self, st, f, args, kw, node):
        (x,) = args
        if isinstance(x, PList) and all(is_intlike(v) for v in x.items):
            return PList(list(x.items))  # a 1-d integer array: only its items are observed
        raise Unsupported("np.array of this value")

    def bi_np_prod(self, st, f, args, kw, node):
        """numpy.prod of a concrete-length sequence of integers (mathematical product; numpy's int64 wrap-around is
        outside the model: sizes are assumed < 2^62)"""
        (x,) = args
        out = 1
        for v in self.concrete_items(st, x):
            if not is_intlike(v):
                raise Unsupported("np.prod of non-integers")
            out = out * v
        return out

    def bi_np_argsort(self, st, f, args, kw, node):
        """numpy.argsort of a concrete sequence of pairwise distinct python integers (an axis order): the stable sorting permutation"""
        (x,) = args
        items = self.concrete_items(st, x)
        if kw or not all(isinstance(v, int) and not isinstance(v, bool) for v in items) or len(set(items)) != len(items):
            raise Unsupported("np.argsort of this value")
        return PList(sorted(range(len(items)), key=lambda k: items[k]))

    def bi_bytes(self, st, f, args, kw, node):
        x = args[0]
        if hasattr(x, "utf8") and (len(args) == 1 or args[1] in ("utf8", "utf-8")):
            return x.utf8()
        if len(args) == 1 and is_intlike(x) and not isinstance(x, bool):
            # bytes(n): n zero bytes (ValueError for a negative count)
            from .xbuf import ByteStr

            self.safety(st, "ValueError", to_z3(x) >= 0 if is_sym(x) else x >= 0, node)
            return ByteStr(x, z3.K(z3.IntSort(), z3.IntVal(0)), "zeros")
        raise Unsupported("bytes() of this value")

    def bi_reversed(self, st, f, args, kw, node):
        (x,) = args
        return PList(list(reversed(self.concrete_items(st, x))))

    def bi_list_index(self, st, f, args, kw, node):
        (v,) = args
        items = self.concrete_items(st, f.bound)
        for k, x in enumerate(items):
            e = self.equal(st, x, v)
            if e is True:
                return k
            if e is not False:
                raise Unsupported("symbolic equality in list.index")
        self.safety(st, "ValueError", False, node)
        raise Unsupported("list.index: value not found")

    def bi_all(self, st, f, args, kw, node):
        from .interp import zand

        (x,) = args
        return zand(*[self.truth(st, v) for v in self.concrete_items(st, x)])

    def bi_any(self, st, f, args, kw, node):
        from .interp import zor

        (x,) = args
        return zor(*[self.truth(st, v) for v in self.concrete_items(st, x)])

    def bi_dict(self, st, f, args, kw, node):
        if args:
            raise Unsupported("dict(...) with arguments")
        return PDict(dict(kw))

    # ------------------------------------------------------------------ nested function definitions (closures)
    def ex_FunctionDef(self, st, s):
        """`def f(...)` inside a function: bind the name to a value that, when called, runs the body with the enclosing
        frame's variables visible (late binding, as python closures do)"""
        fr = st.frames[-1]
        lf = LocalFunc(s, getattr(fr, "module", None), fr.func)
        # variables of the enclosing function as of now: used when the closure is called after that function has returned
        # (late binding through the live frame is used while it is still on the stack)
        lf.snapshot = dict(fr.locals)
        st.locals[s.name] = lf
        yield st, None

    def call_localfunc(self, st, f, args, kwargs, node):
        enclosing = None
        for fr in reversed(st.frames):
            if fr.func == f.owner:
                enclosing = fr
                break
        a = f.node.args
        if a.vararg or a.kwarg:
            # *args / **kwargs of local functions: bind the tuple / dict
            pass
        names = [x.arg for x in a.args]
        vals = dict(enclosing.locals) if enclosing is not None else dict(getattr(f, "snapshot", {}))
        pos = list(args)
        if len(pos) > len(names) and not a.vararg:
            raise Unsupported("too many arguments for local function")
        for nme, v in zip(names, pos):
            vals[nme] = v
        if a.vararg:
            vals[a.vararg.arg] = tuple(pos[len(names):])
        kw = dict(kwargs)
        for nme in names[len(pos):]:
            if nme in kw:
                vals[nme] = kw.pop(nme)
        for nme, d in zip(names[len(names) - len(a.defaults):], a.defaults):
            if nme not in vals or (nme in names[len(pos):] and nme not in kwargs and nme not in [n for n, _ in zip(names, pos)]):
                vals.setdefault(nme, ast.literal_eval(d))
        if a.kwarg:
            vals[a.kwarg.arg] = PDict(kw)
        elif kw:
            raise Unsupported("unexpected keyword arguments for local function")
        fr = Frame(f.owner + ".<locals>." + f.node.name, vals)
        fr.module = f.module
        fr.fnode = f.node
        st.frames.append(fr)
        st.depth += 1
        from .interp import RAISED

        for st1, out in self.exec_block(st, src.body_of(f.node)):
            st1.frames.pop()
            st1.depth -= 1
            if out is None:
                yield st1, None
            elif out[0] == "return":
                yield st1, out[1]
            elif out[0] == "raise":
                st1.pending_raise = out
                yield st1, RAISED
            else:
                raise Unsupported("break/continue escaping a function")

    def bi_classmethod(self, st, f, args, kw, node):
        return ClassMethodVal(args[0])

    def bi_staticmethod(self, st, f, args, kw, node):
        return args[0]

    # ------------------------------------------------------------------ classes from source
    def class_static_attr(self, c, attr):
        """class-level attribute of ClassVal c found in source: literal assignment or method"""
        relpath = c.relpath or (self.reg.types[c.name].relpath if c.name in self.reg.types else None)
        seen = set()
        todo = [(c.name, relpath)]
        while todo:
            name, rp = todo.pop(0)
            if rp is None or (name, rp) in seen:
                continue
            seen.add((name, rp))
            m = src.module(rp)
            cn = m.classes.get(name)
            if cn is None:
                continue
            for node in cn.body:
                if isinstance(node, ast.AnnAssign) and node.value is not None and isinstance(node.target, ast.Name) and node.target.id == attr:
                    node = ast.Assign(targets=[node.target], value=node.value)
                if isinstance(node, ast.Assign):
                    for t in node.targets:
                        if isinstance(t, ast.Name) and t.id == attr:
                            if attr in m.mutated_attrs and _is_mutable_display(node.value):
                                raise Unsupported(f"class-level mutable state {name}.{attr} is modified by functions of {rp}: it is shared by every "
                                                  f"subclass and call, so the result of a function that reads it depends on earlier calls")
                            try:
                                return _lit(ast.literal_eval(node.value))
                            except Exception:
                                raise Unsupported(f"class attribute {name}.{attr} is not a literal")
                elif isinstance(node, ast.FunctionDef) and node.name == attr:
                    decos = src.decorators(node)
                    fv = FuncVal(rp, f"{name}.{attr}", c if "classmethod" in decos else None)
                    return fv
            for b in m.class_bases(name):
                v = self.lookup_in_module(rp, b)
                if isinstance(v, ClassVal):
                    todo.append((v.name, v.relpath))
        return _MISSING

    def construct_generic(self, st, c, args, kwargs, node):
        """instantiate a plain python class of /repo: new SymObj + inlined __init__"""
        o = SymObj(c.name)
        o.closed = True
        o.relpath = c.relpath
        self.class_home = getattr(self, "class_home", {})
        self.class_home[c.name] = c.relpath
        init = self.class_static_attr(c, "__init__")
        if init is _MISSING:
            if args or kwargs:
                raise Unsupported(f"constructor args for {c.name} without __init__")
            yield st, o
            return
        key = f"__new{o.uid}"
        st.ghost[key] = o
        for st1, _ in self.call_function(st, FuncVal(init.relpath, init.qualname, o), args, kwargs, node):
            yield st1, st1.ghost.pop(key)


class _Missing:
    pass


_MISSING = _Missing()


def _is_mutable_display(node):
    return isinstance(node, (ast.Dict, ast.List, ast.Set, ast.DictComp, ast.ListComp, ast.SetComp)) or (
        isinstance(node, ast.Call) and isinstance(node.func, ast.Name) and node.func.id in ("dict", "list", "set", "defaultdict", "OrderedDict"))


def _lit(v):
    """python literal -> interpreter value"""
    if isinstance(v, list):
        return PList([_lit(x) for x in v])
    if isinstance(v, dict):
        return PDict({k: _lit(x) for k, x in v.items()})
    if isinstance(v, tuple):
        return tuple(_lit(x) for x in v)
    return v


class LoopSpec:
    """invariant cut of a `for` loop over an abstract sequence (a value with an `iterate` hook).

    init(interp, st, k, node)                 obligations on the state reaching the loop (invariant initially)
    head(interp, st) -> ghost                 havoc the loop-carried locals, assume the invariant, return ghost terms
    alternatives() -> (label, ctor(st))       every shape the loop element may have
    preserve(interp, st, ghost, label, elem, k, node)   obligations after one iteration of the body
    """

    def __init__(self, init, head, alternatives, preserve):
        self.init = init
        self.head = head
        self.alternatives = alternatives
        self.preserve = preserve

    def run(self, interp, st, s, seq):
        k = interp.loop_ordinal(st, s)
        self.init(interp, st, k, s)
        sth = st.clone()
        sth.abstraction = True
        g = self.head(interp, sth)
        sth.ghost["__loop_ghost"] = g
        for label, ctor in self.alternatives():
            stb = sth.clone()
            elem = ctor(stb)
            for st1 in interp.assign(stb, s.target, elem):
                for st2, out in interp.exec_block(st1, s.body):
                    if out is None or out[0] == "continue":
                        self.preserve(interp, st2, g, label, elem, k, s)
                    elif out[0] == "break":
                        yield st2, None
                    else:
                        yield st2, out
        yield from interp.exec_block(sth, s.orelse)


def _const_eval(n, names=None):
    """integer constant expressions such as -(2**63); lists of them; np.array([...], dtype=...) of them (as a list)"""
    if isinstance(n, ast.Constant) and isinstance(n.value, int) and not isinstance(n.value, bool):
        return n.value
    if isinstance(n, ast.Name) and names is not None:
        v = names(n.id)
        if isinstance(v, int) and not isinstance(v, bool):
            return v
        raise ValueError("name is not an integer constant")
    if isinstance(n, ast.List):
        return [_const_eval(e, names) for e in n.elts]
    if isinstance(n, ast.Call) and ast.unparse(n.func) in ("np.array", "numpy.array") and len(n.args) == 1:
        v = _const_eval(n.args[0], names)
        if isinstance(v, list):
            return v
        raise ValueError("np.array of non-list")
    if isinstance(n, ast.UnaryOp) and isinstance(n.op, ast.USub):
        return -_const_eval(n.operand, names)
    if isinstance(n, ast.BinOp):
        a, b = _const_eval(n.left, names), _const_eval(n.right, names)
        if isinstance(n.op, ast.Add):
            return a + b
        if isinstance(n.op, ast.Sub):
            return a - b
        if isinstance(n.op, ast.Mult):
            return a * b
        if isinstance(n.op, ast.Pow) and 0 <= b <= 128:
            return a ** b
    raise ValueError("not an integer constant expression")
