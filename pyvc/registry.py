from .contract import Registry

reg = Registry()
