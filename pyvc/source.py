"""Mechanical extraction of function bodies from /repo's *current* source text.

Every run re-reads the files under $VERIF_REPO (default /repo).  What the extraction drops:
docstrings (a leading string-constant expression statement), type annotations, decorators
(`@property`, `@classmethod`, `@staticmethod`, `@abstractmethod` are recorded as flags and
interpreted, nothing else is accepted).  Everything else is kept and must be understood by the
interpreter, otherwise the function is reported as unsupported.
"""
import ast
import hashlib
import os

REPO = os.environ.get("VERIF_REPO", "/repo")


class Module:
    def __init__(self, relpath):
        self.relpath = relpath
        self.path = os.path.join(REPO, relpath)
        with open(self.path, "r") as fh:
            self.text = fh.read()
        self.tree = ast.parse(self.text)
        self.funcs = {}  # qualname -> FunctionDef
        self.classes = {}  # name -> ClassDef
        self.assigns = {}  # module level NAME = <expr>
        self.imports = {}  # local name -> (module, name)
        self._index(self.tree.body, "")
        self.mutated_names, self.mutated_attrs = _mutation_sites(self.tree)

    def _index(self, body, prefix):
        for node in body:
            if isinstance(node, (ast.FunctionDef,)):
                self.funcs[prefix + node.name] = node
                # nested defs (closures) are addressed as outer.<locals>.inner
                self._index_nested(node, prefix + node.name)
            elif isinstance(node, ast.ClassDef):
                if not prefix:
                    self.classes[node.name] = node
                self._index(node.body, prefix + node.name + ".")
            elif isinstance(node, ast.Assign) and not prefix:
                for t in node.targets:
                    if isinstance(t, ast.Name):
                        self.assigns[t.id] = node.value
            elif isinstance(node, ast.Assign) and prefix:
                # class-level alias  e.g.  to_nparray = to_nplike
                for t in node.targets:
                    if isinstance(t, ast.Name) and isinstance(node.value, ast.Name):
                        src = prefix + node.value.id
                        if src in self.funcs:
                            self.funcs[prefix + t.id] = self.funcs[src]
            elif isinstance(node, ast.ImportFrom) and not prefix:
                for a in node.names:
                    self.imports[a.asname or a.name] = (node.module, a.name, node.level)
            elif isinstance(node, ast.Import) and not prefix:
                for a in node.names:
                    self.imports[a.asname or a.name] = (a.name, None, 0)

    def _index_nested(self, fnode, qual):
        for node in ast.walk(fnode):
            if node is fnode:
                continue
            if isinstance(node, ast.FunctionDef):
                self.funcs.setdefault(qual + ".<locals>." + node.name, node)

    def class_bases(self, cname):
        c = self.classes.get(cname)
        if c is None:
            return []
        out = []
        for b in c.bases:
            if isinstance(b, ast.Name):
                out.append(b.id)
            elif isinstance(b, ast.Attribute):
                out.append(b.attr)
        return out


_MUTATORS = {"append", "extend", "insert", "pop", "remove", "clear", "update", "setdefault", "add", "discard", "popitem", "sort", "reverse"}


def _mutation_sites(tree):
    """names / attribute names whose container value is mutated in place somewhere inside a function of the module:
    `NAME[k] = v`, `del NAME[k]`, `NAME.append(..)`, ... and the same through an attribute (`obj.ATTR[k] = v`).  A module-level or
    class-level mutable literal that is mutated by functions is state shared by all calls: a function that reads it has a result
    that depends on earlier calls, which the per-function contracts here cannot speak about (reported as undecided, never proved)."""
    names, attrs = set(), set()

    def note(target):
        if isinstance(target, ast.Name):
            names.add(target.id)
        elif isinstance(target, ast.Attribute):
            attrs.add(target.attr)

    for fn in ast.walk(tree):
        if not isinstance(fn, (ast.FunctionDef, ast.Lambda)):
            continue
        local_stores = {t.id for n in ast.walk(fn) for t in ([n] if isinstance(n, ast.Name) and isinstance(n.ctx, ast.Store) else [])}
        local_stores |= {a.arg for a in getattr(fn.args, "args", [])} | {a.arg for a in getattr(fn.args, "kwonlyargs", [])}
        globals_ = {g for n in ast.walk(fn) if isinstance(n, ast.Global) for g in n.names}
        for n in ast.walk(fn):
            if isinstance(n, ast.Subscript) and isinstance(n.ctx, (ast.Store, ast.Del)):
                if isinstance(n.value, ast.Name) and (n.value.id not in local_stores or n.value.id in globals_):
                    note(n.value)
                elif isinstance(n.value, ast.Attribute):
                    note(n.value)
            elif isinstance(n, ast.Call) and isinstance(n.func, ast.Attribute) and n.func.attr in _MUTATORS:
                v = n.func.value
                if isinstance(v, ast.Name) and (v.id not in local_stores or v.id in globals_):
                    note(v)
                elif isinstance(v, ast.Attribute):
                    note(v)
            elif isinstance(n, ast.Name) and isinstance(n.ctx, ast.Store) and n.id in globals_:
                names.add(n.id)
    return names, attrs


_cache = {}


def module(relpath):
    key = (REPO, relpath)
    if key not in _cache:
        _cache[key] = Module(relpath)
    return _cache[key]


def clear_cache():
    _cache.clear()


def func_node(relpath, qualname):
    m = module(relpath)
    if qualname not in m.funcs:
        raise KeyError(f"{relpath}: no function {qualname}")
    return m.funcs[qualname]


def body_of(fnode):
    body = list(fnode.body)
    if body and isinstance(body[0], ast.Expr) and isinstance(body[0].value, ast.Constant) and isinstance(body[0].value.value, str):
        body = body[1:]
    return body


def decorators(fnode):
    out = set()
    for d in fnode.decorator_list:
        if isinstance(d, ast.Name):
            out.add(d.id)
        elif isinstance(d, ast.Attribute):
            out.add(d.attr)
        else:
            out.add("<other>")
    return out


def source_hash(relpath, qualname):
    fnode = func_node(relpath, qualname)
    seg = ast.get_source_segment(module(relpath).text, fnode) or ""
    return hashlib.sha256(seg.encode()).hexdigest()[:16]


def source_segment(relpath, qualname):
    fnode = func_node(relpath, qualname)
    return ast.get_source_segment(module(relpath).text, fnode)


def loops_of(fnode):
    """For/While nodes of a function in source order (pre-order), not descending into nested defs"""
    out = []

    def walk(n):
        for ch in ast.iter_child_nodes(n):
            if isinstance(ch, (ast.FunctionDef, ast.Lambda, ast.ClassDef)):
                continue
            if isinstance(ch, (ast.For, ast.While)):
                out.append(ch)
            walk(ch)

    walk(fnode)
    return out


def assigned_names(nodes):
    """names stored anywhere inside the statements (not descending into nested defs)"""
    out = set()

    def walk(n):
        if isinstance(n, (ast.FunctionDef, ast.Lambda, ast.ClassDef)):
            return
        if isinstance(n, ast.Name) and isinstance(n.ctx, (ast.Store, ast.Del)):
            out.add(n.id)
        for ch in ast.iter_child_nodes(n):
            walk(ch)

    for n in nodes:
        walk(n)
    return out
