"""Solver portfolio: every (sub-)goal is written as one SMT-LIB2 file and given to
z3 4.8.12 (/usr/bin/z3), z3 5.1 (z3-new) and cvc5.  First definitive answer decides; sat from one
and unsat from another is a checker fault.  Budgets are resource limits (rlimit) with a wall-clock
safety net, so verdicts do not depend on machine load.
"""
import os
import re
import subprocess
import tempfile
import time
import hashlib
import concurrent.futures as cf
import itertools
import z3

_seq = itertools.count()

SOLVERS = {
    "z3-4.8.12": ["/usr/bin/z3", "-smt2"],
    "z3-5.1": ["z3-new", "-smt2"],
    "cvc5-1.0.3": ["/usr/bin/cvc5", "--lang=smt2", "--strings-exp", "--full-saturate-quant"],
}
ORDER = ["z3-4.8.12", "z3-5.1", "cvc5-1.0.3"]

QUICK = {"rlimit_z3": 40_000_000, "rlimit_cvc5": 3_000_000, "wall": 60}
THOROUGH = {"rlimit_z3": 400_000_000, "rlimit_cvc5": 30_000_000, "wall": 300}


def split_goal(g):
    """split a goal into independently provable conjuncts:  A&B | P->(A&B) | forall x.(A&B)"""
    g = z3.simplify(g, elim_and=False) if False else g
    out = []

    def rec(e, wrap):
        if z3.is_and(e):
            for c in e.children():
                rec(c, wrap)
        elif z3.is_implies(e) and (z3.is_and(e.arg(1)) or z3.is_quantifier(e.arg(1)) or z3.is_implies(e.arg(1))):
            p = e.arg(0)
            rec(e.arg(1), lambda x, wrap=wrap, p=p: wrap(z3.Implies(p, x)))
        elif z3.is_quantifier(e) and e.is_forall():
            n = e.num_vars()
            vs = [z3.Const(e.var_name(i) + "!s", e.var_sort(i)) for i in range(n)]
            body = z3.substitute_vars(e.body(), *reversed(vs))
            # skolemised: free constants instead of bound variables (valid for a goal)
            rec(body, wrap)
        else:
            out.append(wrap(e))

    rec(g, lambda x: x)
    return out


def to_smt2(pc, goal, want_model=False):
    s = z3.Solver()
    for f in pc:
        s.add(f)
    s.add(z3.Not(goal))
    txt = s.to_smt2()
    txt = txt.replace("(set-info :status unknown)\n", "")
    if want_model:
        txt = txt.replace("(check-sat)", "(check-sat)\n(get-model)")
    return "(set-logic ALL)\n" + txt


def solver_cmd(name, budget, want_model=False):
    cmd = list(SOLVERS[name])
    if name.startswith("z3"):
        cmd += [f"rlimit={budget['rlimit_z3']}", f"-T:{budget['wall']}"]
        if want_model:
            cmd += ["model=true"]
    else:
        cmd += [f"--rlimit={budget['rlimit_cvc5']}", f"--tlimit={budget['wall'] * 1000}"]
        if want_model:
            cmd += ["--produce-models"]
    return cmd


def classify(out):
    first = out.split("\n", 1)[0].strip() if out else ""
    if first in ("sat", "unsat", "unknown"):
        return first
    if "timeout" in out:
        return "unknown"
    if out.startswith("(error") or "error" in first:
        return "error"
    return "unknown"


def run_solver(name, path, budget, want_model=False):
    cmd = solver_cmd(name, budget, want_model)
    cmd.append(path)
    t0 = time.time()
    try:
        p = subprocess.run(cmd, capture_output=True, text=True, timeout=budget["wall"] + 10)
        out = p.stdout.strip()
    except subprocess.TimeoutExpired:
        out = "timeout"
    dt = time.time() - t0
    first = out.split("\n", 1)[0].strip() if out else ""
    if first not in ("sat", "unsat", "unknown"):
        if "timeout" in out:
            first = "unknown"
        elif out.startswith("(error") or "error" in first:
            first = "error"
        else:
            first = "unknown"
    return first, dt, out


CACHE_DIR = os.path.join(os.path.dirname(os.path.dirname(os.path.abspath(__file__))), ".cache")
CACHE_DB = os.path.join(CACHE_DIR, "smt.sqlite")
CACHE_MAX_ROWS = 400_000  # a full set of checks has ~40k distinct goals; runs on changed trees add more


def _cache_conn():
    import sqlite3

    os.makedirs(CACHE_DIR, exist_ok=True)
    c = sqlite3.connect(CACHE_DB, timeout=20)
    c.execute("PRAGMA journal_mode=WAL")
    c.execute("PRAGMA synchronous=OFF")
    c.execute("CREATE TABLE IF NOT EXISTS smt (key TEXT PRIMARY KEY, val TEXT)")
    return c


def _cache_get(key):
    """one sqlite file (not one file per goal: 200k tiny files cost 800 MB of disk blocks); any failure = cache miss"""
    if os.environ.get("VERIF_NO_SMT_CACHE"):
        return None
    try:
        import json

        c = _cache_conn()
        try:
            row = c.execute("SELECT val FROM smt WHERE key = ?", (key,)).fetchone()
        finally:
            c.close()
        return json.loads(row[0]) if row else None
    except Exception:  # noqa
        return None


def _cache_put(key, res):
    if os.environ.get("VERIF_NO_SMT_CACHE"):
        return
    try:
        import json

        c = _cache_conn()
        try:
            if next(_seq) % 500 == 0 and c.execute("SELECT COUNT(*) FROM smt").fetchone()[0] > CACHE_MAX_ROWS:
                c.execute("DELETE FROM smt")
            c.execute("INSERT OR REPLACE INTO smt VALUES (?, ?)", (key, json.dumps({k: res[k] for k in ("status", "backend", "time", "answers")})))
            c.commit()
        finally:
            c.close()
    except Exception:  # noqa
        pass


def check_text(txt, budget, order=ORDER, all_solvers=False, workdir=None):
    """returns dict(status=unsat|sat|unknown|conflict, backend, time, outputs).
    Definitive answers are memoised on disk by the hash of the SMT-LIB text (the same obligation is shared by several properties);
    the text is generated from /repo's current source on every run, so a changed function yields a different text."""
    d = workdir or tempfile.gettempdir()
    h = hashlib.sha1(txt.encode()).hexdigest()[:16]
    ckey = hashlib.sha1((txt + "|" + str(sorted(budget.items())) + "|" + str(all_solvers)).encode()).hexdigest()
    hit = _cache_get(ckey)
    if hit is not None and hit.get("status") in ("sat", "unsat"):
        hit["outputs"] = {}
        hit["cached"] = True
        return hit
    res = _check_text(txt, budget, order, all_solvers, d, h)
    if res["status"] in ("sat", "unsat"):
        _cache_put(ckey, res)
    return res


def _check_text(txt, budget, order, all_solvers, d, h):
    """portfolio: the first solver alone with a short wall-clock cap (it closes almost every goal in milliseconds); if it gives no
    definitive answer the remaining solvers run concurrently and the first definitive answer decides.  With all_solvers (thorough tier)
    every solver is run to its full budget and the answers are compared (sat vs unsat = conflict)."""
    path = os.path.join(d, f"pyvc_{os.getpid()}_{h}_{next(_seq)}.smt2")
    with open(path, "w") as fh:
        fh.write(txt)
    res = {"status": "unknown", "backend": None, "time": 0.0, "outputs": {}, "answers": {}}

    def note(name, st, dt, out):
        res["time"] += dt
        res["answers"][name] = st
        res["outputs"][name] = out[:2000]
        if st in ("sat", "unsat"):
            if res["status"] in ("sat", "unsat") and res["status"] != st:
                res["status"] = "conflict"
            elif res["status"] == "unknown":
                res["status"] = st
                res["backend"] = name
    try:
        if all_solvers:
            # thorough tier: the first solver with the full (larger) budget, then every other solver as a cross-check with a short
            # wall-clock cap, concurrently: a second definitive answer must agree (sat vs unsat = conflict); "no answer in time" from
            # a cross-checking solver is not a disagreement.  (Running every solver to its full budget on ~40k goals takes hours:
            # cvc5 does not decide most of the quantified goals z3 closes in milliseconds.)
            note(order[0], *run_solver(order[0], path, budget))
            xb = dict(budget)
            xb["wall"] = int(os.environ.get("VERIF_XCHECK_WALL", "3"))
            if res["status"] not in ("sat", "unsat"):
                # undecided by the first solver: the others get the full budget (one of them may decide it)
                for name in order[1:]:
                    note(name, *run_solver(name, path, budget))
                    if res["status"] in ("sat", "unsat", "conflict"):
                        break
                return res
            t0 = time.time()
            procs = {name: subprocess.Popen(solver_cmd(name, xb) + [path], stdout=subprocess.PIPE, stderr=subprocess.DEVNULL, text=True) for name in order[1:]}
            for name, p in procs.items():
                try:
                    out = (p.communicate(timeout=max(0.1, xb["wall"] + 1 - (time.time() - t0)))[0] or "").strip()
                    note(name, classify(out), time.time() - t0, out)
                except subprocess.TimeoutExpired:
                    p.kill()
                    p.wait()
                    note(name, "unknown", time.time() - t0, "timeout (cross-check cap)")
            return res
        first = dict(budget)
        first["wall"] = min(budget["wall"], int(os.environ.get("VERIF_FIRST_WALL", "8")))
        note(order[0], *run_solver(order[0], path, first))
        if res["status"] in ("sat", "unsat"):
            return res
        rest = list(order[1:]) + [order[0]]  # the first solver again with its full budget, alongside the others
        procs = {}
        t0 = time.time()
        for name in rest:
            procs[name] = subprocess.Popen(solver_cmd(name, budget) + [path], stdout=subprocess.PIPE, stderr=subprocess.DEVNULL, text=True)
        deadline = t0 + budget["wall"] + 10
        pending = dict(procs)
        while pending and time.time() < deadline:
            for name, p in list(pending.items()):
                if p.poll() is not None:
                    out = (p.stdout.read() or "").strip()
                    st = classify(out)
                    note(name, st, time.time() - t0, out)
                    del pending[name]
                    if st in ("sat", "unsat"):
                        for q in pending.values():
                            q.kill()
                        for q in pending.values():
                            q.wait()
                        return res
            time.sleep(0.02)
        for name, p in pending.items():
            p.kill()
            p.wait()
            note(name, "unknown", time.time() - t0, "timeout")
    finally:
        try:
            os.unlink(path)
        except OSError:
            pass
    return res


def get_model_text(pc, goal, budget, backend):
    txt = to_smt2(pc, goal, want_model=True)
    d = tempfile.gettempdir()
    path = os.path.join(d, f"pyvc_{os.getpid()}_model.smt2")
    with open(path, "w") as fh:
        fh.write(txt)
    try:
        st, dt, out = run_solver(backend, path, budget, want_model=True)
    finally:
        os.unlink(path)
    return out


def _work(item):
    key, txt, budget, all_solvers = item
    return key, check_text(txt, budget, all_solvers=all_solvers)


def discharge_all(obligations, budget=QUICK, jobs=None, all_solvers=False, progress=None):
    """discharge obligations in a process pool.  Sets ob.status: discharged|refuted|unknown|conflict"""
    jobs = jobs or int(os.environ.get("VERIF_JOBS", "16"))
    items = []
    subs = {}
    for k, ob in enumerate(obligations):
        goals = split_goal(ob.goal)
        ob.n_sub = len(goals)
        ob.sub = []
        for j, g in enumerate(goals):
            gs = z3.simplify(g)
            if z3.is_true(gs):
                ob.sub.append({"status": "unsat", "backend": "simplifier", "time": 0.0})
                continue
            txt = to_smt2(ob.pc, g)
            subs[(k, j)] = g
            ob.sub.append(None)
            items.append(((k, j), txt, budget, all_solvers))
    t0 = time.time()
    with cf.ThreadPoolExecutor(max_workers=jobs) as ex:
        for key, res in ex.map(_work, items):
            k, j = key
            res["goal"] = subs[key]
            obligations[k].sub[j] = res
    for ob in obligations:
        sts = [s["status"] for s in ob.sub]
        ob.time = sum(s["time"] for s in ob.sub)
        bes = sorted({s["backend"] for s in ob.sub if s.get("backend")})
        ob.backend = "+".join(bes) if bes else None
        if all(s == "unsat" for s in sts):
            ob.status = "discharged"
        elif any(s == "conflict" for s in sts):
            ob.status = "conflict"
        elif any(s == "sat" for s in sts):
            ob.status = "refuted"
            ob.failed_sub = [s for s in ob.sub if s["status"] == "sat"][0]
        else:
            ob.status = "unknown"
            ob.failed_sub = [s for s in ob.sub if s["status"] != "unsat"][0]
    return time.time() - t0


def check_sat(pc, budget=QUICK):
    """satisfiability of a set of formulas (vacuity guard); returns sat|unsat|unknown"""
    s = z3.Solver()
    for f in pc:
        s.add(f)
    txt = "(set-logic ALL)\n" + s.to_smt2().replace("(set-info :status unknown)\n", "")
    r = check_text(txt, budget)
    return r["status"], r["backend"]
