"""pyvc interpreter: path-wise symbolic execution of python function bodies taken from /repo,
with loop cutting at sidecar invariants, callee contracts at call sites and inlining of small
helpers from their current source.  Produces named proof obligations (pyvc.core.Obligation).
"""
import ast
import re
import os
import z3

from .core import (
    State, Frame, Obligation, HRef, Mem, SymObj, SList, PList, PDict, FuncVal, BuiltinVal, ClassVal,
    PyvcError, Unsupported, fresh_int, fresh_bool, fresh_mem, fresh_name, is_sym, is_intlike,
    is_boollike, to_z3, zbool, _Mut,
)
from . import source as src
from .interp_ext import ExtMixin, ModuleVal, _MISSING
from .tmpl import Tmpl, Atom, is_strlike

MAX_INLINE_DEPTH = 12
_parse_cache = {}


def parse_expr(text):
    if text not in _parse_cache:
        _parse_cache[text] = ast.parse(text.strip(), mode="eval").body
    return _parse_cache[text]


class Closure:
    def __init__(self, node, env, spec):
        self.node = node
        self.env = env
        self.spec = spec


class GhostFn:
    """uninterpreted ghost predicate/function declared by a contract"""

    def __init__(self, name, decl):
        self.name = name
        self.decl = decl


# uninterpreted spec primitives (shared by all states)
_AL = z3.Function("align_up", z3.IntSort(), z3.IntSort(), z3.IntSort())
_PMOD = z3.Function("pymod", z3.IntSort(), z3.IntSort(), z3.IntSort())
_PDIV = z3.Function("pydiv", z3.IntSort(), z3.IntSort(), z3.IntSort())
_POW2 = z3.Function("pow2", z3.IntSort(), z3.BoolSort())
_SUMF = {}


def sym_mod(st, x, a):
    if not is_sym(a):
        if a <= 0:
            raise Unsupported("modulo by non-positive constant")
        if not is_sym(x):
            return x % a
        return x % a
    t = _PMOD(to_z3(x), a)
    st.assume(z3.Implies(a > 0, z3.And(t >= 0, t < a)))
    st.assume(z3.Implies(a == 1, t == 0))
    return t


def sym_div(st, x, a):
    if not is_sym(a):
        if a <= 0:
            raise Unsupported("floor division by non-positive constant")
        if not is_sym(x):
            return x // a
        return x / a
    q = _PDIV(to_z3(x), a)
    r = sym_mod(st, x, a)
    st.assume(z3.Implies(a > 0, to_z3(x) == a * q + r))
    return q


def sym_align_up(st, x, a):
    if not is_sym(a):
        if a <= 0:
            raise Unsupported("align_up with non-positive constant")
        if not is_sym(x):
            return ((x + a - 1) // a) * a
        return ((x + a - 1) / a) * a
    t = _AL(to_z3(x), a)
    m = _PMOD(t, a)
    st.assume(z3.Implies(a > 0, z3.And(t >= to_z3(x), t < to_z3(x) + a, m == 0)))
    st.assume(z3.Implies(a == 1, t == to_z3(x)))
    return t


def sym_pow2(st, a):
    if not is_sym(a):
        return a > 0 and (a & (a - 1)) == 0
    t = _POW2(a)
    st.assume(z3.Implies(t, a >= 1))
    st.assume(z3.Implies(a == 1, t))
    return t


def background_axioms():
    """defining properties of the uninterpreted spec primitives (align_up, pymod, pow2)"""
    x, a = z3.Ints("x!ax a!ax")
    return [
        z3.ForAll([x, a], z3.Implies(a > 0, z3.And(_AL(x, a) >= x, _AL(x, a) < x + a, _PMOD(_AL(x, a), a) == 0)),
                  patterns=[_AL(x, a)]),
        z3.ForAll([x, a], z3.Implies(a > 0, z3.And(_PMOD(x, a) >= 0, _PMOD(x, a) < a)), patterns=[_PMOD(x, a)]),
        z3.ForAll([x], _AL(x, 1) == x, patterns=[_AL(x, 1)]),
        z3.ForAll([x], _PMOD(x, 1) == 0, patterns=[_PMOD(x, 1)]),
        z3.ForAll([a], z3.Implies(_POW2(a), a >= 1), patterns=[_POW2(a)]),
        _POW2(1),
    ]


def zite(c, a, b):
    if isinstance(c, bool):
        return a if c else b
    if is_boollike(a) and is_boollike(b):
        return z3.If(c, zbool(a), zbool(b))
    return z3.If(c, to_z3(a), to_z3(b))


def zand(*xs):
    ys = []
    for x in xs:
        if isinstance(x, bool):
            if not x:
                return False
            continue
        ys.append(x)
    if not ys:
        return True
    return ys[0] if len(ys) == 1 else z3.And(*ys)


def zor(*xs):
    ys = []
    for x in xs:
        if isinstance(x, bool):
            if x:
                return True
            continue
        ys.append(x)
    if not ys:
        return False
    return ys[0] if len(ys) == 1 else z3.Or(*ys)


def znot(x):
    if isinstance(x, bool):
        return not x
    return z3.Not(x)


def zimplies(a, b):
    if isinstance(a, bool):
        return b if a else True
    if isinstance(b, bool):
        return True if b else z3.Not(a)
    return z3.Implies(a, b)


class Interp(ExtMixin):
    def __init__(self, registry, feas_timeout_ms=300):
        self.reg = registry
        self.obligations = []
        self.feas_timeout_ms = feas_timeout_ms
        self.contract = None
        self.spec_mode = 0
        self.old_stack = []
        self.loop_snap_stack = []
        self.warnings = []
        self.stats = {"paths": 0, "forks": 0, "feas_calls": 0, "inlined": set(), "contracts_used": set()}
        self.path_counter = {}
        self.assumed_used = set()

    # ------------------------------------------------------------------ obligations
    def oblige(self, st, kind, clause, goal, line=None, info=None):
        base = f"{self.contract.relpath}:{self.contract.qualname}#{kind}"
        if clause:
            base += f".{clause}"
        if line is not None:
            base += f"@L{line}"
        n = self.path_counter.get(base, 0)
        self.path_counter[base] = n + 1
        name = f"{base}[p{n}]"
        if isinstance(goal, bool):
            goal = z3.BoolVal(goal)
        ob = Obligation(name, st.pc, goal, kind, line, st.abstraction, info)
        ob.base = base
        cp = self.contract.clause_props
        ob.properties = list(cp.get(clause, cp.get(clause.split("<")[0], self.contract.properties))) if clause else list(self.contract.properties)
        self.obligations.append(ob)
        return ob

    def safety(self, st, exc, cond, node):
        """implicit exception: `cond` must hold, afterwards it is assumed"""
        if self.spec_mode:
            return
        if isinstance(cond, bool) and cond:
            return
        for cf in reversed(getattr(st, "catch_stack", None) or []):
            if cf.catches(exc):
                # inside a `try` whose handlers catch this exception: no obligation -- the raising case continues in the handler (ex_Try
                # takes it from the frame's event list), this path goes on with the non-raising case
                always = (isinstance(cond, bool) and not cond) or not self.feasible(st, cond)
                if always or self.feasible(st, z3.Not(cond)):
                    snap = st.clone()
                    if not always:
                        snap.assume(z3.Not(cond))
                    cf.events.append((snap, exc, getattr(node, "lineno", None)))
                if always:
                    st.assume(False)
                    st.dead = True
                else:
                    st.assume(cond)
                return
        # the clause names the expression that may raise (not only the exception class): after a restructuring of the function an
        # implicit obligation of a *different* expression is a new obligation, not "the one that used to be discharged"
        tag = ""
        if isinstance(node, ast.AST):
            try:
                tag = re.sub(r"[^A-Za-z0-9_.\[\]()+*-]", "", ast.unparse(node))[:48]
            except Exception:
                tag = ""
        self.oblige(st, "safe", f"{exc}<{tag}>" if tag else exc, cond, getattr(node, "lineno", None))
        st.assume(cond)

    # ------------------------------------------------------------------ feasibility
    def feasible(self, st, extra):
        if isinstance(extra, bool):
            return extra
        self.stats["feas_calls"] += 1
        s = z3.Solver()
        # deterministic resource budget (load-independent: a wall-clock cut makes infeasible paths look feasible on a busy machine and
        # the number of paths explode); the wall-clock limit is only a failsafe.  ~5000 units per millisecond on this class of query.
        s.set("rlimit", int(self.feas_timeout_ms) * 5000)
        s.set("timeout", max(10000, int(self.feas_timeout_ms) * 30))
        for f in st.pc:
            s.add(f)
        s.add(extra)
        r = s.check()
        return r != z3.unsat

    def branch(self, st, c):
        """yield (state, truth) for the feasible outcomes of condition c"""
        if isinstance(c, bool):
            yield st, c
            return
        if self.spec_mode:
            raise Unsupported("symbolic branch inside a spec expression")
        c = z3.simplify(c)
        if z3.is_true(c):
            yield st, True
            return
        if z3.is_false(c):
            yield st, False
            return
        ft = self.feasible(st, c)
        ff = self.feasible(st, z3.Not(c))
        if ft and ff:
            self.stats["forks"] += 1
            st2 = st.clone()
            st.assume(c)
            yield st, True
            st2.assume(z3.Not(c))
            yield st2, False
        elif ft:
            st.assume(c)
            yield st, True
        elif ff:
            st.assume(z3.Not(c))
            yield st, False
        # both infeasible: dead path

    def truth(self, st, v):
        """python truthiness as bool/z3 Bool"""
        if v is None:
            return False
        if isinstance(v, bool) or isinstance(v, z3.BoolRef):
            return v
        if isinstance(v, int):
            return v != 0
        if isinstance(v, z3.ArithRef):
            return v != 0
        if isinstance(v, str):
            return len(v) > 0
        if isinstance(v, tuple):
            return len(v) > 0
        if isinstance(v, SList):
            return v.length != 0 if is_sym(v.length) else v.length != 0
        if isinstance(v, PList):
            return len(v.items) > 0
        if isinstance(v, PDict):
            return len(v.items) > 0
        if isinstance(v, (HRef, SymObj, FuncVal, ClassVal, Closure)):
            return True
        if isinstance(v, Atom):
            raise Unsupported(f"truthiness of opaque string {v!r}")
        t = getattr(v, "truth", None)
        if t is not None:
            return t()
        raise Unsupported(f"truthiness of {v!r}")

    # ------------------------------------------------------------------ name resolution
    def lookup(self, st, name, node=None):
        fr = st.frames[-1]
        if name in fr.locals:
            return fr.locals[name]
        if name in st.ghost:
            return st.ghost[name]
        ext = getattr(self, "extern_names", {})
        if name in ext:
            return ext[name]
        if name in SPEC_BUILTINS:
            return BuiltinVal(name)
        if name in self.reg.spec_funcs and (self.spec_mode or getattr(fr, "spec", False)):
            return FuncVal("<spec>", name)
        mod = getattr(fr, "module", None)
        if mod and mod != "<spec>":
            m = src.module(mod)
            if name in m.funcs:
                return FuncVal(mod, name)
            if name in m.classes:
                return ClassVal(name, mod)
            if name in m.assigns or name in m.imports:
                v = self.lookup_in_module(mod, name)
                if v is not None:
                    return v
        if name in self.reg.spec_funcs:
            return FuncVal("<spec>", name)
        if name in self.reg.types:
            return ClassVal(name)
        if name in PY_BUILTINS:
            return BuiltinVal(name)
        ext = getattr(self, "extern_names", {})
        if name in ext:
            return ext[name]
        if name in EXCEPTION_NAMES:
            return BuiltinVal("exc:" + name)
        raise Unsupported(f"unresolved name `{name}` in {fr.func}")

    # ------------------------------------------------------------------ expression evaluation
    def sv(self, st, node):
        """spec-mode single-valued evaluation"""
        self.spec_mode += 1
        try:
            out = list(self.ev(st, node))
        finally:
            self.spec_mode -= 1
        if len(out) != 1:
            raise Unsupported("spec expression forked")
        return out[0][1]

    def ev(self, st, node):
        m = getattr(self, "ev_" + type(node).__name__, None)
        if m is None:
            raise Unsupported(f"expression {type(node).__name__} at line {getattr(node, 'lineno', '?')}")
        return m(st, node)

    def ev_Constant(self, st, n):
        yield st, n.value

    def ev_Name(self, st, n):
        yield st, self.lookup(st, n.id, n)

    def ev_Tuple(self, st, n):
        for st1, vals in self.ev_list(st, n.elts):
            yield st1, tuple(vals)

    def ev_List(self, st, n):
        for st1, vals in self.ev_list(st, n.elts):
            if vals and all(isinstance(v, HRef) for v in vals) and len({v.cls for v in vals}) == 1:
                yield st1, self.to_slist(vals, ("href", vals[0].cls))
            else:
                yield st1, PList(vals)

    def to_slist(self, vals, kind):
        arr = fresh_mem("lit")
        for k, v in enumerate(vals):
            arr = z3.Store(arr, k, to_z3(v))
        return SList(len(vals), arr, kind)

    def ev_Dict(self, st, n):
        for st1, ks in self.ev_list(st, n.keys):
            for st2, vs in self.ev_list(st1, n.values):
                yield st2, PDict(dict(zip(ks, vs)))

    def ev_list(self, st, nodes):
        if not nodes:
            yield st, []
            return
        for st1, v in self.ev(st, nodes[0]):
            for st2, rest in self.ev_list(st1, nodes[1:]):
                yield st2, [v] + rest

    def ev_Lambda(self, st, n):
        yield st, Closure(n, dict(st.frames[-1].locals), True)

    def ev_IfExp(self, st, n):
        for st1, c in self.ev(st, n.test):
            t = self.truth(st1, c)
            if self.spec_mode and not isinstance(t, bool):
                a = self.sv(st1, n.body)
                b = self.sv(st1, n.orelse)
                yield st1, zite(t, a, b)
                continue
            for st2, tv in self.branch(st1, t):
                yield from self.ev(st2, n.body if tv else n.orelse)

    def ev_UnaryOp(self, st, n):
        for st1, v in self.ev(st, n.operand):
            if isinstance(n.op, ast.Not):
                yield st1, znot(self.truth(st1, v))
            elif isinstance(n.op, ast.USub):
                yield st1, -v
            elif isinstance(n.op, ast.UAdd):
                yield st1, v
            else:
                raise Unsupported("unary op")

    def ev_BoolOp(self, st, n):
        is_and = isinstance(n.op, ast.And)
        if self.spec_mode:
            vals = []
            for e in n.values:
                v = self.sv(st, e)
                t = self.truth(st, v)
                if isinstance(t, bool):
                    if is_and and not t:
                        yield st, False
                        return
                    if (not is_and) and t:
                        yield st, True
                        return
                    continue
                vals.append(t)
            yield st, (zand(*vals) if is_and else zor(*vals))
            return
        yield from self._boolop(st, n.values, is_and)

    def _boolop(self, st, nodes, is_and):
        for st1, v in self.ev(st, nodes[0]):
            if len(nodes) == 1:
                yield st1, v
                continue
            t = self.truth(st1, v)
            for st2, tv in self.branch(st1, t):
                if is_and:
                    if tv:
                        yield from self._boolop(st2, nodes[1:], is_and)
                    else:
                        yield st2, (False if is_boollike(v) or is_sym(v) else v)
                else:
                    if tv:
                        yield st2, (True if is_boollike(v) or is_sym(v) else v)
                    else:
                        yield from self._boolop(st2, nodes[1:], is_and)

    def ev_BinOp(self, st, n):
        for st1, a in self.ev(st, n.left):
            for st2, b in self.ev(st1, n.right):
                yield st2, self.binop(st2, n.op, a, b, n)

    def binop(self, st, op, a, b, node):
        h = getattr(a, "binop", None)
        if h is not None:
            r = h(self, st, op, b, False)
            if r is not NotImplemented:
                return r
        h = getattr(b, "binop", None)
        if h is not None:
            r = h(self, st, op, a, True)
            if r is not NotImplemented:
                return r
        if isinstance(a, bytes) and is_intlike(b) and isinstance(op, ast.Mult) and set(a) <= {0} and len(a) == 1:
            from .xbuf import ByteStr

            n = b if not is_sym(b) else z3.If(b > 0, b, 0)  # bytes * k is empty for k <= 0
            if not is_sym(b):
                n = max(b, 0)
            return ByteStr(n, z3.K(z3.IntSort(), z3.IntVal(0)), "zeros")
        if isinstance(a, str) and isinstance(b, str) and isinstance(op, ast.Add):
            return a + b
        if isinstance(a, tuple) and isinstance(b, tuple) and isinstance(op, ast.Add):
            return a + b
        if isinstance(a, PList) and isinstance(b, PList) and isinstance(op, ast.Add):
            return PList(a.items + b.items)
        if isinstance(a, bool):
            a = int(a)
        if isinstance(b, bool):
            b = int(b)
        if not (is_intlike(a) and is_intlike(b)):
            raise Unsupported(f"binop {type(op).__name__} on {a!r}, {b!r}")
        if isinstance(op, ast.Add):
            return a + b
        if isinstance(op, ast.Sub):
            return a - b
        if isinstance(op, ast.Mult):
            return a * b
        if isinstance(op, ast.FloorDiv):
            self.safety(st, "ZeroDivisionError", b > 0, node)
            return sym_div(st, a, b)
        if isinstance(op, ast.Mod):
            self.safety(st, "ZeroDivisionError", b > 0, node)
            return sym_mod(st, a, b)
        if isinstance(op, ast.BitAnd):
            if not is_sym(a) and not is_sym(b):
                return a & b
            raise Unsupported("symbolic bit-and (only inside functions verified in bit-vector mode)")
        if isinstance(op, ast.Pow):
            if not is_sym(a) and not is_sym(b):
                return a**b
        raise Unsupported(f"binop {type(op).__name__}")

    def ev_Compare(self, st, n):
        # chained compare, left to right with short circuit; operands here have no side effects
        for st1, left in self.ev(st, n.left):
            yield from self._compare(st1, left, list(n.ops), list(n.comparators), True, n)

    def _compare(self, st, left, ops, comps, acc, node):
        if not ops:
            yield st, acc
            return
        for st1, right in self.ev(st, comps[0]):
            r = self.cmp(st1, ops[0], left, right, node)
            if len(ops) == 1:
                yield st1, zand(acc, r) if acc is not True else r
            else:
                for st2, rest in self._compare(st1, right, ops[1:], comps[1:], True, node):
                    yield st2, zand(acc, r, rest) if acc is not True else zand(r, rest)

    def cmp(self, st, op, a, b, node=None):
        if isinstance(op, (ast.Is, ast.IsNot)):
            r = self.identical(a, b)
            return r if isinstance(op, ast.Is) else znot(r)
        if isinstance(op, (ast.In, ast.NotIn)):
            r = self.contains(st, b, a)
            return r if isinstance(op, ast.In) else znot(r)
        if isinstance(op, (ast.Eq, ast.NotEq)):
            r = self.equal(st, a, b)
            return r if isinstance(op, ast.Eq) else znot(r)
        if isinstance(a, bool):
            a = int(a)
        if isinstance(b, bool):
            b = int(b)
        if not (is_intlike(a) and is_intlike(b)):
            raise Unsupported(f"ordering compare on {a!r}, {b!r}")
        if isinstance(op, ast.Lt):
            return a < b
        if isinstance(op, ast.LtE):
            return a <= b
        if isinstance(op, ast.Gt):
            return a > b
        if isinstance(op, ast.GtE):
            return a >= b
        raise Unsupported("compare op")

    def identical(self, a, b):
        if a is None or b is None:
            if is_sym(a) or is_sym(b):
                return False
            return a is b
        if isinstance(a, HRef) and isinstance(b, HRef):
            if a.cls != b.cls:
                return False
            return to_z3(a.ref) == to_z3(b.ref)
        if isinstance(a, _Mut) and isinstance(b, _Mut):
            return a.uid == b.uid
        if isinstance(a, bool) and isinstance(b, bool):
            return a == b
        if isinstance(a, ClassVal) and isinstance(b, ClassVal):
            return a.name == b.name
        if isinstance(a, (ClassVal, BuiltinVal)) and isinstance(b, (ClassVal, BuiltinVal)):
            return a.name == b.name
        h = getattr(a, "identical", None)
        if h is not None:
            return h(b)
        if type(a) != type(b) and not (is_sym(a) or is_sym(b)):
            return False
        raise Unsupported(f"`is` on {a!r}, {b!r}")

    def equal(self, st, a, b):
        if a is None or b is None:
            if a is None and b is None:
                return True
            return False
        h = getattr(a, "equal", None) or getattr(b, "equal", None)
        if h is not None:
            return h(a if h.__self__ is b else b) if False else (a.equal(b) if hasattr(a, "equal") else b.equal(a))
        if isinstance(a, HRef) or isinstance(b, HRef):
            return self.identical(a, b)
        if isinstance(a, (Tmpl, Atom)) or isinstance(b, (Tmpl, Atom)):
            if a is b:
                return True
            raise Unsupported(f"== on template strings {a!r}, {b!r}")
        if isinstance(a, str) or isinstance(b, str):
            if isinstance(a, str) and isinstance(b, str):
                return a == b
            return False
        if isinstance(a, tuple) and isinstance(b, tuple):
            if len(a) != len(b):
                return False
            return zand(*[self.equal(st, x, y) for x, y in zip(a, b)])
        if isinstance(a, PList) and isinstance(b, PList):
            if len(a.items) != len(b.items):
                return False
            return zand(*[self.equal(st, x, y) for x, y in zip(a.items, b.items)])
        if is_boollike(a) and is_boollike(b):
            if isinstance(a, bool) and isinstance(b, bool):
                return a == b
            return zbool(a) == zbool(b)
        if isinstance(a, bool):
            a = int(a)
        if isinstance(b, bool):
            b = int(b)
        if is_intlike(a) and is_intlike(b):
            return a == b
        if isinstance(a, _Mut) and isinstance(b, _Mut):
            if a.uid == b.uid:
                return True
            if isinstance(a, SymObj) and isinstance(b, SymObj):
                return False  # plain objects / classes compare by identity
        if isinstance(a, ClassVal) and isinstance(b, ClassVal):
            return a.name == b.name
        if isinstance(a, (SymObj, ClassVal)) and isinstance(b, (SymObj, ClassVal)):
            return False
        raise Unsupported(f"== on {a!r}, {b!r}")

    def contains(self, st, cont, x):
        if isinstance(cont, (tuple,)):
            return zor(*[self.equal(st, x, y) for y in cont])
        if isinstance(cont, PList):
            return zor(*[self.equal(st, x, y) for y in cont.items])
        if isinstance(cont, PDict):
            return zor(*[self.equal(st, x, y) for y in cont.items.keys()])
        if isinstance(cont, SList):
            i = z3.Int(fresh_name("in"))
            return z3.Exists([i], z3.And(i >= 0, i < cont.length, cont.arr[i] == to_z3(x)))
        if isinstance(cont, str) and isinstance(x, str):
            return x in cont
        h = getattr(cont, "contains", None)
        if h is not None:
            return h(self, st, x)
        m = self._dunder(st, cont, "__contains__")
        if m is not None:
            outs = list(self.call_function(st, m, [x], {}, None))
            if len(outs) != 1:
                raise Unsupported("__contains__ forked")
            return self.truth(st, outs[0][1])
        raise Unsupported(f"`in` on {cont!r}")

    def _dunder(self, st, o, name):
        """special method of the python class an abstract instance models"""
        if isinstance(o, SymObj):
            klass = o.attrs.get("__class__")
            ic = getattr(klass, "instance_class", None) if isinstance(klass, SymObj) else None
            if ic:
                found = self.find_method(ic, name)
                if found:
                    return FuncVal(found[0], found[1], o)
        return None

    # ---- attribute / subscript ----------------------------------------------------------
    def ev_Attribute(self, st, n):
        for st1, o in self.ev(st, n.value):
            yield from self.getattr(st1, o, n.attr, n)

    def getattr(self, st, o, attr, node=None):
        if isinstance(o, _Mut) and o.stale:
            raise Unsupported(f"use of stale alias {o!r}")
        if isinstance(o, SymObj):
            if attr in o.attrs:
                from .interp_ext import bind_class_attr

                yield st, bind_class_attr(o.attrs[attr], o, None)
                return
            klass = o.attrs.get("__class__")
            if isinstance(klass, SymObj):
                # instance of an abstract class object: class attributes, then methods of the python class it models
                if attr in klass.attrs:
                    from .interp_ext import bind_class_attr

                    yield st, bind_class_attr(klass.attrs[attr], klass, o)
                    return
                inst_cls = getattr(klass, "instance_class", None)
                if inst_cls:
                    found = self.find_method(inst_cls, attr)
                    if found:
                        fnode = src.func_node(*found)
                        decos = src.decorators(fnode)
                        fv = FuncVal(found[0], found[1], klass if "classmethod" in decos else (None if "staticmethod" in decos else o))
                        if "property" in decos:
                            yield from self.call_function(st, fv, [], {}, node)
                        else:
                            yield st, fv
                        return
            ic = getattr(o, "instance_class", None)
            if ic and klass is None:
                # o is an abstract class object: attributes defined in the python class it models
                found = self.find_method(ic, attr)
                if found:
                    fnode = src.func_node(*found)
                    decos = src.decorators(fnode)
                    yield st, FuncVal(found[0], found[1], o if "classmethod" in decos else None)
                    return
            if attr == "__class__" and klass is None:
                yield st, ClassVal(o.cls, getattr(self, "class_home", {}).get(o.cls))
                return
            if attr == "__dict__" and isinstance(klass, SymObj):
                from .interp_ext import InstanceDict

                yield st, InstanceDict(o)
                return
            if (self.reg.lookup_method(o.cls, attr) is None and self.find_method(o.cls, attr) is None
                    and attr not in getattr(o, "absent", ()) and attr not in getattr(klass, "absent", ())):
                # an abstract object made by a harness lists the attributes the unchanged code reads; an attribute it does not list
                # (and does not declare absent) is a gap of the model, not an AttributeError of the program: undecided, no obligation
                raise Unsupported(f"the model of {o.cls} has no attribute {attr}")
            yield from self.class_attr(st, o, o.cls, attr, node)
            return
        if isinstance(o, HRef):
            decl = self.reg.types.get(o.cls)
            if decl and attr in decl.fields:
                yield st, st.heap_get(o, attr)
                return
            yield from self.class_attr(st, o, o.cls, attr, node)
            return
        if isinstance(o, (SList, PList)):
            if attr in ("append", "insert", "remove", "extend", "index", "pop", "copy"):
                yield st, BuiltinVal("list." + attr, o)
                return
        if isinstance(o, tuple) and attr in ("index",):
            yield st, BuiltinVal("list." + attr, o)
            return
        if isinstance(o, PDict):
            if attr in ("items", "keys", "values", "get", "setdefault", "update", "copy"):
                yield st, BuiltinVal("dict." + attr, o)
                return
        if isinstance(o, (str, Tmpl, Atom)):
            if attr in ("join", "format", "startswith", "endswith", "strip", "split", "replace", "upper"):
                yield st, BuiltinVal("str." + attr, o)
                return
        if isinstance(o, ClassVal):
            v = self.class_static_attr(o, attr)
            if v is _MISSING:
                self.safety(st, "AttributeError", False, node)
                raise Unsupported(f"class {o.name} has no attribute {attr}")
            yield st, v
            return
        if isinstance(o, Mem):
            raise Unsupported("attribute of byte map")
        h = getattr(o, "getattr", None)
        if h is not None:
            yield from h(self, st, attr, node)
            return
        raise Unsupported(f"attribute .{attr} of {o!r}")

    def find_method(self, cls, attr):
        """locate `attr` in the source of class `cls` (walking declared/source bases)"""
        seen = set()
        todo = [cls]
        while todo:
            c = todo.pop(0)
            if c in seen:
                continue
            seen.add(c)
            decl = self.reg.types.get(c)
            relpath = decl.relpath if decl else getattr(self, "class_home", {}).get(c)
            if relpath:
                m = src.module(relpath)
                q = f"{c}.{attr}"
                if q in m.funcs:
                    return relpath, q
                todo.extend(m.class_bases(c))
            if decl:
                todo.extend(decl.bases)
        return None

    def class_attr(self, st, o, cls, attr, node):
        con = self.reg.lookup_method(cls, attr)
        found = self.find_method(cls, attr)
        if found is None and con is None:
            self.safety(st, "AttributeError", False, node)
            raise Unsupported(f"{cls} has no attribute {attr}")
        if found is not None:
            relpath, q = found
            fnode = src.func_node(relpath, q)
            decos = src.decorators(fnode)
            if "property" in decos:
                yield from self.call_function(st, FuncVal(relpath, q, o), [], {}, node)
                return
            yield st, FuncVal(relpath, q, o)
            return
        yield st, FuncVal(con.relpath, con.qualname, o)

    def ev_Subscript(self, st, n):
        for st1, o in self.ev(st, n.value):
            if isinstance(n.slice, ast.Slice):
                for st2, lo in (self.ev(st1, n.slice.lower) if n.slice.lower else [(st1, None)]):
                    for st3, hi in (self.ev(st2, n.slice.upper) if n.slice.upper else [(st2, None)]):
                        if n.slice.step is not None:
                            raise Unsupported("slice step")
                        yield st3, self.getslice(st3, o, lo, hi, n)
            else:
                for st2, i in self.ev(st1, n.slice):
                    yield st2, self.getitem(st2, o, i, n)

    def norm_index(self, st, length, i, node, exc="IndexError"):
        if not is_intlike(i):
            raise Unsupported(f"index {i!r}")
        self.safety(st, exc, zand(i >= -length if (is_sym(i) or is_sym(length)) else i >= -length, i < length), node)
        if not is_sym(i):
            return i if i >= 0 else length + i
        return z3.If(i < 0, length + i, i)

    def getitem(self, st, o, i, node):
        if isinstance(o, _Mut) and o.stale:
            raise Unsupported(f"use of stale alias {o!r}")
        if isinstance(o, SList):
            if self.spec_mode:
                if not is_sym(i) and i < 0:
                    i = o.length + i
                return o.get(i)
            k = self.norm_index(st, o.length, i, node)
            return o.get(k)
        if isinstance(o, (PList, tuple)):
            items = o.items if isinstance(o, PList) else o
            if is_sym(i):
                # symbolic index into a concrete sequence: ite chain (ints only)
                self.safety(st, "IndexError", z3.And(i >= -len(items), i < len(items)), node)
                k = z3.If(i < 0, len(items) + i, i)
                out = to_z3(items[-1])
                for j in range(len(items) - 2, -1, -1):
                    out = z3.If(k == j, to_z3(items[j]), out)
                return out
            if not self.spec_mode:
                self.safety(st, "IndexError", -len(items) <= i < len(items), node)
                if getattr(st, "dead", False):
                    return 0
            return items[i]
        if isinstance(o, PDict):
            if is_sym(i):
                raise Unsupported("symbolic dict key")
            if i not in o.items:
                self.safety(st, "KeyError", False, node)
                if getattr(st, "dead", False):
                    return 0  # the KeyError is handled by an enclosing try: this path has ended (its continuation is the handler's)
                raise Unsupported("missing dict key")
            return o.items[i]
        if isinstance(o, Mem):
            return z3.Select(o.arr, to_z3(i))
        h = getattr(o, "getitem", None)
        if h is not None:
            return h(self, st, i, node)
        m = self._dunder(st, o, "__getitem__")
        if m is not None:
            outs = list(self.call_function(st, m, [i], {}, node))
            if len(outs) != 1:
                raise Unsupported("__getitem__ forked")
            return outs[0][1]
        raise Unsupported(f"subscript of {o!r}")

    def getslice(self, st, o, lo, hi, node):
        if isinstance(o, SList):
            # python clamps slice bounds; we support lo>=0 constant / symbolic within [0,len], hi None
            if hi is not None:
                raise Unsupported("slice with upper bound on symbolic list")
            lo = 0 if lo is None else lo
            if is_sym(lo) or lo < 0:
                raise Unsupported("slice lower bound")
            newlen = zite(o.length >= lo, o.length - lo, 0)
            arr = fresh_mem("slice")
            j = z3.Int(fresh_name("j"))
            st.assume(z3.ForAll([j], arr[j] == o.arr[j + lo], patterns=[arr[j]]))
            st.assume(z3.ForAll([j], arr[j - lo] == o.arr[j], patterns=[o.arr[j]]))
            r = SList(z3.simplify(to_z3(newlen)) if is_sym(newlen) else newlen, arr, o.kind)
            return r
        if isinstance(o, (PList, tuple)):
            items = o.items if isinstance(o, PList) else o
            if is_sym(lo) or is_sym(hi):
                raise Unsupported("symbolic slice of concrete list")
            r = items[lo:hi]
            return PList(r) if isinstance(o, PList) else tuple(r)
        if isinstance(o, str):
            return o[lo:hi]
        h = getattr(o, "getslice", None)
        if h is not None:
            return h(self, st, lo, hi, node)
        raise Unsupported(f"slice of {o!r}")

    # ---- calls ---------------------------------------------------------------------------
    def ev_Call(self, st, n):
        # spec-only special forms evaluated lazily
        if isinstance(n.func, ast.Name) and n.func.id in ("old", "at_loop") and n.func.id not in st.frames[-1].locals:
            yield st, self.eval_in_snapshot(st, n.func.id, n.args[0])
            return
        for st1, f in self.ev(st, n.func):
            args_nodes = n.args
            star_at = [k for k, a in enumerate(args_nodes) if isinstance(a, ast.Starred)]
            plain_nodes = [a.value if isinstance(a, ast.Starred) else a for a in args_nodes]
            for st2, args in self.ev_list(st1, list(plain_nodes)):
                if star_at:
                    ex = []
                    for k, v in enumerate(args):
                        if k in star_at:
                            if isinstance(v, tuple):
                                ex.extend(v)
                            elif isinstance(v, PList):
                                ex.extend(v.items)
                            elif hasattr(v, "star_arg"):
                                ex.append(v)
                            else:
                                raise Unsupported("star args of symbolic sequence")
                        else:
                            ex.append(v)
                    args = ex
                kwn = [k.arg for k in n.keywords]
                for st3, kwv in self.ev_list(st2, [k.value for k in n.keywords]):
                    kws = {}
                    for nm, v in zip(kwn, kwv):
                        if nm is None:
                            if not isinstance(v, PDict):
                                raise Unsupported("**kwargs call with a non-dict")
                            kws.update(v.items)
                        else:
                            kws[nm] = v
                    yield from self.call(st3, f, args, kws, n)

    def call(self, st, f, args, kwargs, node):
        if isinstance(f, BuiltinVal):
            yield from self.call_builtin(st, f, args, kwargs, node)
        elif isinstance(f, FuncVal):
            yield from self.call_function(st, f, args, kwargs, node)
        elif isinstance(f, ClassVal):
            yield from self.call_class(st, f, args, kwargs, node)
        elif isinstance(f, Closure):
            yield from self.call_closure(st, f, args, kwargs, node)
        elif isinstance(f, GhostFn):
            yield st, f.decl(*[to_z3(a) for a in args])
        elif hasattr(f, "call"):
            yield from f.call(self, st, args, kwargs, node)
        elif isinstance(f, SymObj) and self.find_method(f.cls, "__call__"):
            found = self.find_method(f.cls, "__call__")
            yield from self.call_function(st, FuncVal(found[0], found[1], f), args, kwargs, node)
        else:
            raise Unsupported(f"call of {f!r}")

    def call_closure(self, st, f, args, kwargs, node):
        a = f.node.args
        names = [x.arg for x in a.args]
        if len(args) != len(names) or kwargs:
            raise Unsupported("closure arity")
        fr = Frame("<lambda>", dict(f.env))
        fr.locals.update(dict(zip(names, args)))
        fr.module = getattr(st.frames[-1], "module", None)
        fr.spec = True
        st.frames.append(fr)
        try:
            v = self.sv(st, f.node.body) if self.spec_mode else None
            if not self.spec_mode:
                out = list(self.ev(st, f.node.body))
                if len(out) != 1:
                    raise Unsupported("lambda forked")
                v = out[0][1]
        finally:
            st.frames.pop()
        yield st, v

    def call_class(self, st, c, args, kwargs, node):
        decl = self.reg.types.get(c.name)
        if decl is None or decl.kind != "heap":
            h = getattr(self, "construct_" + c.name, None)
            if h:
                yield from h(st, args, kwargs, node)
                return
            if c.relpath:
                yield from self.construct_generic(st, c, args, kwargs, node)
                return
            raise Unsupported(f"constructor of {c.name}")
        o = st.new_href(c.name)
        found = self.find_method(c.name, "__init__")
        if found is None:
            yield st, o
            return
        for st1, _ in self.call_function(st, FuncVal(found[0], found[1], o), args, kwargs, node):
            yield st1, o

    def bind_args(self, fnode, f, args, kwargs, st):
        a = fnode.args
        if a.posonlyargs:
            raise Unsupported("positional-only parameters in callee")
        names = [x.arg for x in a.args]
        vals = {}
        pos = list(args)
        if f.bound_self is not None:
            pos = [f.bound_self] + pos
        if len(pos) > len(names):
            if not a.vararg:
                raise Unsupported("too many positional args")
            vals[a.vararg.arg] = tuple(pos[len(names):])
            pos = pos[:len(names)]
        elif a.vararg:
            vals[a.vararg.arg] = ()
        for nme, v in zip(names, pos):
            vals[nme] = v
        extra_kw = {}
        for k, v in kwargs.items():
            if k in vals:
                raise Unsupported("duplicate arg")
            if k not in names and k not in [x.arg for x in a.kwonlyargs]:
                if not a.kwarg:
                    raise Unsupported(f"unexpected kwarg {k}")
                extra_kw[k] = v
                continue
            vals[k] = v
        if a.kwarg:
            vals[a.kwarg.arg] = PDict(extra_kw)
        # defaults
        defaults = a.defaults
        for nme, d in zip(names[len(names) - len(defaults):], defaults):
            if nme not in vals:
                vals[nme] = ast.literal_eval(d)
        for x, d in zip(a.kwonlyargs, a.kw_defaults):
            if x.arg not in vals and d is not None:
                vals[x.arg] = ast.literal_eval(d)
        for nme in names:
            if nme not in vals:
                raise Unsupported(f"missing argument {nme}")
        return vals

    def call_function(self, st, f, args, kwargs, node):
        if f.relpath == "<spec>":
            yield from self.call_spec(st, f, args, kwargs, node)
            return
        ov = getattr(self, "overrides", {}).get((f.relpath, f.qualname))
        if ov is not None and not self.spec_mode:
            yield from ov(self, st, f, args, kwargs, node)
            return
        con = self.reg.contracts.get((f.relpath, f.qualname))
        if con is None and f.bound_self is not None and hasattr(f.bound_self, "cls"):
            cls = f.bound_self.cls
            con = self.reg.lookup_method(cls, f.qualname.split(".")[-1])
        if con is not None and not con.inline and not self.spec_mode:
            yield from self.apply_contract(st, con, f, args, kwargs, node)
            return
        # inline from current source
        fnode = src.func_node(f.relpath, f.qualname)
        if "abstractmethod" in src.decorators(fnode):
            raise Unsupported(f"call of abstract method {f.qualname} without contract")
        if st.depth > MAX_INLINE_DEPTH:
            raise Unsupported("inline depth")
        vals = self.bind_args(fnode, f, args, kwargs, st)
        self.stats["inlined"].add(f"{f.relpath}:{f.qualname}")
        fr = Frame(f.qualname, vals)
        fr.module = f.relpath
        fr.fnode = fnode
        st.frames.append(fr)
        st.depth += 1
        for st1, out in self.exec_block(st, src.body_of(fnode)):
            st1.frames.pop()
            st1.depth -= 1
            if out is None:
                yield st1, None
            elif out[0] == "return":
                yield st1, out[1]
            elif out[0] == "raise":
                # propagate as python exception through the generator protocol
                st1.pending_raise = out
                yield st1, RAISED
            else:
                raise Unsupported("break/continue escaping a function")

    def call_spec(self, st, f, args, kwargs, node):
        fnode, path = self.reg.spec_funcs[f.qualname]
        vals = self.bind_args(fnode, f, args, kwargs, st)
        fr = Frame("spec:" + f.qualname, vals)
        fr.module = "<spec>"
        fr.spec = True
        st.frames.append(fr)
        self.spec_mode += 1
        try:
            v = self.run_spec_body(st, src.body_of(fnode))
        finally:
            self.spec_mode -= 1
            st.frames.pop()
        yield st, v

    def run_spec_body(self, st, body):
        """straight-line body: assignments, if/else (value-merging on symbolic conditions), return"""
        for k, stmt in enumerate(body):
            if isinstance(stmt, ast.Return):
                return self.sv(st, stmt.value)
            if isinstance(stmt, ast.Assign) and len(stmt.targets) == 1 and isinstance(stmt.targets[0], ast.Name):
                st.locals[stmt.targets[0].id] = self.sv(st, stmt.value)
                continue
            if isinstance(stmt, ast.Expr) and isinstance(stmt.value, ast.Constant):
                continue
            if isinstance(stmt, ast.If):
                rest = list(body[k + 1:])
                c = self.truth(st, self.sv(st, stmt.test))
                if isinstance(c, bool):
                    return self.run_spec_body(st, list(stmt.body if c else stmt.orelse) + rest)
                saved = dict(st.locals)
                a = self.run_spec_body(st, list(stmt.body) + rest)
                st.frames[-1].locals = dict(saved)
                b = self.run_spec_body(st, list(stmt.orelse) + rest)
                st.frames[-1].locals = saved
                if a is NO_RETURN or b is NO_RETURN:
                    raise Unsupported("spec function must return on every branch")
                return zite(c, a, b)
            raise Unsupported(f"spec statement {type(stmt).__name__}")
        return NO_RETURN

    # ---- snapshots: old(e), at_loop(e) ------------------------------------------------------
    def eval_in_snapshot(self, st, which, expr):
        if which == "old":
            if self.old_stack:
                snap = self.old_stack[-1]
            elif (getattr(st, "entry", None) is not None and self.contract is not None and st.frames and st.frames[0].func == self.contract.qualname
                  and all(f.func == "<lambda>" or f.func.startswith("spec:") for f in st.frames[1:])):
                snap = st.entry  # loop invariant of the function under contract: old() = the state at function entry
            else:
                raise Unsupported("old() outside a postcondition")
        else:
            if not self.loop_snap_stack:
                raise Unsupported("at_loop() outside a loop invariant")
            snap = self.loop_snap_stack[-1]
        idx = {}
        _index_muts(snap, idx)

        def remap(v):
            if isinstance(v, _Mut):
                if v.uid in idx:
                    return idx[v.uid]
                return v  # created after the snapshot: not meaningful in old state
            if isinstance(v, tuple):
                return tuple(remap(x) for x in v)
            if isinstance(v, Closure):
                return Closure(v.node, {k: remap(x) for k, x in v.env.items()}, v.spec)
            return v

        tmp = snap.clone()
        idx2 = {}
        _index_muts(tmp, idx2)
        idx = idx2
        cur = st.frames[-1]
        fr = Frame(cur.func, {k: remap(v) for k, v in cur.locals.items()})
        fr.module = getattr(cur, "module", None)
        fr.spec = getattr(cur, "spec", False)
        tmp.frames.append(fr)
        tmp.ghost = st.ghost
        n0 = len(tmp.pc)
        v = self.sv(tmp, expr)
        # axioms instantiated while evaluating in the snapshot are facts, keep them
        for f in tmp.pc[n0:]:
            st.assume(f)
        return v

    # ---- builtins ----------------------------------------------------------------------------
    def call_builtin(self, st, f, args, kwargs, node):
        name = f.name
        if name.startswith("exc:"):
            # constructing a builtin exception: a value that only remembers its class (raise <value> uses it)
            o = SymObj("exception", {"exc_class": name[4:], "args": tuple(args)})
            o.closed = True
            yield st, o
            return
        h = getattr(self, "bi_" + name.replace(".", "_"), None)
        if h is None:
            raise Unsupported(f"builtin {name}")
        r = h(st, f, args, kwargs, node)
        if hasattr(r, "__next__"):
            yield from r
        else:
            yield st, r

    def bi_len(self, st, f, args, kw, node):
        (x,) = args
        if isinstance(x, SList):
            return x.length
        if isinstance(x, PList):
            return len(x.items)
        if isinstance(x, PDict):
            return len(x.items)
        if isinstance(x, (tuple, str)):
            return len(x)
        if isinstance(x, HRef) and (x.cls, "len") in st.heap_sorts:
            return st.heap_get(x, "len")
        h = getattr(x, "length", None)
        if h is not None:
            return h(self, st)
        fv = self._dunder(st, x, "__len__")
        if fv is not None:
            # len(obj) of an abstract instance: the __len__ of the python class it models (single path expected)
            outs = list(self.call_function(st, fv, [], {}, node))
            if len(outs) != 1 or outs[0][0] is not st:
                raise Unsupported("__len__ forked or changed the state")
            return outs[0][1]
        raise Unsupported(f"len of {x!r}")

    def bi_min(self, st, f, args, kw, node):
        if len(args) == 1:
            x = args[0]
            args = x.items if isinstance(x, PList) else list(x)
        out = args[0]
        for b in args[1:]:
            out = zite(b < out, b, out) if (is_sym(b) or is_sym(out)) else min(out, b)
        return out

    def bi_max(self, st, f, args, kw, node):
        if len(args) == 1:
            x = args[0]
            args = x.items if isinstance(x, PList) else list(x)
        out = args[0]
        for b in args[1:]:
            out = zite(b > out, b, out) if (is_sym(b) or is_sym(out)) else max(out, b)
        return out

    def bi_bool(self, st, f, args, kw, node):
        return self.truth(st, args[0])

    def bi_int(self, st, f, args, kw, node):
        (x,) = args
        if is_intlike(x):
            return x
        if is_boollike(x):
            return zite(x, 1, 0)
        raise Unsupported("int()")

    def bi_range(self, st, f, args, kw, node):
        if any(is_sym(a) for a in args):
            raise Unsupported("symbolic range (needs loop invariant support)")
        return PList(list(range(*args)))

    def bi_enumerate(self, st, f, args, kw, node):
        (x,) = args
        if isinstance(x, SList):
            return EnumView(x)
        if isinstance(x, (PList, tuple)):
            items = x.items if isinstance(x, PList) else x
            return PList([(i, v) for i, v in enumerate(items)])
        raise Unsupported("enumerate")

    def bi_zip(self, st, f, args, kw, node):
        seqs = []
        for x in args:
            if isinstance(x, PList):
                seqs.append(x.items)
            elif isinstance(x, tuple):
                seqs.append(list(x))
            else:
                raise Unsupported("zip of symbolic-length sequence")
        return PList([tuple(t) for t in zip(*seqs)])

    def bi_list(self, st, f, args, kw, node):
        if not args:
            return PList([])
        (x,) = args
        if isinstance(x, PList):
            return PList(list(x.items))
        if isinstance(x, tuple):
            return PList(list(x))
        if isinstance(x, SList):
            return SList(x.length, x.arr, x.kind)
        raise Unsupported("list()")

    def bi_tuple(self, st, f, args, kw, node):
        (x,) = args
        if isinstance(x, PList):
            return tuple(x.items)
        if isinstance(x, tuple):
            return x
        raise Unsupported("tuple()")

    def bi_isinstance(self, st, f, args, kw, node):
        o, c = args
        h = getattr(o, "isinstance", None)
        if h is not None:
            return h(self, c)
        cs = c if isinstance(c, tuple) else (c,)
        for k in cs:
            kn = k.name if isinstance(k, (ClassVal, BuiltinVal)) else None
            if kn == "int" and is_intlike(o) and not is_boollike(o):
                return True
            if kn == "str" and isinstance(o, (str, Tmpl, Atom)):
                return True
            if kn == "tuple" and isinstance(o, tuple):
                return True
            if kn == "list" and isinstance(o, (PList, SList)):
                return True
            if kn == "dict" and isinstance(o, PDict):
                return True
            if isinstance(o, (HRef, SymObj)) and kn is not None and self.is_subclass(o.cls, kn):
                return True
            if isinstance(k, SymObj) and isinstance(o, SymObj):
                kc = o.attrs.get("__class__")
                if isinstance(kc, SymObj) and kc.uid == k.uid:
                    return True
        return False

    def is_subclass(self, c, k):
        seen = set()
        todo = [c]
        while todo:
            x = todo.pop()
            if x == k:
                return True
            if x in seen:
                continue
            seen.add(x)
            d = self.reg.types.get(x)
            if d:
                todo.extend(d.bases)
        return False

    def bi_sum(self, st, f, args, kw, node):
        (x,) = args
        if isinstance(x, (PList, tuple)):
            items = x.items if isinstance(x, PList) else x
            out = 0
            for v in items:
                out = out + v
            return out
        if isinstance(x, MapView):
            return x.fold_sum(self, st)
        raise Unsupported("sum over symbolic list")

    # list methods
    def bi_list_append(self, st, f, args, kw, node):
        lst = f.bound
        (v,) = args
        if isinstance(lst, PList):
            lst.items.append(v)
        else:
            lst.arr = z3.Store(lst.arr, to_z3(lst.length), to_z3(v))
            lst.length = lst.length + 1
        st.writes.add(("list", lst.uid))
        return None

    def bi_list_extend(self, st, f, args, kw, node):
        lst = f.bound
        (v,) = args
        if isinstance(lst, PList) and isinstance(v, (PList, tuple)):
            lst.items.extend(v.items if isinstance(v, PList) else v)
            st.writes.add(("list", lst.uid))
            return None
        raise Unsupported("extend on symbolic list")

    def bi_list_insert(self, st, f, args, kw, node):
        lst = f.bound
        i, v = args
        if isinstance(lst, PList):
            if is_sym(i):
                raise Unsupported("symbolic insert position in concrete list")
            lst.items.insert(i, v)
        else:
            # python clamps the position; we require 0 <= i <= len (obligation)
            self.safety(st, "insert-position-in-range", zand(i >= 0, i <= lst.length), node)
            arr = fresh_mem("ins")
            j = z3.Int(fresh_name("j"))
            iz = to_z3(i)
            st.assume(z3.ForAll([j], arr[j] == z3.If(j < iz, lst.arr[j], z3.If(j == iz, to_z3(v), lst.arr[j - 1])), patterns=[arr[j]]))
            st.assume(z3.ForAll([j], z3.If(j < iz, arr[j] == lst.arr[j], arr[j + 1] == lst.arr[j]), patterns=[lst.arr[j]]))
            st.assume(arr[iz] == to_z3(v))
            lst.arr = arr
            lst.length = lst.length + 1
        st.writes.add(("list", lst.uid))
        return None

    def bi_list_remove(self, st, f, args, kw, node):
        lst = f.bound
        (v,) = args
        if isinstance(lst, PList):
            for k, x in enumerate(lst.items):
                e = self.equal(st, x, v)
                if e is True:
                    del lst.items[k]
                    st.writes.add(("list", lst.uid))
                    return None
                if e is not False:
                    raise Unsupported("symbolic equality in concrete list.remove")
            self.safety(st, "ValueError", False, node)
            return None
        zv = to_z3(v)
        i = z3.Int(fresh_name("i"))
        self.safety(st, "ValueError", z3.Exists([i], z3.And(i >= 0, i < lst.length, lst.arr[i] == zv)), node)
        p = fresh_int("rm")
        j = z3.Int(fresh_name("j"))
        st.assume(z3.And(p >= 0, p < lst.length, lst.arr[p] == zv))
        st.assume(z3.ForAll([j], z3.Implies(z3.And(j >= 0, j < p), lst.arr[j] != zv)))
        arr = fresh_mem("rm")
        st.assume(z3.ForAll([j], arr[j] == z3.If(j < p, lst.arr[j], lst.arr[j + 1]), patterns=[arr[j]]))
        st.assume(z3.ForAll([j], z3.Implies(j != p, z3.If(j < p, arr[j] == lst.arr[j], arr[j - 1] == lst.arr[j])), patterns=[lst.arr[j]]))
        lst.arr = arr
        lst.length = lst.length - 1
        st.writes.add(("list", lst.uid))
        return None

    # spec builtins
    def bi_forall(self, st, f, args, kw, node):
        return self._quant(st, args, True)

    def bi_exists(self, st, f, args, kw, node):
        return self._quant(st, args, False)

    def _quant(self, st, args, univ):
        lo, hi, fn = args
        if not isinstance(fn, Closure):
            raise Unsupported("forall/exists needs a lambda")
        names = [a.arg for a in fn.node.args.args]
        vs = [z3.Int(fresh_name(nm)) for nm in names]
        rng = zand(*[zand(v >= lo, v < hi) for v in vs])
        body = list(self.call_closure(st, fn, vs, {}, None))[0][1]
        body = self.truth(st, body)
        if isinstance(rng, bool) and not rng:
            return univ
        if univ:
            inner = zimplies(rng, body)
            if isinstance(inner, bool):
                return inner
            return z3.ForAll(vs, inner)
        inner = zand(rng, body)
        if isinstance(inner, bool):
            return inner
        return z3.Exists(vs, inner)

    def bi_forall_int(self, st, f, args, kw, node):
        """unbounded quantification over ints: forall_int(lambda o, s: body)"""
        (fn,) = args
        names = [a.arg for a in fn.node.args.args]
        vs = [z3.Int(fresh_name(nm)) for nm in names]
        body = self.truth(st, list(self.call_closure(st, fn, vs, {}, None))[0][1])
        if isinstance(body, bool):
            return body
        return z3.ForAll(vs, body)

    def bi_forall_live(self, st, f, args, kw, node):
        """forall_live(Live, lambda o, s: body): over the regions of a ghost region-set"""
        live, fn = args
        names = [a.arg for a in fn.node.args.args]
        vs = [z3.Int(fresh_name(nm)) for nm in names]
        body = self.truth(st, list(self.call_closure(st, fn, vs, {}, None))[0][1])
        inner = zimplies(live.decl(*vs), body)
        if isinstance(inner, bool):
            return inner
        return z3.ForAll(vs, inner)

    def bi_implies(self, st, f, args, kw, node):
        a, b = args
        return zimplies(self.truth(st, a), self.truth(st, b))

    def bi_iff(self, st, f, args, kw, node):
        a, b = args
        a, b = self.truth(st, a), self.truth(st, b)
        if isinstance(a, bool) and isinstance(b, bool):
            return a == b
        return zbool(a) == zbool(b)

    def bi_ite(self, st, f, args, kw, node):
        c, a, b = args
        return zite(self.truth(st, c), a, b)

    def bi_align_up(self, st, f, args, kw, node):
        return sym_align_up(st, *args)

    def bi_pow2(self, st, f, args, kw, node):
        return sym_pow2(st, args[0])

    def bi_pymod(self, st, f, args, kw, node):
        return sym_mod(st, *args)

    def bi_byte(self, st, f, args, kw, node):
        sto, x = args
        m = st.heap_get(sto, "mem")
        return z3.Select(m.arr, to_z3(x))

    def bi_slen(self, st, f, args, kw, node):
        return st.heap_get(args[0], "len")

    def bi_same_storage(self, st, f, args, kw, node):
        return self.identical(args[0], args[1])

    def bi_same_obj(self, st, f, args, kw, node):
        return self.identical(args[0], args[1])

    def bi_SUM(self, st, f, args, kw, node):
        """SUM(lst, 'field-expr-name'): spec fold; uninterpreted per (heap snapshot, list)"""
        raise Unsupported("SUM is provided by the lemma library")

    # ------------------------------------------------------------------ statements
    def exec_block(self, st, stmts):
        """yield (state, outcome); outcome None = fell through"""
        if not stmts:
            yield st, None
            return
        for st1, out in self.ex(st, stmts[0]):
            if out is None:
                yield from self.exec_block(st1, stmts[1:])
            else:
                yield st1, out

    def ex(self, st, stmt):
        m = getattr(self, "ex_" + type(stmt).__name__, None)
        if m is None:
            raise Unsupported(f"statement {type(stmt).__name__} at line {stmt.lineno}")
        return m(st, stmt)

    def ex_Pass(self, st, s):
        yield st, None

    def ex_Expr(self, st, s):
        if isinstance(s.value, ast.Constant):
            yield st, None
            return
        for st1, v in self.ev(st, s.value):
            if v is RAISED:
                yield st1, st1.pending_raise
            else:
                yield st1, None

    def ex_Return(self, st, s):
        if s.value is None:
            yield st, ("return", None)
            return
        for st1, v in self.ev(st, s.value):
            if v is RAISED:
                yield st1, st1.pending_raise
            else:
                yield st1, ("return", v)

    def ex_Try(self, st, s):
        """try / except / else (no finally): explicit raises reach here as outcomes of the body; implicit exceptions of the classes the
        handlers name are collected by `safety` as events (a snapshot of the path at the raising expression).  Both continue in the first
        matching handler, in this function's frame."""
        if s.finalbody:
            raise Unsupported(f"try/finally at line {s.lineno}")
        names = []
        for h in s.handlers:
            names.append(_handler_names(h.type))
        cf = _CatchFrame([n for ns in names for n in (ns if ns is not None else [None])], len(st.frames), st.depth)
        st.catch_stack = list(getattr(st, "catch_stack", None) or []) + [cf]

        def leave(stx):
            stx.catch_stack = [f for f in (getattr(stx, "catch_stack", None) or []) if f is not cf]

        def handle(stx, excname, lineno):
            del stx.frames[cf.n_frames:]
            stx.depth = cf.depth
            for h, ns in zip(s.handlers, names):
                if ns is None or any(exc_is_a(excname, n) for n in ns):
                    if h.name:
                        eo = SymObj("exception", {"exc_class": excname, "args": ()})
                        eo.closed = True
                        stx.locals[h.name] = eo
                    stx.handling = list(getattr(stx, "handling", None) or []) + [(excname, lineno)]
                    for st2, out in self.exec_block(stx, h.body):
                        st2.handling = list(getattr(st2, "handling", None) or [])[:-1]
                        yield st2, out
                    return
            yield stx, ("raise", excname, lineno)

        for st1, out in self.exec_block(st, s.body):
            leave(st1)
            if getattr(st1, "dead", False):
                continue
            if out is not None and out[0] == "raise" and cf.catches(out[1]):
                yield from handle(st1, out[1], out[2])
            elif out is None:
                yield from self.exec_block(st1, s.orelse)
            else:
                yield st1, out
        while cf.events:
            snap, exc, line = cf.events.pop(0)
            leave(snap)
            yield from handle(snap, exc, line)

    def ex_Raise(self, st, s):
        name = "Exception"
        e = s.exc
        if e is None:
            hd = getattr(st, "handling", None)
            if not hd:
                raise Unsupported("bare raise outside a handler")
            yield st, ("raise", hd[-1][0], s.lineno)
            return
        if isinstance(e, ast.Call):
            e = e.func
        if isinstance(e, ast.Name):
            name = e.id
        elif isinstance(e, ast.Attribute):
            name = e.attr
        if (isinstance(e, (ast.Name, ast.Attribute)) and (name in EXCEPTION_NAMES or name[:1].isupper())
                and not (isinstance(e, ast.Name) and e.id in st.frames[-1].locals)):
            # `raise Cls` / `raise Cls(...)` / `raise mod.Cls(...)`: the class is named in the statement
            yield st, ("raise", name, s.lineno)
            return
        # `raise <expression>`: the exception is computed (a helper that builds it, a variable): evaluate it
        for st1, v in self.ev(st, s.exc):
            if v is RAISED:
                yield st1, st1.pending_raise
            elif isinstance(v, SymObj) and v.cls == "exception":
                yield st1, ("raise", v.attrs["exc_class"], s.lineno)
            else:
                raise Unsupported(f"raise of a computed value at line {s.lineno}")

    def ex_Assert(self, st, s):
        for st1, v in self.ev(st, s.test):
            for st2, tv in self.branch(st1, self.truth(st1, v)):
                if tv:
                    yield st2, None
                else:
                    yield st2, ("raise", "AssertionError", s.lineno)

    def ex_Break(self, st, s):
        yield st, ("break",)

    def ex_Continue(self, st, s):
        yield st, ("continue",)

    def ex_Assign(self, st, s):
        for st1, v in self.ev(st, s.value):
            if v is RAISED:
                yield st1, st1.pending_raise
                continue
            sts = [st1]
            for t in s.targets:
                nxt = []
                for sx in sts:
                    nxt.extend(s2 for s2 in self.assign(sx, t, v))
                sts = nxt
            for sx in sts:
                yield sx, None

    def ex_AugAssign(self, st, s):
        load = _as_load(s.target)
        for st1, cur in self.ev(st, load):
            for st2, v in self.ev(st1, s.value):
                nv = self.binop(st2, s.op, cur, v, s)
                for st3 in self.assign(st2, s.target, nv):
                    yield st3, None

    def ex_AnnAssign(self, st, s):
        if s.value is None:
            yield st, None
            return
        for st1, v in self.ev(st, s.value):
            for st2 in self.assign(st1, s.target, v):
                yield st2, None

    def assign(self, st, target, v):
        if isinstance(target, ast.Name):
            st.locals[target.id] = v
            yield st
        elif isinstance(target, ast.Attribute):
            for st1, o in self.ev(st, target.value):
                self.setattr(st1, o, target.attr, v, target)
                yield st1
        elif isinstance(target, (ast.Tuple, ast.List)):
            if isinstance(v, PList):
                v = tuple(v.items)
            if not isinstance(v, tuple) and hasattr(v, "concrete_items"):
                v = tuple(v.concrete_items(self, st))
            if not isinstance(v, tuple):
                raise Unsupported("unpacking of non-tuple")
            if len(v) != len(target.elts):
                self.safety(st, "ValueError", False, target)
                return
            sts = [st]
            for t, x in zip(target.elts, v):
                nxt = []
                for sx in sts:
                    nxt.extend(self.assign(sx, t, x))
                sts = nxt
            yield from sts
        elif isinstance(target, ast.Subscript):
            for st1, o in self.ev(st, target.value):
                if isinstance(target.slice, ast.Slice):
                    for st2, lo in (self.ev(st1, target.slice.lower) if target.slice.lower else [(st1, None)]):
                        for st3, hi in (self.ev(st2, target.slice.upper) if target.slice.upper else [(st2, None)]):
                            self.setslice(st3, o, lo, hi, v, target)
                            yield st3
                else:
                    for st2, i in self.ev(st1, target.slice):
                        self.setitem(st2, o, i, v, target)
                        yield st2
        else:
            raise Unsupported("assignment target")

    def setattr(self, st, o, attr, v, node):
        if isinstance(o, SymObj):
            decl = self.reg.types.get(o.cls)
            typ = decl.fields.get(attr) if decl else None
            if isinstance(v, PList) and typ and typ.startswith("list["):
                inner = typ[5:-1]
                v = self.to_slist(v.items, "int" if inner in ("int", "nat") else ("href", inner))
            o.attrs[attr] = v
            st.writes.add(("attr", o.uid, attr))
            return
        if isinstance(o, HRef):
            decl = self.reg.types.get(o.cls)
            if decl is None or attr not in decl.fields:
                raise Unsupported(f"store to undeclared field {o.cls}.{attr}")
            st.heap_set(o, attr, v)
            return
        h = getattr(o, "setattr", None)
        if h is not None:
            h(self, st, attr, v, node)
            return
        raise Unsupported(f"attribute store on {o!r}")

    def setitem(self, st, o, i, v, node):
        if isinstance(o, PList):
            if is_sym(i):
                raise Unsupported("symbolic index store into concrete list")
            self.safety(st, "IndexError", -len(o.items) <= i < len(o.items), node)
            o.items[i] = v
            st.writes.add(("list", o.uid))
            return
        if isinstance(o, SList):
            k = self.norm_index(st, o.length, i, node)
            o.arr = z3.Store(o.arr, to_z3(k), to_z3(v))
            st.writes.add(("list", o.uid))
            return
        if isinstance(o, PDict):
            if is_sym(i):
                raise Unsupported("symbolic dict key")
            o.items[i] = v
            st.writes.add(("list", o.uid))
            return
        h = getattr(o, "setitem", None)
        if h is not None:
            h(self, st, i, v, node)
            return
        raise Unsupported(f"item store on {o!r}")

    def setslice(self, st, o, lo, hi, v, node):
        h = getattr(o, "setslice", None)
        if h is not None:
            h(self, st, lo, hi, v, node)
            return
        raise Unsupported(f"slice store on {o!r}")

    def ex_If(self, st, s):
        for st1, c in self.ev(st, s.test):
            if c is RAISED:
                yield st1, st1.pending_raise
                continue
            for st2, tv in self.branch(st1, self.truth(st1, c)):
                yield from self.exec_block(st2, s.body if tv else s.orelse)

    def ex_Delete(self, st, s):
        for t in s.targets:
            if isinstance(t, ast.Subscript):
                for st1, o in self.ev(st, t.value):
                    for st2, i in self.ev(st1, t.slice):
                        if isinstance(o, PDict) and not is_sym(i):
                            if i not in o.items:
                                self.safety(st2, "KeyError", False, s)
                            else:
                                del o.items[i]
                            st2.writes.add(("list", o.uid))
                        else:
                            raise Unsupported("del")
                        st = st2
            else:
                raise Unsupported("del target")
        yield st, None

    # ---- loops -------------------------------------------------------------------------------
    def loop_ordinal(self, st, node):
        fr = st.frames[-1]
        fnode = getattr(fr, "fnode", None)
        if fnode is None:
            return None
        loops = src.loops_of(fnode)
        for k, l in enumerate(loops):
            if l is node:
                return k
        return None

    def loop_spec(self, st, node):
        """sidecar loop annotation for this loop (only for the function under verification)"""
        fr = st.frames[-1]
        if len(st.frames) != 1:
            key = (getattr(fr, "module", None), fr.func)
            con = self.reg.contracts.get(key)
        else:
            con = self.contract
        k = self.loop_ordinal(st, node)
        if con is None or k is None:
            return None, k
        return con.loops.get(k), k

    def ex_For(self, st, s):
        for st1, it in self.ev(st, s.iter):
            if isinstance(it, (PList, tuple)) and not self.loop_spec(st1, s)[0]:
                yield from self.unroll_for(st1, s, it, 0)
            elif isinstance(it, (SList, EnumView, PList, tuple)):
                yield from self.cut_for(st1, s, it)
            elif hasattr(it, "iterate"):
                yield from it.iterate(self, st1, s)
            else:
                raise Unsupported(f"iteration over {it!r}")

    def unroll_for(self, st, s, it, k):
        items = it.items if isinstance(it, PList) else it
        # iterating over a list that may grow during the loop: re-read length each time
        if k >= len(items):
            yield from self.exec_block(st, s.orelse)
            return
        if k > 4096:
            raise Unsupported("unroll limit")
        for st1 in self.assign(st, s.target, items[k]):
            for st2, out in self.exec_block(st1, s.body):
                if out is None or out[0] == "continue":
                    it2 = self._relocate(st2, it)
                    yield from self.unroll_for(st2, s, it2, k + 1)
                elif out[0] == "break":
                    yield st2, None
                else:
                    yield st2, out

    def _relocate(self, st, v):
        """find the clone of mutable v in state st"""
        if not isinstance(v, _Mut):
            return v
        idx = {}
        _index_muts(st, idx)
        return idx.get(v.uid, v)

    def cut_for(self, st, s, it):
        spec, k = self.loop_spec(st, s)
        if spec is None:
            raise Unsupported(f"loop #{k} at line {s.lineno} over a symbolic sequence has no invariant")
        base = it.base if isinstance(it, EnumView) else it
        if isinstance(base, (PList, tuple)):
            raise Unsupported("invariant-cut loop over concrete list")
        invs = [(nm, parse_expr(e)) for nm, e in _named_list(spec.get("invariant", []), "inv")]
        iname, itname = f"_i{k}", f"_it{k}"
        body_assigned = src.assigned_names(s.body) | src.assigned_names([s.target])
        fr = st.frames[-1]

        # --- init
        fr.locals[iname] = 0
        fr.locals[itname] = base
        snap = st.snapshot()
        self.loop_snap_stack.append(snap)
        try:
            for nm, e in invs:
                g = self.truth(st, self.sv(st, e))
                self.oblige(st, f"inv{k}.init", nm, g, s.lineno)

            havoc = set()
            attempt = 0
            while True:
                attempt += 1
                if attempt > 6:
                    raise PyvcError("loop write-set fixpoint did not converge")
                mark = len(self.obligations)
                pcmark = dict(self.path_counter)
                sth = st.clone()
                sth.abstraction = True
                self.havoc_loop(sth, body_assigned, havoc, fr_index=len(st.frames) - 1)
                ivar = fresh_int(f"it{k}")
                frh = sth.frames[-1]
                baseh = self._relocate(sth, base)
                frh.locals[iname] = ivar
                frh.locals[itname] = baseh
                sth.assume(zand(ivar >= 0, ivar <= baseh.length))
                for nm, e in invs:
                    sth.assume(self.truth(sth, self.sv(sth, e)))
                # iteration
                stb = sth.clone()
                bb = self._relocate(stb, base)
                stb.assume(ivar < bb.length)
                stb.writes = set()
                elem = bb.get(ivar)
                val = (ivar, elem) if isinstance(it, EnumView) else elem
                results = []
                newwrites = set()
                if self.feasible(stb, True):
                    for st1 in self.assign(stb, s.target, val):
                        for st2, out in self.exec_block(st1, s.body):
                            if out is None or out[0] == "continue":
                                newwrites |= st2.writes
                                b2 = self._relocate(st2, base)
                                if ("list", b2.uid) in st2.writes:
                                    raise Unsupported("iterated list mutated on a path that continues the loop")
                                st2.frames[-1].locals[iname] = ivar + 1
                                for nm, e in invs:
                                    g = self.truth(st2, self.sv(st2, e))
                                    self.oblige(st2, f"inv{k}.preserve", nm, g, s.lineno)
                            elif out[0] == "break":
                                st2.writes |= st.writes
                                results.append((st2, None))
                            else:
                                st2.writes |= st.writes
                                results.append((st2, out))
                extra = {w for w in newwrites if w[0] in ("heap", "list", "attr")} - havoc
                # only writes to objects that exist outside the loop body matter
                extra = {w for w in extra if self._visible_outside(st, w)}
                if extra:
                    havoc |= extra
                    del self.obligations[mark:]
                    self.path_counter = pcmark
                    continue
                break
            for r in results:
                yield r
            # exit path
            ste = sth
            be = self._relocate(ste, base)
            ste.assume(ivar == be.length)
            ste.writes = set(st.writes) | havoc
            if self.feasible(ste, True):
                yield from self.exec_block(ste, s.orelse)
        finally:
            self.loop_snap_stack.pop()

    def _visible_outside(self, st, w):
        if w[0] == "heap":
            return True
        idx = {}
        _index_muts(st, idx)
        return w[1] in idx

    def havoc_loop(self, st, names, havoc, fr_index):
        fr = st.frames[fr_index]
        for nm in names:
            if nm in fr.locals:
                fr.locals[nm] = self.havoc_value(st, fr.locals[nm], nm)
        idx = {}
        _index_muts(st, idx)
        for w in havoc:
            if w[0] == "heap":
                cls, field = w[1]
                old = st.heap_arr(cls, field)
                st.heap[w[1]] = z3.Const(fresh_name(f"H_{cls}_{field}"), old.sort())
            elif w[0] == "list":
                o = idx.get(w[1])
                if isinstance(o, SList):
                    o.length = fresh_int("len")
                    o.arr = fresh_mem("arr")
                    st.assume(o.length >= 0)
                    st.assume_existing(o)
                elif o is not None:
                    raise Unsupported("havoc of concrete list in loop")
            elif w[0] == "attr":
                o = idx.get(w[1])
                if o is not None:
                    o.attrs[w[2]] = self.havoc_value(st, o.attrs.get(w[2]), w[2])

    def havoc_value(self, st, v, nm):
        """fresh value of the same kind (loop-carried local)"""
        if v is None or isinstance(v, (str, FuncVal, ClassVal, BuiltinVal)):
            # kind may change inside the loop; keep only if never reassigned to another kind
            return v
        if isinstance(v, bool) or isinstance(v, z3.BoolRef):
            return fresh_bool(nm)
        if is_intlike(v):
            return fresh_int(nm)
        if isinstance(v, HRef):
            h = HRef(v.cls, fresh_int(nm))
            st.assume_existing(h)
            return h
        if isinstance(v, SList):
            n = SList(fresh_int(nm + "_len"), fresh_mem(nm + "_arr"), v.kind)
            st.assume(n.length >= 0)
            st.assume_existing(n)
            return n
        if isinstance(v, tuple):
            return tuple(self.havoc_value(st, x, nm) for x in v)
        raise Unsupported(f"loop-carried local `{nm}` of kind {type(v).__name__}")

    def ex_While(self, st, s):
        raise Unsupported("while loop")

    # ---- contracts at call sites ---------------------------------------------------------------
    def contract_env(self, st, con, f, args, kwargs):
        fnode = None
        try:
            fnode = src.func_node(con.relpath, con.qualname)
        except KeyError:
            pass
        if fnode is not None:
            vals = self.bind_args(fnode, f, args, kwargs, st)
        else:
            names = list(con.params.keys())
            pos = list(args)
            if f.bound_self is not None:
                pos = [f.bound_self] + pos
            vals = dict(zip(names, pos))
            vals.update(kwargs)
        return vals

    def apply_contract(self, st, con, f, args, kwargs, node):
        vals = self.contract_env(st, con, f, args, kwargs)
        self.stats["contracts_used"].add(f"{con.relpath}:{con.qualname}[{con.status}]")
        if con.status == "assumed":
            self.assumed_used.add(f"{con.relpath}:{con.qualname}")
        line = getattr(node, "lineno", None)
        fr = Frame("contract:" + con.qualname, dict(vals))
        fr.module = "<spec>"
        fr.spec = True
        # ghost arguments of the callee are taken from the caller's ghosts with the same name
        st.frames.append(fr)
        try:
            for nm, e in con.lets.items():
                fr.locals[nm] = self.sv(st, parse_expr(e))
            for nm, e in con.requires:
                g = self.truth(st, self.sv(st, parse_expr(e)))
                self.oblige(st, "pre@call", f"{con.qualname}.{nm}", g, line)
                st.assume(g)
            # termination of recursion
            if self.contract is not None and con is self.contract and con.decreases:
                m_new = self.sv(st, parse_expr(con.decreases))
                m_old = self.entry_measure
                self.oblige(st, "dec", "recursion", zand(m_old >= 0, m_new < m_old), line)
            pre = st.snapshot()
            st.abstraction = True
            # havoc
            for mexpr in con.modifies:
                self.havoc_target(st, mexpr)
            # result
            res = self.fresh_of_type(st, con.result, "ret_" + con.name) if con.result else None
            fr.locals["result"] = res
            self.old_stack.append(pre)
            try:
                raising = []
                for exc, cond in con.raises.items():
                    c = self.truth(st, self.sv(st, parse_expr(cond)))
                    raising.append((exc, c))
                for nm, e in con.ensures:
                    st.assume(self.truth(st, self.sv(st, parse_expr(e))))
            finally:
                self.old_stack.pop()
        finally:
            st.frames.pop()
        if raising:
            raise Unsupported("callee contracts with raises clauses at call sites")
        yield st, res

    def havoc_target(self, st, mexpr):
        node = parse_expr(mexpr)
        if isinstance(node, ast.Attribute):
            o = self.sv(st, node.value)
            if isinstance(o, ClassVal):
                # whole heap field of a class:  Chunk.start
                key = (o.name, node.attr)
                old = st.heap_arr(*key)
                st.heap[key] = z3.Const(fresh_name(f"H_{o.name}_{node.attr}"), old.sort())
                st.writes.add(("heap", key))
                return
            if isinstance(o, SymObj):
                cur = o.attrs.get(node.attr)
                decl = self.reg.types.get(o.cls)
                typ = decl.fields.get(node.attr) if decl else None
                if isinstance(cur, _Mut):
                    cur.stale = True
                if typ is None:
                    raise Unsupported(f"modifies of undeclared field {mexpr}")
                alts = self.fresh_of_type(st, typ, node.attr)
                o.attrs[node.attr] = alts
                st.writes.add(("attr", o.uid, node.attr))
                return
            if isinstance(o, HRef):
                key = (o.cls, node.attr)
                sort = st.heap_sorts[key]
                if sort == "bytes":
                    st.heap_set(o, node.attr, Mem(fresh_mem("mem")))
                else:
                    st.heap_set(o, node.attr, fresh_int(node.attr))
                return
        raise Unsupported(f"modifies target {mexpr}")

    def fresh_of_type(self, st, typ, name):
        """single fresh value (no alternatives); opt[...] is not allowed here"""
        alts = list(self.values_of_type(st, typ, name))
        if len(alts) != 1:
            raise Unsupported(f"type {typ} has alternatives; not usable for havoc/result")
        return alts[0](st)

    def values_of_type(self, st, typ, name):
        """yield constructors (state -> value) for each alternative shape of `typ`"""
        if typ == "int":
            yield lambda s: fresh_int(name)
        elif typ == "nat":
            def mk(s):
                v = fresh_int(name)
                s.assume(v >= 0)
                return v
            yield mk
        elif typ == "bool":
            yield lambda s: fresh_bool(name)
        elif typ == "none":
            yield lambda s: None
        elif typ.startswith("opt[") and typ.endswith("]"):
            yield lambda s: None
            yield from self.values_of_type(st, typ[4:-1], name)
        elif typ.startswith("list[") and typ.endswith("]"):
            inner = typ[5:-1]

            def mk(s, inner=inner):
                kind = "int" if inner in ("int", "nat") else ("href", inner)
                l = SList(fresh_int(name + "_len"), fresh_mem(name + "_arr"), kind)
                s.assume(l.length >= 0)
                s.assume_existing(l)
                return l
            yield mk
        elif typ == "opaque":
            yield lambda s: SymObj("opaque:" + name)
        elif typ in self.reg.types:
            decl = self.reg.types[typ]
            if decl.kind == "heap":
                def mk(s, typ=typ):
                    h = HRef(typ, fresh_int(name))
                    s.assume_existing(h)
                    return h
                yield mk
            else:
                # product of field alternatives
                fields = list(decl.fields.items())
                alts = [[]]
                for fname, ftyp in fields:
                    opts = list(self.values_of_type(st, ftyp, f"{name}_{fname}"))
                    alts = [a + [(fname, o)] for a in alts for o in opts]
                for a in alts:
                    def mk(s, a=a, typ=typ):
                        o = SymObj(typ)
                        for fname, ctor in a:
                            o.attrs[fname] = ctor(s)
                        return o
                    yield mk
        else:
            raise Unsupported(f"unknown type {typ}")

    # ------------------------------------------------------------------ verifying one function
    def initial_states(self, con):
        st0 = State()
        st0.heap_sorts = self.heap_sorts()
        names = list(con.params.items())
        alts = [[]]
        for pname, ptyp in names:
            opts = list(self.values_of_type(st0, ptyp, pname))
            alts = [a + [(pname, o)] for a in alts for o in opts]
        for a in alts:
            st = State()
            st.heap_sorts = st0.heap_sorts
            for ax in background_axioms():
                st.assume(ax)
            fr = Frame(con.qualname, {})
            fr.module = con.relpath
            try:
                fr.fnode = None if con.relpath == "<lemma>" else src.func_node(con.relpath, con.qualname)
            except KeyError:
                fr.fnode = None
            st.frames.append(fr)
            for pname, ctor in a:
                fr.locals[pname] = ctor(st)
            for gname, (gkind, arity) in con.ghost.items():
                if gkind == "pred":
                    decl = z3.Function(fresh_name(gname), *([z3.IntSort()] * arity), z3.BoolSort())
                elif gkind == "fun":
                    decl = z3.Function(fresh_name(gname), *([z3.IntSort()] * arity), z3.IntSort())
                elif gkind == "int":
                    st.ghost[gname] = fresh_int(gname)
                    continue
                else:
                    raise Unsupported("ghost kind")
                st.ghost[gname] = GhostFn(gname, decl)
            yield st

    def heap_sorts(self):
        out = {}
        for t in self.reg.types.values():
            if t.kind == "heap":
                for fname, ftyp in t.fields.items():
                    if ftyp in ("int", "nat"):
                        out[(t.name, fname)] = "int"
                    elif ftyp == "bytes":
                        out[(t.name, fname)] = "bytes"
                    elif ftyp == "bool":
                        out[(t.name, fname)] = "bool"
                    elif ftyp in self.reg.types and self.reg.types[ftyp].kind == "heap":
                        out[(t.name, fname)] = ("href", ftyp)
                    else:
                        raise Unsupported(f"heap field type {ftyp}")
        return out

    def verify_lemma(self, con):
        """a lemma: no code, requires |- ensures over the spec vocabulary"""
        self.contract = con
        self.obligations = []
        self.path_counter = {}
        for st in self.initial_states(con):
            fr = st.frames[-1]
            fr.spec = True
            for nm, e in con.lets.items():
                fr.locals[nm] = self.sv(st, parse_expr(e))
            for nm, e in con.requires:
                st.assume(self.truth(st, self.sv(st, parse_expr(e))))
            self.cover_pre = getattr(self, "cover_pre", [])
            self.cover_pre.append((con.qualname, list(st.pc)))
            self.old_stack.append(st.snapshot())
            for nm, e in con.ensures:
                self.oblige(st, "lemma", nm, self.truth(st, self.sv(st, parse_expr(e))))
            self.old_stack.pop()
        self.n_paths = 1
        return self.obligations

    def verify(self, con):
        """generate all obligations of one function under contract; returns list of Obligation"""
        if getattr(con, "is_lemma", False):
            return self.verify_lemma(con)
        self.contract = con
        self.obligations = []
        self.path_counter = {}
        fnode = src.func_node(con.relpath, con.qualname)
        n_paths = 0
        for st in self.initial_states(con):
            fr = st.frames[-1]
            # preconditions
            self.spec_frame_push(st, fr)
            for nm, e in con.lets.items():
                fr.locals[nm] = self.sv(st, parse_expr(e))
            for nm, e in con.requires:
                st.assume(self.truth(st, self.sv(st, parse_expr(e))))
            if con.decreases:
                self.entry_measure = self.sv(st, parse_expr(con.decreases))
            self.spec_frame_pop(st, fr)
            entry = st.snapshot()
            st.entry = entry
            pre_pc = list(st.pc)
            self.cover_pre = getattr(self, "cover_pre", [])
            self.cover_pre.append((con.qualname, pre_pc))
            for st1, out in self.exec_block(st, src.body_of(fnode)):
                n_paths += 1
                self.stats["paths"] += 1
                self.finish_path(st1, con, out, entry)
        self.n_paths = n_paths
        return self.obligations

    def exec_function(self, con, args, ghost=None, pre=None):
        """run the body of the real function of contract `con` from the given argument values (harness mode):
        yields (state, outcome) per path; obligations raised on the way are collected in self.obligations"""
        self.contract = con
        fnode = src.func_node(con.relpath, con.qualname)
        st = State()
        st.heap_sorts = self.heap_sorts()
        for ax in background_axioms():
            st.assume(ax)
        fr = Frame(con.qualname, dict(args))
        fr.module = con.relpath
        fr.fnode = fnode
        st.frames.append(fr)
        st.ghost.update(ghost or {})
        for f in pre or []:
            st.assume(f)
        st.entry = st.snapshot()
        yield from self.exec_block(st, src.body_of(fnode))

    def spec_frame_push(self, st, fr):
        fr._saved_spec = getattr(fr, "spec", False)
        fr.spec = True

    def spec_frame_pop(self, st, fr):
        fr.spec = fr._saved_spec

    def finish_path(self, st, con, out, entry):
        fr = st.frames[-1]
        line = None
        if out is not None and out[0] == "raise":
            exc, line = out[1], out[2]
            if exc in con.raises:
                self.old_stack.append(entry)
                self.spec_frame_push(st, fr)
                try:
                    cond = self.truth(st, self.eval_in_snapshot_direct(st, entry, parse_expr(con.raises[exc])))
                    self.oblige(st, "raises", f"{exc}.allowed", cond, line)
                    for nm, e in con.raises_ensures:
                        g = self.truth(st, self.sv(st, parse_expr(e)))
                        self.oblige(st, "rpost", nm, g, line)
                finally:
                    self.spec_frame_pop(st, fr)
                    self.old_stack.pop()
            else:
                self.oblige(st, "raises", f"{exc}.never", False, line)
            return
        if out is not None and out[0] != "return":
            raise Unsupported("break/continue outside loop")
        res = out[1] if out is not None else None
        # restore parameter names to their entry values? python semantics: ensures speaks about
        # parameters as passed (entry values) -- use old() explicitly for mutated params.
        fr.locals["result"] = res
        self.old_stack.append(entry)
        self.spec_frame_push(st, fr)
        try:
            # mandatory raises: if a raise condition held at entry the function must not return
            for exc, cond in con.raises.items():
                pass
            retline = getattr(st, "last_line", None)
            for nm, e in con.ensures:
                g = self.truth(st, self.sv(st, parse_expr(e)))
                self.oblige(st, "post", nm, g, retline)
        finally:
            self.spec_frame_pop(st, fr)
            self.old_stack.pop()

    def eval_in_snapshot_direct(self, st, snap, expr):
        self.old_stack.append(snap)
        try:
            return self.eval_in_snapshot(st, "old", expr)
        finally:
            self.old_stack.pop()


_EXC_PARENT = {
    "KeyError": "LookupError", "IndexError": "LookupError", "LookupError": "Exception", "ValueError": "Exception", "TypeError": "Exception",
    "AttributeError": "Exception", "AssertionError": "Exception", "ZeroDivisionError": "ArithmeticError", "OverflowError": "ArithmeticError",
    "ArithmeticError": "Exception", "NotImplementedError": "RuntimeError", "RecursionError": "RuntimeError", "RuntimeError": "Exception",
    "UnicodeDecodeError": "UnicodeError", "UnicodeEncodeError": "UnicodeError", "UnicodeError": "ValueError", "StopIteration": "Exception",
    "MemoryError": "Exception", "OSError": "Exception", "NameError": "Exception", "Exception": "BaseException",
}


def exc_is_a(name, caught):
    """is exception class `name` a subclass of `caught` (builtin hierarchy; classes defined elsewhere count as direct children of Exception)"""
    seen = 0
    while name is not None and seen < 10:
        if name == caught:
            return True
        name = _EXC_PARENT.get(name, "Exception" if name != "BaseException" else None)
        seen += 1
    return False


def _handler_names(t):
    if t is None:
        return None
    if isinstance(t, ast.Tuple):
        out = []
        for e in t.elts:
            out += _handler_names(e) or []
        return out
    if isinstance(t, ast.Name):
        return [t.id]
    if isinstance(t, ast.Attribute):
        return [t.attr]
    raise Unsupported("computed exception class in an except clause")


class _CatchFrame:
    def __init__(self, names, n_frames, depth):
        self.names, self.n_frames, self.depth = names, n_frames, depth
        self.events = []

    def catches(self, exc):
        return any(n is None or exc_is_a(exc, n) for n in self.names)


class EnumView:
    def __init__(self, base):
        self.base = base


class MapView:
    pass


class _NoReturn:
    pass


NO_RETURN = _NoReturn()
RAISED = _NoReturn()

SPEC_BUILTINS = {
    "forall", "exists", "implies", "iff", "ite", "forall_int", "forall_live", "align_up", "pow2", "pymod", "byte",
    "slen", "same_storage", "same_obj",
}
import builtins as _builtins

EXCEPTION_NAMES = {n for n in dir(_builtins) if isinstance(getattr(_builtins, n), type) and issubclass(getattr(_builtins, n), BaseException)}

PY_BUILTINS = {"classmethod", "staticmethod", "bytes", "len", "min", "max", "bool", "int", "range", "enumerate", "zip", "list", "tuple", "isinstance", "sum",
               "str", "type", "hasattr", "getattr", "abs", "dict", "reversed", "all", "any"}


def _named_list(lst, prefix):
    out = []
    for i, c in enumerate(lst):
        if isinstance(c, tuple):
            out.append(c)
        else:
            out.append((f"{prefix}{i}", c))
    return out


def _as_load(t):
    import copy

    n = copy.deepcopy(t)
    for x in ast.walk(n):
        if hasattr(x, "ctx"):
            x.ctx = ast.Load()
    return n


def _index_muts(st, idx):
    def walk(v):
        if isinstance(v, _Mut):
            if v.uid in idx:
                return
            idx[v.uid] = v
            if isinstance(v, SymObj):
                for x in v.attrs.values():
                    walk(x)
            elif isinstance(v, PList):
                for x in v.items:
                    walk(x)
            elif isinstance(v, PDict):
                for x in v.items.values():
                    walk(x)
        elif isinstance(v, tuple):
            for x in v:
                walk(x)
        elif isinstance(v, (FuncVal,)) and v.bound_self is not None:
            walk(v.bound_self)
        elif isinstance(v, BuiltinVal) and v.bound is not None:
            walk(v.bound)
        elif isinstance(v, Closure):
            for x in v.env.values():
                walk(x)

    for fr in st.frames:
        for v in fr.locals.values():
            walk(v)
    for v in st.ghost.values():
        walk(v)
