"""Bit-vector mode for tiny pure integer functions that use bit tricks (xobjects.context._align).

The function body (a single `return <expr>` over + - * & | ~ unary-minus, names and int literals)
is taken from /repo's current source and evaluated on 64-bit two's-complement vectors.  Under the
stated range preconditions no intermediate wraps, so the vectors agree with python's unbounded
ints (each intermediate gets a no-overflow side obligation).
"""
import ast
import z3
from . import source as src
from .core import Obligation, Unsupported

W = 64


def _ev(n, env, side):
    if isinstance(n, ast.Constant) and isinstance(n.value, int):
        return z3.BitVecVal(n.value, W)
    if isinstance(n, ast.Name):
        if n.id not in env:
            raise Unsupported(f"bvmode: name {n.id}")
        return env[n.id]
    if isinstance(n, ast.UnaryOp) and isinstance(n.op, ast.USub):
        v = _ev(n.operand, env, side)
        side.append(v != z3.BitVecVal(1 << (W - 1), W))
        return -v
    if isinstance(n, ast.UnaryOp) and isinstance(n.op, ast.Invert):
        return ~_ev(n.operand, env, side)
    if isinstance(n, ast.BinOp):
        a = _ev(n.left, env, side)
        b = _ev(n.right, env, side)
        if isinstance(n.op, ast.Add):
            side.append(z3.BVAddNoOverflow(a, b, True))
            side.append(z3.BVAddNoUnderflow(a, b))
            return a + b
        if isinstance(n.op, ast.Sub):
            side.append(z3.BVSubNoOverflow(a, b))
            side.append(z3.BVSubNoUnderflow(a, b, True))
            return a - b
        if isinstance(n.op, ast.Mult):
            side.append(z3.BVMulNoOverflow(a, b, True))
            side.append(z3.BVMulNoUnderflow(a, b))
            return a * b
        if isinstance(n.op, ast.BitAnd):
            return a & b
        if isinstance(n.op, ast.BitOr):
            return a | b
    raise Unsupported(f"bvmode: {ast.dump(n)[:80]}")


def obligations_align(relpath="xobjects/context.py", qualname="_align", props=("C04", "C12")):
    """_align(offset, alignment): for alignment a power of two in [1, 2^61] and 0 <= offset < 2^61 the result r
    satisfies  r & (a-1) == 0,  offset <= r < offset + a  (hence r = align_up(offset, a), the unique multiple
    of a in that window) and no intermediate leaves the 64-bit range."""
    fnode = src.func_node(relpath, qualname)
    body = src.body_of(fnode)
    if len(body) != 1 or not isinstance(body[0], ast.Return):
        raise Unsupported("bvmode: function body is not a single return")
    params = [a.arg for a in fnode.args.args]
    if len(params) != 2:
        raise Unsupported("bvmode: _align arity")
    x = z3.BitVec("offset", W)
    a = z3.BitVec("alignment", W)
    env = {params[0]: x, params[1]: a}
    side = []
    r = _ev(body[0].value, env, side)
    lim = z3.BitVecVal(1 << 61, W)
    pre = [a > 0, a & (a - 1) == 0, z3.ULE(a, lim), x >= 0, z3.ULT(x, lim)]
    goals = [
        ("multiple", r & (a - 1) == 0),
        ("not_below", r >= x),
        ("window", r < x + a),
    ] + [(f"no_overflow{k}", s) for k, s in enumerate(side)]
    obs = []
    for nm, g in goals:
        ob = Obligation(f"{relpath}:{qualname}#bv.{nm}", pre, g, "bv", fnode.lineno)
        ob.base = ob.name
        ob.properties = list(props)
        obs.append(ob)
    return obs
