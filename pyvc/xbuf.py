"""Abstract XBuffer for the type-layer proofs: callee contracts of the buffer primitives (proved for BufferByteArray /
BufferNumpy under C13) and of the Int64 scalar codec, over one byte map per buffer.

  XBuf            mem : Int -> Int (bytes), capacity, identity
  W8(mem, a)      the little-endian signed 64-bit word at a  (uninterpreted over the byte map; store/extensionality axioms below)
Contracts used (each call site gets `pre@call` obligations for the in-range requirement -- this is where C03's "never
writes outside" is decided):
  update_from_buffer(o, data)        requires 0 <= o, o+len(data) <= cap; bytes [o, o+len) := data; others unchanged
  update_from_xbuffer(o, src, so, n) requires both ranges in bounds; bytes [o,o+n) := src[so..so+n) (read before written)
  to_bytearray(o, n)                 requires range in bounds; fresh bytes = mem[o..o+n)
  to_nplike(o, int64, (n,))          view of n words at o (aliases later writes)
  Int64._to_buffer(buf, o, v)        requires 0 <= o, o+8 <= cap, -2^63 <= v < 2^63; W8(mem', o) = v; bytes outside [o,o+8) unchanged
  Int64._from_buffer(buf, o)         requires range in bounds; returns W8(mem, o)
  Int64._array_to_buffer(buf, o, ws) words ws[k] at o+8k;  Int64._array_from_buffer(buf, o, n): view of n words
Word axioms: W8(storeword(m,o,v), o) = v;  m1, m2 equal on [a,a+8) => W8(m1,a) = W8(m2,a)  (instantiated by `same_word`).
"""
import z3

from .core import _Mut, Unsupported, fresh_int, fresh_mem, fresh_name, is_sym, to_z3, PList

BYTES = z3.ArraySort(z3.IntSort(), z3.IntSort())
W8F = z3.Function("W8M", BYTES, z3.IntSort(), z3.IntSort())
NULLVALUE = -(2 ** 63)


def W8(mem, a):
    return W8F(mem, to_z3(a))


class ByteStr:
    """immutable bytes value: length, byte function"""

    def __init__(self, n, mem, tag=None):
        self.n, self.mem, self.tag = n, mem, tag

    def length(self, interp, st):
        return self.n

    def isinstance(self, interp, c):
        return False

    def binop(self, interp, st, op, other, reflected):
        import ast

        if isinstance(other, (bytes, bytearray)):
            m = z3.K(z3.IntSort(), z3.IntVal(0))
            for k, v in enumerate(bytes(other)):
                m = z3.Store(m, k, v)
            other = ByteStr(len(other), m, "literal")
        if isinstance(op, ast.Add) and isinstance(other, ByteStr):
            a, b = (other, self) if reflected else (self, other)
            m = fresh_mem("cat")
            x = z3.Int(fresh_name("x"))
            st.assume(z3.ForAll([x], m[x] == z3.If(x < to_z3(a.n), a.mem[x], b.mem[x - to_z3(a.n)]), patterns=[m[x]]))
            return ByteStr(a.n + b.n, m)
        if isinstance(op, ast.Mult) and self.tag == "one-zero-byte":
            k = other
            n = z3.If(to_z3(k) > 0, to_z3(k), 0) if is_sym(k) else max(k, 0)
            return ByteStr(n, z3.K(z3.IntSort(), z3.IntVal(0)), "zeros")
        return NotImplemented

    def getattr(self, interp, st, attr, node):
        if attr == "decode":
            yield st, _M(lambda i, s, a, k, n: DecodedStr(self))
            return
        raise Unsupported(f"bytes.{attr}")


class DecodedStr:
    """bytes.decode('utf8'): an abstract str; .rstrip('\\x00') keeps the description (codec axioms are applied by the harness)"""

    def __init__(self, src, stripped=False):
        self.src, self.stripped = src, stripped

    def getattr(self, interp, st, attr, node):
        if attr == "rstrip":
            def mk(i, s, a, k, n):
                if a != ["\x00"]:
                    raise Unsupported("rstrip of other characters")
                return DecodedStr(self.src, True)
            yield st, _M(mk)
            return
        raise Unsupported(f"str.{attr}")


class AbsStr:
    """an arbitrary python str value s: utf8(s) is a ByteStr of symbolic length without NUL bytes (precondition of C01)"""

    def __init__(self, name="s"):
        self.name = name
        self.n = fresh_int(name + "_utf8len")
        self.mem = fresh_mem(name + "_utf8")

    def isinstance(self, interp, c):
        cs = c if isinstance(c, tuple) else (c,)
        return any(getattr(k, "name", None) == "str" for k in cs)

    def utf8(self):
        return ByteStr(self.n, self.mem, ("utf8", self))


class _M:
    def __init__(self, fn):
        self.fn = fn

    def call(self, interp, st, args, kwargs, node):
        yield st, self.fn(interp, st, args, kwargs, node)


class FlatViewTupleIndex(Unsupported):
    pass


class WordView:
    """view of n int64 words at byte offset o of a buffer (aliases the buffer: reads use the memory at read time)"""

    def __init__(self, buf, o, n):
        self.buf, self.o, self.n = buf, o, n

    def getitem(self, interp, st, i, node):
        b = interp._relocate(st, self.buf)
        if isinstance(i, tuple):
            if len(i) != 1:
                raise FlatViewTupleIndex("1-d word view indexed with a tuple of rank != 1 (numpy raises IndexError)")
            i = i[0]
        interp.safety(st, "IndexError", z3.And(to_z3(i) >= -to_z3(self.n), to_z3(i) < to_z3(self.n)), node)
        k = z3.If(to_z3(i) < 0, to_z3(i) + to_z3(self.n), to_z3(i)) if is_sym(i) else (i if i >= 0 else i + self.n)
        return W8(b.mem, to_z3(self.o) + 8 * to_z3(k))

    def getattr(self, interp, st, attr, node):
        if attr == "reshape":
            def mk(i, s, a, k, n):
                shp = a[0] if len(a) == 1 else a
                dims = i.concrete_items(s, shp)
                return WordViewND(self.buf, self.o, list(dims), list(range(len(dims))))
            yield st, _M(mk)
            return
        raise Unsupported(f"word view .{attr}")

    def concrete_items(self, interp, st):
        if is_sym(self.n):
            raise Unsupported("unpacking a word view of symbolic length")
        b = interp._relocate(st, self.buf)
        return [W8(b.mem, to_z3(self.o) + 8 * k) for k in range(self.n)]


class WordViewND:
    """reshape(cshape).transpose(axes) of a word view: index idx addresses base index j with j[axes[k]] = idx[k] (numpy), the
    base being C-ordered over cshape"""

    def __init__(self, buf, o, cshape, axes):
        self.buf, self.o, self.cshape, self.axes = buf, o, cshape, axes

    def getattr(self, interp, st, attr, node):
        if attr == "transpose":
            def mk(i, s, a, k, n):
                ax = a[0] if len(a) == 1 else a
                ax = [int(x) for x in i.concrete_items(s, ax)]
                return WordViewND(self.buf, self.o, self.cshape, [self.axes[x] for x in ax])
            yield st, _M(mk)
            return
        raise Unsupported(f"word view .{attr}")

    def getitem(self, interp, st, i, node):
        idx = i if isinstance(i, tuple) else (i,)
        r = len(self.cshape)
        if len(idx) != r:
            raise FlatViewTupleIndex("N-d word view indexed with a tuple of another rank")
        b = interp._relocate(st, self.buf)
        j = [None] * r
        for k in range(r):
            j[self.axes[k]] = to_z3(idx[k])
        shape_now = [self.cshape[self.axes[k]] for k in range(r)]
        interp.safety(st, "IndexError", z3.And(*[z3.And(to_z3(idx[k]) >= -to_z3(shape_now[k]), to_z3(idx[k]) < to_z3(shape_now[k])) for k in range(r)]), node)
        pos = z3.IntVal(0)
        for m in range(r):
            f = z3.IntVal(1)
            for n in range(m + 1, r):
                f = f * to_z3(self.cshape[n])
            pos = pos + j[m] * f
        return W8(b.mem, to_z3(self.o) + 8 * pos)


class TypedViewND:
    """buffer.to_nplike(o, dtype, cshape) and its transposes: a typed view, C-ordered over cshape with items of w bytes; after
    transpose the k-th axis of the view is axis axes[k] of the base (numpy).  Observed: shape, strides (bytes), the address of an element."""

    def __init__(self, buf, o, w, cshape, axes):
        self.buf, self.o, self.w, self.cshape, self.axes = buf, o, w, cshape, axes

    def base_strides(self):
        r = len(self.cshape)
        out = []
        for m in range(r):
            f = self.w
            for n in range(m + 1, r):
                f = f * self.cshape[n]
            out.append(f)
        return out

    def shape(self):
        return tuple(self.cshape[a] for a in self.axes)

    def strides(self):
        bs = self.base_strides()
        return tuple(bs[a] for a in self.axes)

    def address(self, idx):
        out = self.o
        for i_, s_ in zip(idx, self.strides()):
            out = out + to_z3(i_) * s_
        return out

    def has_attr(self, attr):
        return attr in ("transpose", "shape", "strides")

    def getattr(self, interp, st, attr, node):
        if attr == "transpose":
            def mk(i, s, a, k, n):
                ax = a[0] if len(a) == 1 else a
                ax = [int(x) for x in i.concrete_items(s, ax)]
                if sorted(ax) != list(range(len(self.axes))):
                    raise Unsupported("transpose by something that is not a permutation of the axes")
                return TypedViewND(self.buf, self.o, self.w, self.cshape, [self.axes[x] for x in ax])
            yield st, _M(mk)
        elif attr == "shape":
            yield st, self.shape()
        elif attr == "strides":
            yield st, self.strides()
        else:
            raise Unsupported(f"typed view .{attr}")


class XBuf(_Mut):
    def __init__(self, name="buf", context=None):
        super().__init__()
        self.name = name
        self.mem = fresh_mem(name + "_mem")
        self.cap = fresh_int(name + "_cap")
        self.context = context
        self.allocs = []  # regions handed out during the call: (offset, size)

    def clone_mut(self, cp):
        n = XBuf.__new__(XBuf)
        n.name, n.mem, n.cap, n.context = self.name, self.mem, self.cap, self.context
        n.allocs = list(self.allocs)
        return n

    def __repr__(self):
        return f"<xbuf {self.name}#{self.uid}>"

    def equal(self, other):
        return isinstance(other, XBuf) and other.uid == self.uid

    def in_range(self, o, n):
        return z3.And(to_z3(o) >= 0, to_z3(n) >= 0, to_z3(o) + to_z3(n) <= self.cap)

    def write_bytes(self, interp, st, o, n, fbyte, node, what):
        interp.oblige(st, "pre@call", f"{what}.in_bounds", self.in_range(o, n), getattr(node, "lineno", None))
        st.assume(self.in_range(o, n))
        new = fresh_mem("m")
        x = z3.Int(fresh_name("x"))
        o_, n_ = to_z3(o), to_z3(n)
        st.assume(z3.ForAll([x], new[x] == z3.If(z3.And(o_ <= x, x < o_ + n_), fbyte(x - o_), self.mem[x]), patterns=[new[x]]))
        self.mem = new
        st.writes.add(("xbuf", self.uid))

    def write_word(self, interp, st, o, v, node, what="Int64._to_buffer"):
        interp.oblige(st, "pre@call", f"{what}.in_bounds", self.in_range(o, 8), getattr(node, "lineno", None))
        interp.oblige(st, "pre@call", f"{what}.int64_range", z3.And(to_z3(v) >= NULLVALUE, to_z3(v) < 2 ** 63), getattr(node, "lineno", None))
        st.assume(self.in_range(o, 8))
        new = fresh_mem("m")
        x = z3.Int(fresh_name("x"))
        o_ = to_z3(o)
        st.assume(z3.ForAll([x], z3.Implies(z3.Or(x < o_, x >= o_ + 8), new[x] == self.mem[x]), patterns=[new[x]]))
        st.assume(W8(new, o_) == to_z3(v))
        old = self.mem
        self.mem = new
        st.word_writes = getattr(st, "word_writes", []) + [(old, new, o_)]
        st.writes.add(("xbuf", self.uid))

    def getattr(self, interp, st, attr, node):
        if attr == "context":
            yield st, self.context
            return
        h = getattr(self, "m_" + attr, None)
        if h is None:
            raise Unsupported(f"buffer method {attr} has no contract in the type-layer model")
        yield st, _M(lambda i, s, a, k, n: h(i, s, a, k, n))

    # ---- contracts of the primitives (C13)
    def _me(self, interp, st):
        return interp._relocate(st, self)

    def m_update_from_buffer(self, interp, st, a, k, node):
        me = self._me(interp, st)
        o, data = a
        if not isinstance(data, ByteStr):
            raise Unsupported(f"update_from_buffer source {data!r}")
        me.write_bytes(interp, st, o, data.n, lambda x: data.mem[x], node, "update_from_buffer")

    def m_update_from_xbuffer(self, interp, st, a, k, node):
        me = self._me(interp, st)
        o, src, so, n = a
        src = interp._relocate(st, src)
        interp.oblige(st, "pre@call", "update_from_xbuffer.source_in_bounds", src.in_range(so, n), getattr(node, "lineno", None))
        sm, so_ = src.mem, to_z3(so)
        me.write_bytes(interp, st, o, n, lambda x: sm[x + so_], node, "update_from_xbuffer")

    def m_to_bytearray(self, interp, st, a, k, node):
        me = self._me(interp, st)
        o, n = a
        interp.oblige(st, "pre@call", "to_bytearray.in_bounds", me.in_range(o, n), getattr(node, "lineno", None))
        m = fresh_mem("ba")
        x = z3.Int(fresh_name("x"))
        st.assume(z3.ForAll([x], m[x] == me.mem[x + to_z3(o)], patterns=[m[x]]))
        return ByteStr(n, m, ("slice", me.mem, o))

    def m_to_nplike(self, interp, st, a, k, node):
        """contract of to_nplike / to_nparray (proved under C13): a typed view of the buffer's own storage at byte offset o, C-ordered over
        `shape`, items of dtype.itemsize bytes (it aliases the buffer: the result is a description of which bytes it addresses)"""
        me = self._me(interp, st)
        o, dtype, shape = a
        dims = [to_z3(x) for x in interp.concrete_items(st, shape)]
        w = None
        for st_, v in interp.getattr(st, dtype, "itemsize", node):
            w = v
        n = z3.IntVal(1)
        for d in dims:
            n = n * d
        interp.oblige(st, "pre@call", "to_nplike.in_bounds", me.in_range(o, to_z3(w) * n), getattr(node, "lineno", None))
        return TypedViewND(self, to_z3(o), to_z3(w), dims, list(range(len(dims))))

    m_to_nparray = m_to_nplike

    def m_allocate(self, interp, st, a, k, node):
        """contract of XBuffer.allocate (proved under C04): a fresh region inside the (possibly enlarged) capacity, disjoint from
        every region handed out before; existing bytes preserved"""
        me = self._me(interp, st)
        size = a[0]
        o = fresh_int("alloc")
        newcap = fresh_int("cap")
        st.assume(z3.And(o >= 0, newcap >= me.cap, o + to_z3(size) <= newcap, newcap < 2 ** 62))  # capacities < 2^62 (standing assumption)
        for (o2, n2) in me.allocs + getattr(me, "live", []):
            st.assume(z3.Or(to_z3(size) <= 0, to_z3(n2) <= 0, o + to_z3(size) <= to_z3(o2), to_z3(o2) + to_z3(n2) <= o))
        me.cap = newcap
        me.allocs.append((o, size))
        return o


def install_int64(interp, int64):
    """contracts of the Int64 codec on XBuf (NumpyScalar._to_buffer/_from_buffer/_array_*: proved relative to the numpy
    codec axiom frombuffer(tobytes(x)) = x in checks/types_vc.py group `scalar_codec`)"""
    SC = "xobjects/scalar.py"

    def only_int64(f):
        return f.bound_self is int64

    def ov_to(i, st, f, args, kwargs, node):
        if not only_int64(f):
            raise Unsupported("scalar codec of a non-Int64 scalar in the word model")
        buf, o, v = args[:3]
        i._relocate(st, buf).write_word(i, st, o, v, node)
        yield st, None

    def ov_from(i, st, f, args, kwargs, node):
        if not only_int64(f):
            raise Unsupported("scalar codec of a non-Int64 scalar in the word model")
        buf, o = args[0], (args[1] if len(args) > 1 else kwargs.get("offset", 0))
        b = i._relocate(st, buf)
        i.oblige(st, "pre@call", "Int64._from_buffer.in_bounds", b.in_range(o, 8), getattr(node, "lineno", None))
        yield st, W8(b.mem, o)

    def ov_arr_from(i, st, f, args, kwargs, node):
        buf, o, n = args
        b = i._relocate(st, buf)
        i.oblige(st, "pre@call", "Int64._array_from_buffer.in_bounds", b.in_range(o, 8 * to_z3(n)), getattr(node, "lineno", None))
        yield st, WordView(buf, o, n)

    def ov_arr_to(i, st, f, args, kwargs, node):
        buf, o, ws = args
        b = i._relocate(st, buf)
        items = i.concrete_items(st, ws)
        for k, w in enumerate(items):
            b.write_word(i, st, to_z3(o) + 8 * k, w, node, "Int64._array_to_buffer")
        yield st, None

    interp.overrides[(SC, "NumpyScalar._to_buffer")] = ov_to
    interp.overrides[(SC, "NumpyScalar._from_buffer")] = ov_from
    interp.overrides[(SC, "NumpyScalar._array_from_buffer")] = ov_arr_from
    interp.overrides[(SC, "NumpyScalar._array_to_buffer")] = ov_arr_to


def same_word(st, m1, m2, a):
    """instantiate the extensionality axiom of W8 for two memories at address a"""
    x = z3.Int(fresh_name("x"))
    a = to_z3(a)
    st.assume(z3.Implies(z3.ForAll([x], z3.Implies(z3.And(a <= x, x < a + 8), m1[x] == m2[x])), W8(m1, a) == W8(m2, a)))


def same_word_at(st, m1, a, m2, b):
    """W8 depends only on the 8 bytes it covers (copy form of the extensionality axiom)"""
    x = z3.Int(fresh_name("x"))
    a, b = to_z3(a), to_z3(b)
    st.assume(z3.Implies(z3.ForAll([x], z3.Implies(z3.And(0 <= x, x < 8), m1[a + x] == m2[b + x])), W8(m1, a) == W8(m2, b)))
