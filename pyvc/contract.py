"""Sidecar contract registry.

A contract is attached to a real function of /repo by (relpath, qualname).  Clauses are python
expressions (strings) in the spec subset; they are evaluated symbolically by the interpreter
(pyvc/interp.py, spec mode) and natively by pyvc/native.py -- one text, two evaluators.
"""


class TypeDecl:
    def __init__(self, name, kind, fields, relpath=None, bases=()):
        self.name = name
        self.kind = kind  # 'heap' | 'obj'
        self.fields = fields
        self.relpath = relpath
        self.bases = tuple(bases)


class Contract:
    def __init__(self, relpath, qualname, spec):
        self.relpath = relpath
        self.qualname = qualname
        g = lambda k, d: getattr(spec, k, d)
        self.params = g("params", {})
        self.ghost = g("ghost", {})
        self.requires = _named(g("requires", []), "pre")
        self.ensures = _named(g("ensures", []), "post")
        self.modifies = g("modifies", [])
        self.raises = g("raises", {})  # exc name -> condition expr (when it MUST/MAY raise)
        self.raises_ensures = _named(g("raises_ensures", []), "rpost")
        self.loops = g("loops", {})
        self.result = g("result", None)
        self.decreases = g("decreases", None)
        self.status = g("status", "verified")  # 'verified' | 'assumed' (interface / dependency axiom)
        self.inline = g("inline", False)
        self.properties = g("properties", [])
        self.clause_props = g("clause_props", {})  # clause name -> [property ids]
        self.lets = g("lets", {})  # name -> expr, evaluated in the pre-state, usable in clauses
        self.doc = (spec.__doc__ or "").strip()
        self.cls = qualname.split(".")[0] if "." in qualname else None
        self.name = qualname.split(".")[-1]
        self.spec_modules = g("spec_modules", [])
        self.exceptions = g("known_exceptions", {})  # obligation-name-prefix -> exception region expr


def _named(lst, prefix):
    out = []
    for i, c in enumerate(lst):
        if isinstance(c, tuple):
            out.append((c[0], c[1]))
        else:
            out.append((f"{prefix}{i}", c))
    return out


class Registry:
    def __init__(self):
        self.types = {}
        self.contracts = {}  # (relpath, qualname) -> Contract
        self.by_method = {}  # (cls, method) -> Contract
        self.spec_funcs = {}  # name -> (FunctionDef, modulename)
        self.spec_text = {}
        self.lemmas = []

    def heaptype(self, name, fields, relpath=None, bases=()):
        self.types[name] = TypeDecl(name, "heap", fields, relpath, bases)

    def objtype(self, name, fields, relpath=None, bases=()):
        self.types[name] = TypeDecl(name, "obj", fields, relpath, bases)

    def contract(self, relpath, qualname):
        def deco(spec):
            c = Contract(relpath, qualname, spec)
            self.contracts[(relpath, qualname)] = c
            if c.cls:
                self.by_method[(c.cls, c.name)] = c
            return spec

        return deco

    def lemma(self, name):
        def deco(spec):
            c = Contract("<lemma>", name, spec)
            c.is_lemma = True
            self.lemmas.append(c)
            return spec

        return deco

    def load_spec(self, path):
        import ast

        with open(path) as fh:
            text = fh.read()
        tree = ast.parse(text)
        for node in tree.body:
            if isinstance(node, ast.FunctionDef):
                self.spec_funcs[node.name] = (node, path)
        self.spec_text[path] = text

    def lookup_method(self, cls, name):
        """contract of cls.name, walking declared bases"""
        seen = set()
        todo = [cls]
        while todo:
            c = todo.pop(0)
            if c in seen:
                continue
            seen.add(c)
            if (c, name) in self.by_method:
                return self.by_method[(c, name)]
            t = self.types.get(c)
            if t:
                todo.extend(t.bases)
        return None
