"""Storage model for bytearray / 1-D int8 ndarray buffers and the numpy values copied into them (C13, and the byte
level of the type writers).  Everything here is an *assumed contract on a dependency* (python's bytearray, numpy):
named axioms, validated natively in small scope by the bounded part, never counted as proved.

  Sto      a byte storage with identity: kind 'bytearray' | 'ndarray' | 'bytes', length, mem : Int -> Int
  View     numpy slice view  base[lo:hi]  (aliases base)
  TView    typed numpy view from np.frombuffer(...).reshape(...): (base, byte offset, count, dtype, shape)
  NpVal    an arbitrary numpy array value: dtype, element count, C-order byte encoding, layout flag
AX-slice-read      bytearray/bytes:  b[a:c] (0<=a<=c<=len) is a fresh storage holding the bytes a..c;  ndarray: a view
AX-slice-write     s[a:c] = src, len(src) == c-a:  bytes a..c become src's bytes (read before written), others and len unchanged
AX-copy            x.copy(), bytearray(x): fresh storage, same bytes
AX-zeros           bytearray(n), np.zeros(n,'int8'): fresh storage, n zero bytes
AX-frombuffer      np.frombuffer(b, dtype, count, offset) is a view of bytes [offset, offset+count*itemsize) (requires them in range)
AX-np-copy/astype  np.array(v) keeps dtype and C-order content; astype(d) has dtype d, content conv_d(content), same layout
AX-np-data         `bytearray[a:c] = ndarray.data[0:k]` (k >= first-axis length) stores the C-order bytes of the array
AX-np-view-int8    v.view('int8') requires the last axis to be contiguous (else ValueError); flatten() is C-contiguous
"""
import ast
import z3

from .core import _Mut, Unsupported, fresh_int, fresh_mem, fresh_name, fresh_bool, is_sym, to_z3, BuiltinVal

AXIOMS_USED = set()


def _ax(name):
    AXIOMS_USED.add(name)


class Sto(_Mut):
    def __init__(self, kind, length, mem=None):
        super().__init__()
        self.kind = kind
        self.length_ = length
        self.mem = mem if mem is not None else fresh_mem("sto")

    def clone_mut(self, cp):
        n = Sto.__new__(Sto)
        n.kind, n.length_, n.mem = self.kind, self.length_, self.mem
        return n

    def __repr__(self):
        return f"<{self.kind}#{self.uid} len={self.length_}>"

    def length(self, interp, st):
        return self.length_

    def byte(self, x):
        return z3.Select(self.mem, to_z3(x))

    # reading a slice
    def getslice(self, interp, st, lo, hi, node):
        lo = 0 if lo is None else lo
        hi = self.length_ if hi is None else hi
        interp.safety(st, "SliceRange", z3.And(to_z3(0) <= to_z3(lo), to_z3(lo) <= to_z3(hi), to_z3(hi) <= to_z3(self.length_)), node)
        _ax("AX-slice-read")
        if self.kind == "ndarray":
            return View(self, lo, hi)
        return copy_of(st, self, lo, hi, self.kind)

    def setslice(self, interp, st, lo, hi, v, node):
        lo = 0 if lo is None else lo
        hi = self.length_ if hi is None else hi
        interp.safety(st, "SliceRange", z3.And(to_z3(0) <= to_z3(lo), to_z3(lo) <= to_z3(hi), to_z3(hi) <= to_z3(self.length_)), node)
        sl, sbyte = bytes_of(interp, st, v, node)
        interp.safety(st, "SliceAssignLength", to_z3(sl) == to_z3(hi) - to_z3(lo), node)
        _ax("AX-slice-write")
        new = fresh_mem("w")
        x = z3.Int(fresh_name("x"))
        lo_, hi_ = to_z3(lo), to_z3(hi)
        st.assume(z3.ForAll([x], new[x] == z3.If(z3.And(lo_ <= x, x < hi_), sbyte(x - lo_), self.mem[x]), patterns=[new[x]]))
        self.mem = new
        st.writes.add(("sto", self.uid))

    def getattr(self, interp, st, attr, node):
        if attr == "copy":
            yield st, _Meth(lambda i, s, a, k, n: copy_of(s, self, 0, self.length_, self.kind))
            return
        raise Unsupported(f"storage attribute .{attr}")


class View:
    def __init__(self, base, lo, hi):
        self.base, self.lo, self.hi = base, lo, hi

    def length(self, interp, st):
        return self.hi - self.lo

    def getattr(self, interp, st, attr, node):
        if attr == "copy":
            def mk(i, s, a, k, n):
                b = _reloc(i, s, self.base)
                return copy_of(s, b, self.lo, self.hi, "ndarray")
            yield st, _Meth(mk)
            return
        raise Unsupported(f"view attribute .{attr}")

    def __repr__(self):
        return f"<view of {self.base} [{self.lo}:{self.hi}]>"


class TView:
    def __init__(self, base, offset, count, dtype, shape=None):
        self.base, self.offset, self.count, self.dtype, self.shape = base, offset, count, dtype, shape

    def getattr(self, interp, st, attr, node):
        if attr == "reshape":
            def mk(i, s, a, k, n):
                return TView(self.base, self.offset, self.count, self.dtype, a[0] if len(a) == 1 else tuple(a))
            yield st, _Meth(mk)
            return
        raise Unsupported(f"typed view attribute .{attr}")


class _Meth:
    def __init__(self, fn):
        self.fn = fn

    def call(self, interp, st, args, kwargs, node):
        yield st, self.fn(interp, st, args, kwargs, node)


def _reloc(interp, st, v):
    return interp._relocate(st, v)


def copy_of(st, base, lo, hi, kind):
    _ax("AX-copy")
    n = Sto(kind, (hi - lo), fresh_mem("copy"))
    x = z3.Int(fresh_name("x"))
    st.assume(z3.ForAll([x], n.mem[x] == base.mem[x + to_z3(lo)], patterns=[n.mem[x]]))
    st.ghost[f"__sto{n.uid}"] = n
    return n


def bytes_of(interp, st, v, node):
    """(length, byte function) of a bytes-like right-hand side, evaluated in the current state (read before written)"""
    if isinstance(v, Sto):
        m = v.mem
        return v.length_, (lambda x: m[x])
    if isinstance(v, View):
        b = _reloc(interp, st, v.base)
        m, lo = b.mem, to_z3(v.lo)
        return v.hi - v.lo, (lambda x: m[x + lo])
    if isinstance(v, NpBytes):
        return v.nbytes, (lambda x: v.mem[x])
    raise Unsupported(f"bytes-like value {v!r}")


# ---------------------------------------------------------------------------------------------- numpy values
class DType:
    def __init__(self, name, itemsize):
        self.name, self.itemsize = name, itemsize

    def __repr__(self):
        return f"<dtype {self.name}>"

    def equal(self, other):
        if other is self:
            return True
        if isinstance(other, DType):
            return DTEQ(self, other)
        raise Unsupported("dtype ==")


_dteq = {}


def DTEQ(a, b):
    key = tuple(sorted((a.name, b.name)))
    if key not in _dteq:
        _dteq[key] = z3.Bool("same_dtype_" + "_".join(key))
    return _dteq[key]


CONV = {}


class NpVal:
    """numpy array value; `cmem` = its bytes in C (row-major) order, element count `size`"""

    def __init__(self, dtype, size, cmem, lastaxis_contig, c_contig=None):
        self.dtype, self.size, self.cmem = dtype, size, cmem
        self.lastaxis_contig = lastaxis_contig
        self.c_contig = c_contig

    @property
    def nbytes(self):
        return self.size * self.dtype.itemsize

    def getattr(self, interp, st, attr, node):
        if attr == "dtype":
            yield st, self.dtype
        elif attr == "nbytes":
            yield st, self.nbytes
        elif attr == "data":
            _ax("AX-np-data")
            yield st, NpData(self)
        elif attr == "astype":
            def mk(i, s, a, k, n):
                _ax("AX-np-copy/astype")
                d = k.get("dtype", a[0] if a else None)
                if not isinstance(d, DType):
                    raise Unsupported("astype target")
                key = (self.dtype.name, d.name)
                if key not in CONV:
                    CONV[key] = z3.Function(f"conv_{key[0]}_{key[1]}", z3.ArraySort(z3.IntSort(), z3.IntSort()), z3.ArraySort(z3.IntSort(), z3.IntSort()))
                return NpVal(d, self.size, CONV[key](self.cmem), self.lastaxis_contig)
            yield st, _Meth(mk)
        elif attr == "view":
            def mk(i, s, a, k, n):
                _ax("AX-np-view-int8")
                if a != ["int8"]:
                    raise Unsupported("ndarray.view of other types")
                i.safety(s, "ValueError", self.lastaxis_contig if not isinstance(self.lastaxis_contig, bool) else z3.BoolVal(self.lastaxis_contig), n)
                if self.c_contig is not True:
                    # bytes of a non C-contiguous array seen through view('int8') are in memory order, not C order
                    return NpBytes(self.nbytes, fresh_mem("memorder"))
                return NpBytes(self.nbytes, self.cmem)
            yield st, _Meth(mk)
        elif attr == "flatten":
            def mk(i, s, a, k, n):
                _ax("AX-np-view-int8")
                return NpVal(self.dtype, self.size, self.cmem, True, True)
            yield st, _Meth(mk)
        else:
            raise Unsupported(f"ndarray attribute .{attr}")


class NpBytes:
    def __init__(self, nbytes, mem):
        self.nbytes, self.mem = nbytes, mem

    def getattr(self, interp, st, attr, node):
        if attr == "nbytes":
            yield st, self.nbytes
            return
        raise Unsupported(f"int8 view attribute .{attr}")

    def length(self, interp, st):
        return self.nbytes


class NpData:
    """ndarray.data (memoryview).  d[0:k] with k >= first-axis length is the whole buffer (AX-np-data)"""

    def __init__(self, val):
        self.val = val

    def getslice(self, interp, st, lo, hi, node):
        interp.safety(st, "MemoryviewWholeSlice", z3.And(to_z3(lo) == 0, to_z3(hi) >= to_z3(self.val.size)), node)
        return NpBytes(self.val.nbytes, self.val.cmem)


def install(interp):
    """numpy / bytearray constructors used by the buffer classes"""
    def bi_bytearray(st, f, args, kw, node):
        (x,) = args
        if isinstance(x, int) or (is_sym(x) and x.is_int()):
            _ax("AX-zeros")
            s = Sto("bytearray", x, z3.K(z3.IntSort(), z3.IntVal(0)))
            st.ghost[f"__sto{s.uid}"] = s
            return s
        ln, fb = bytes_of(interp, st, x, node)
        _ax("AX-copy")
        n = Sto("bytearray", ln, fresh_mem("copy"))
        xx = z3.Int(fresh_name("x"))
        st.assume(z3.ForAll([xx], n.mem[xx] == fb(xx), patterns=[n.mem[xx]]))
        st.ghost[f"__sto{n.uid}"] = n
        return n

    def bi_np_zeros(st, f, args, kw, node):
        if kw.get("dtype") != "int8" or len(args) != 1:
            raise Unsupported("np.zeros other than (n, dtype='int8')")
        _ax("AX-zeros")
        s = Sto("ndarray", args[0], z3.K(z3.IntSort(), z3.IntVal(0)))
        st.ghost[f"__sto{s.uid}"] = s
        return s

    def bi_np_frombuffer(st, f, args, kw, node):
        _ax("AX-frombuffer")
        buf = args[0]
        dt, count, off = kw.get("dtype"), kw.get("count"), kw.get("offset", 0)
        if not isinstance(buf, Sto) or not isinstance(dt, DType):
            raise Unsupported("np.frombuffer arguments")
        interp.safety(st, "ValueError", z3.And(to_z3(off) >= 0, to_z3(count) >= 0, to_z3(off) + to_z3(count) * dt.itemsize <= to_z3(buf.length_)), node)
        return TView(buf, off, count, dt)

    def bi_np_array(st, f, args, kw, node):
        (x,) = args
        if isinstance(x, NpVal):
            _ax("AX-np-copy/astype")
            return NpVal(x.dtype, x.size, x.cmem, x.lastaxis_contig, x.c_contig)
        raise Unsupported("np.array of non-array")

    def bi_np_prod(st, f, args, kw, node):
        (x,) = args
        if isinstance(x, AbsShape):
            return x.count
        return type(interp).bi_np_prod(interp, st, f, args, kw, node)

    interp.bi_bytearray = bi_bytearray
    interp.bi_np_zeros = bi_np_zeros
    interp.bi_np_frombuffer = bi_np_frombuffer
    interp.bi_np_array = bi_np_array
    interp.bi_np_prod = bi_np_prod
    interp.extern_names = dict(getattr(interp, "extern_names", {}))
    interp.extern_names["bytearray"] = BuiltinVal("bytearray")


class AbsShape:
    """a shape tuple of unknown rank; only its product is observed"""

    star_arg = True

    def __init__(self, count):
        self.count = count
