"""Contracts for xobjects/context.py: Chunk, _align, XBuffer.{__init__, allocate, grow, free, get_free}.
Properties C04 (safety of live regions) and C12 (first-fit, accounting, coalescing, never fails)."""
from pyvc.registry import reg

CTX = "xobjects/context.py"

reg.load_spec(__file__.replace("contracts/alloc.py", "spec/alloc.py"))

reg.heaptype("Chunk", {"start": "int", "end": "int"}, relpath=CTX)
reg.heaptype("Storage", {"len": "int", "mem": "bytes"})
reg.objtype("Context", {"minimum_alignment": "int"})
reg.objtype(
    "XBuffer",
    {
        "capacity": "int",
        "chunks": "list[Chunk]",
        "default_alignment": "int",
        "grow_step": "opt[int]",
        "buffer": "Storage",
        "context": "Context",
    },
    relpath=CTX,
)

INV = [("WF", "WF(self)"), ("LiveIn", "LiveIn(self, Live)"), ("LiveSep", "LiveSep(self, Live)")]


@reg.contract(CTX, "_align")
class _align:
    """proved in bit-vector mode (pyvc/bvmode.py); used as a contract by callers"""
    params = {"offset": "int", "alignment": "int"}
    requires = [("pow2", "pow2(alignment)"), ("nonneg", "offset >= 0")]
    ensures = [("align_up", "result == align_up(offset, alignment)")]
    result = "int"
    properties = ["C04", "C12"]
    status = "verified-bv"


@reg.contract(CTX, "XBuffer._new_buffer")
class _new_buffer:
    """interface contract of the abstract method; proved for BufferNumpy/BufferByteArray in C13"""
    params = {"self": "XBuffer", "capacity": "int"}
    requires = [("nonneg", "capacity >= 0")]
    ensures = [("len", "slen(result) == capacity"), ("fresh", "not same_storage(result, self.buffer)")]
    result = "Storage"
    status = "assumed"


@reg.contract(CTX, "XBuffer.copy_to_native")
class copy_to_native:
    """interface contract of the abstract method; proved for BufferNumpy/BufferByteArray in C13"""
    params = {"self": "XBuffer", "dest": "Storage", "dest_offset": "int", "source_offset": "int", "nbytes": "int"}
    requires = [
        ("src_range", "0 <= source_offset and nbytes >= 0 and source_offset + nbytes <= slen(self.buffer)"),
        ("dst_range", "0 <= dest_offset and dest_offset + nbytes <= slen(dest)"),
        ("distinct", "not same_storage(dest, self.buffer)"),
    ]
    modifies = ["dest.mem"]
    ensures = [
        ("copied", "forall(0, nbytes, lambda x: byte(dest, dest_offset + x) == byte(self.buffer, source_offset + x))"),
        ("rest", "forall_int(lambda x: implies(x < dest_offset or x >= dest_offset + nbytes, byte(dest, x) == old(byte(dest, x))))"),
    ]
    status = "assumed"


@reg.contract(CTX, "XBuffer.grow")
class grow:
    params = {"self": "XBuffer", "capacity": "int"}
    ghost = {"Live": ("pred", 2)}
    requires = INV + [("nonneg", "capacity >= 0")]
    modifies = ["self.capacity", "self.buffer", "self.chunks", "Chunk.start", "Chunk.end"]
    ensures = INV + [
        ("cap", "self.capacity == old(self.capacity) + capacity"),
        ("bytes_kept", "bytes_kept(self, old(self.capacity), old(self.buffer))"),
        ("nonempty", "len(self.chunks) > 0"),
        ("last_end", "self.chunks[len(self.chunks) - 1].end == self.capacity"),
        ("tail", "tailfree(self) == old(tailfree(self)) + capacity"),
        # accounting, pointwise: the free bytes after growing are the old free bytes plus exactly the added range
        ("free_exact", "forall_int(lambda x: iff(infree(self, x), old(infree(self, x)) or (old(self.capacity) <= x and x < self.capacity)))"),
        ("params_kept", "self.default_alignment == old(self.default_alignment) and self.grow_step == old(self.grow_step)"),
        ("prefix_kept", "forall(0, old(len(self.chunks)), lambda i: implies(i < old(len(self.chunks)) - 1, same_obj(self.chunks[i], old(self.chunks[i])) and self.chunks[i].start == old(self.chunks[i].start) and self.chunks[i].end == old(self.chunks[i].end)))"),
        ("last_kept", "implies(old(len(self.chunks)) > 0, self.chunks[old(len(self.chunks)) - 1].start == old(self.chunks[len(self.chunks) - 1].start) and self.chunks[old(len(self.chunks)) - 1].end >= old(self.chunks[len(self.chunks) - 1].end))"),
        ("len", "len(self.chunks) >= old(len(self.chunks)) and len(self.chunks) <= old(len(self.chunks)) + 1"),
    ]
    properties = ["C04", "C12"]


@reg.contract(CTX, "XBuffer.allocate")
class allocate:
    params = {"self": "XBuffer", "size": "int", "align": "bool"}
    ghost = {"Live": ("pred", 2)}
    lets = {"a": "self.default_alignment if align else 1", "cap0": "self.capacity", "n0": "len(self.chunks)"}
    requires = INV + [("nonneg", "size >= 0")]
    modifies = ["self.capacity", "self.buffer", "self.chunks", "Chunk.start", "Chunk.end"]
    decreases = "deficit(self, size + a - 1)"
    result = "int"
    ensures = INV + [
        # ---- C04
        ("aligned", "pymod(result, a) == 0"),
        ("in_bounds", "0 <= result and result + size <= self.capacity"),
        ("cap_monotone", "self.capacity >= old(self.capacity)"),
        ("new_vs_live", "region_free_of_live(result, size, Live)"),
        ("new_vs_free", "region_free_of_chunks(self, result, size)"),
        ("bytes_kept", "bytes_kept(self, old(self.capacity), old(self.buffer))"),
        ("params_kept", "self.default_alignment == old(self.default_alignment) and self.grow_step == old(self.grow_step)"),
        # ---- C12
        ("first_fit", "forall(0, n0, lambda k: implies(old(fits(self.chunks[k], size, a)) and forall(0, k, lambda j: not old(fits(self.chunks[j], size, a))), result == old(align_up(self.chunks[k].start, a)) and self.capacity == cap0))"),
        ("grow_only_if_needed", "implies(self.capacity != cap0, forall(0, n0, lambda k: not old(fits(self.chunks[k], size, a))))"),
        # leak-freedom: every chunk that was free is still covered by one chunk, except the one that served the request, which loses
        # only padding (fewer than `a` bytes before the result) and bytes of the region handed out; what lies behind the region stays free
        ("no_leak", "forall(0, n0, lambda i: exists(0, len(self.chunks), lambda j: self.chunks[j].start <= old(self.chunks[i].start) and old(self.chunks[i].end) <= self.chunks[j].end) or (result < old(self.chunks[i].start) + a and (old(self.chunks[i].end) <= result + size or exists(0, len(self.chunks), lambda j: self.chunks[j].start <= result + size and old(self.chunks[i].end) <= self.chunks[j].end))))"),
    ]
    loops = {
        0: {
            "invariant": [
                ("nofit_before", "forall(0, _i0, lambda j: not fits(_it0[j], size, a))"),
                ("same_list", "_it0 is self.chunks"),
            ]
        }
    }
    properties = ["C04", "C12"]
    clause_props = {"first_fit": ["C12"], "grow_only_if_needed": ["C12"], "no_leak": ["C12"], "recursion": ["C12"], "nofit_before": ["C12"],
                    "aligned": ["C04"], "in_bounds": ["C04"], "new_vs_live": ["C04"], "new_vs_free": ["C04"], "bytes_kept": ["C04"]}


@reg.contract(CTX, "XBuffer.free")
class free:
    params = {"self": "XBuffer", "offset": "int", "size": "int"}
    ghost = {"Live": ("pred", 2)}
    requires = INV + [
        ("size_nonneg", "size >= 0"),
        ("in_bounds", "0 <= offset and offset + size <= self.capacity"),
        ("was_live_vs_free", "region_free_of_chunks(self, offset, size)"),
        ("was_live_vs_live", "region_free_of_live(offset, size, Live)"),
    ]
    modifies = ["self.chunks", "Chunk.start", "Chunk.end"]
    ensures = INV + [
        ("cap_kept", "self.capacity == old(self.capacity)"),
        ("buffer_kept", "same_storage(self.buffer, old(self.buffer)) and bytes_kept(self, self.capacity, old(self.buffer))"),
        ("params_kept", "self.default_alignment == old(self.default_alignment) and self.grow_step == old(self.grow_step)"),
        ("reusable", "exists(0, len(self.chunks), lambda i: self.chunks[i].start <= offset and offset + size <= self.chunks[i].end)"),
        # leak-freedom, chunk-wise: every chunk that was free is still covered by one chunk (with `reusable`: the free space afterwards
        # covers the old free space plus the freed region; that it covers nothing live is LiveSep, so what it may add is padding only)
        ("no_leak", "forall(0, old(len(self.chunks)), lambda i: exists(0, len(self.chunks), lambda j: self.chunks[j].start <= old(self.chunks[i].start) and old(self.chunks[i].end) <= self.chunks[j].end))"),
    ]
    raises = {}
    properties = ["C04", "C12"]
    # first entry = owner of the clause (DESIGN 2.8): the coalescing bookkeeping belongs to C12, C04 only shares it
    clause_props = {"reusable": ["C12"], "IndexError": ["C12"], "N_last": ["C12", "C04"], "freed_somewhere": ["C12"], "no_leak": ["C12"], "old_chunks_covered": ["C12"]}
    loops = {
        0: {"invariant": [
            ("not_found_yet", "forall(0, _i0, lambda j: offset > _it0[j].start)"),
            ("same_list", "_it0 is self.chunks"),
        ]},
        1: {"invariant": [
            # N = newchunks (merged prefix), pch = its last element, tail = _it1[_i1:] (not yet visited)
            ("N_last", "len(newchunks) >= 1 and newchunks[len(newchunks) - 1] is pch"),
            ("N_sep", "forall(0, len(newchunks), lambda i, j: implies(i < j, newchunks[i].end < newchunks[j].start))"),
            ("N_ok", "forall(0, len(newchunks), lambda j: 0 <= newchunks[j].start and newchunks[j].start <= newchunks[j].end and newchunks[j].end <= self.capacity)"),
            ("N_live", "forall_live(Live, lambda o, s: forall(0, len(newchunks), lambda j: nobyte(o, s, newchunks[j].start, newchunks[j].end)))"),
            ("tail_ok", "forall(_i1, len(_it1), lambda i: 0 <= _it1[i].start and _it1[i].start <= _it1[i].end and _it1[i].end <= self.capacity)"),
            ("tail_sorted", "forall(_i1, len(_it1), lambda i, j: implies(i < j, _it1[i].start <= _it1[j].start))"),
            ("tail_live", "forall_live(Live, lambda o, s: forall(_i1, len(_it1), lambda i: nobyte(o, s, _it1[i].start, _it1[i].end)))"),
            ("tail_after_pch", "forall(_i1, len(_it1), lambda i: pch.start <= _it1[i].start)"),
            ("tail_not_pch", "forall(_i1, len(_it1), lambda i: _it1[i] is not pch)"),
            ("tail_distinct", "forall(_i1, len(_it1), lambda i, j: implies(i < j, _it1[i] is not _it1[j]))"),
            ("old_chunks_covered", "forall(0, old(len(self.chunks)), lambda i: exists(0, len(newchunks), lambda j: newchunks[j].start <= old(self.chunks[i].start) and old(self.chunks[i].end) <= newchunks[j].end) or exists(_i1, len(_it1), lambda k: _it1[k].start <= old(self.chunks[i].start) and old(self.chunks[i].end) <= _it1[k].end))"),
            ("freed_somewhere", "exists(0, len(newchunks), lambda j: newchunks[j].start <= offset and offset + size <= newchunks[j].end) or exists(_i1, len(_it1), lambda i: _it1[i].start <= offset and offset + size <= _it1[i].end)"),
        ]},
    }


@reg.contract(CTX, "XBuffer._make_context")
class _make_context:
    """abstract; both CPU subclasses return ContextCpu() whose minimum_alignment is 1"""
    params = {"self": "XBuffer"}
    ensures = [("pow2", "pow2(result.minimum_alignment)")]
    result = "Context"
    status = "assumed"


@reg.contract(CTX, "XBuffer.__init__")
class init:
    params = {"self": "XBuffer", "capacity": "int", "context": "opt[Context]", "default_alignment": "opt[int]", "grow_step": "opt[int]"}
    ghost = {"Live": ("pred", 2)}
    requires = [
        ("cap", "capacity >= 0"),
        ("ctx", "context is None or pow2(context.minimum_alignment)"),
        ("al", "default_alignment is None or pow2(default_alignment)"),
        ("gs", "grow_step is None or grow_step > 0"),
        ("no_live", "forall_int(lambda o, s: not Live(o, s))"),
    ]
    ensures = INV + [
        ("LivePair", "LivePair(Live)"),
        ("cap", "self.capacity == capacity"),
        ("one_chunk", "len(self.chunks) == 1 and self.chunks[0].start == 0 and self.chunks[0].end == capacity"),
        ("gs", "self.grow_step == grow_step"),
        ("al", "implies(default_alignment is not None, self.default_alignment == default_alignment)"),
    ]
    properties = ["C04", "C12"]


# ---- history induction: the operation contracts re-establish the invariants for the updated set of live regions
@reg.lemma("alloc_step")
class alloc_step:
    """after allocate: Live2 = Live + {(result,size)} satisfies every invariant (so they hold after every history)"""
    params = {"self": "XBuffer", "result": "int", "size": "int"}
    ghost = {"Live": ("pred", 2), "Live2": ("pred", 2)}
    requires = INV + [
        ("LivePair", "LivePair(Live)"),
        ("in_bounds", "0 <= result and size >= 0 and result + size <= self.capacity"),
        ("new_vs_live", "region_free_of_live(result, size, Live)"),
        ("new_vs_free", "region_free_of_chunks(self, result, size)"),
        ("def", "forall_int(lambda o, s: iff(Live2(o, s), Live(o, s) or (o == result and s == size)))"),
    ]
    ensures = [("WF", "WF(self)"), ("LiveIn", "LiveIn(self, Live2)"), ("LiveSep", "LiveSep(self, Live2)"), ("LivePair", "LivePair(Live2)")]
    properties = ["C04"]


@reg.lemma("free_step")
class free_step:
    """free's precondition follows from the invariants for Live = Live2 + {(offset,size)}: a live region may be freed"""
    params = {"self": "XBuffer", "offset": "int", "size": "int"}
    ghost = {"Live": ("pred", 2), "Live2": ("pred", 2)}
    requires = [("WF", "WF(self)"), ("LiveIn", "LiveIn(self, Live)"), ("LiveSep", "LiveSep(self, Live)"), ("LivePair", "LivePair(Live)"),
                ("is_live", "Live(offset, size)"),
                ("def", "forall_int(lambda o, s: iff(Live2(o, s), Live(o, s) and not (o == offset and s == size)))")]
    ensures = [("size_nonneg", "size >= 0"), ("in_bounds", "0 <= offset and offset + size <= self.capacity"),
               ("was_live_vs_free", "region_free_of_chunks(self, offset, size)"),
               ("was_live_vs_live", "region_free_of_live(offset, size, Live2)"),
               ("LiveIn", "LiveIn(self, Live2)"), ("LiveSep", "LiveSep(self, Live2)"), ("LivePair", "LivePair(Live2)")]
    properties = ["C04"]
