"""Contracts for xobjects/capi.py (C02, C07, C15): the emitted accessor text, read as C, addresses AddrSpec(path).

The spec side (AddrSpec, written from Architecture.md / docs/architecture/types.rst, see DESIGN section 3):
    step(A, class part)            = A
    step(A, static field f)        = A + f.offset
    step(A, reference field f)     = A + W8(OBJ + A + f.offset)          (2nd and later dynamic fields: offset word)
    step(A, Ref)                   = A + W8(OBJ + A)                      (offset relative to the slot itself)
    step(A, Index of array cls)    = P                      if items are statically sized
                                   = A + W8(OBJ + P)        if items are dynamically sized (offset table)
         where P = A + D(cls) + sum_k IDX(IC+k) * s_k,
               D(cls) = 8*[size word present] + 8*ndyn + 8*rank*[ndyn>0 and rank>1]   (documented header)
               s_k    = class stride k (static shape, or rank 1)   |   W8(OBJ + A + 8 + 8*ndyn + 8*k)  (header strides)
    AddrSpec(path) = fold of step over the path from A = 0;  IC = number of indices consumed so far.

Abstract path parts ("shapes"): SymObj values whose integer attributes are solver variables constrained only by the
class-layout invariants (StructLayout / ArrayLayout, DESIGN 4.2) -- so one obligation covers every class of that shape.
"""
import itertools
import z3

from pyvc.core import SymObj, PList, ClassVal, fresh_int, fresh_bool, fresh_name, Unsupported
from pyvc.tmpl import Atom, Tmpl, CBlock
from pyvc.minic import OBJ, W8, IDX

CAPI = "xobjects/capi.py"

CONF_ATOMS = {
    "gpumem": Atom("gpumem", role="qual", default="/*gpuglmem*/"),
    "cpurestrict": Atom("cpurestrict", role="qual", default="/*restrict*/"),
    "gpufun": Atom("gpufun", role="qual", default="/*gpufun*/"),
    "inttype": Atom("inttype", role="type", sizeof=8, ends_star=False, default="int64_t"),
    "chartype": Atom("chartype", role="type", sizeof=1, ends_star=False, default="char"),
}


class ConfVal:
    """the `conf` dictionary: keys of typeutils.default_conf map to opaque atoms, other keys are absent"""

    def __init__(self, keys):
        self.keys = set(keys)

    def getattr(self, interp, st, attr, node):
        if attr == "get":
            yield st, _ConfGet(self)
            return
        raise Unsupported(f"conf.{attr}")

    def __repr__(self):
        return "<conf>"


class _ConfGet:
    def __init__(self, conf):
        self.conf = conf

    def call(self, interp, st, args, kwargs, node):
        key = args[0]
        if key in self.conf.keys:
            yield st, CONF_ATOMS[key]
        else:
            yield st, (args[1] if len(args) > 1 else None)


def closed(o, absent=()):
    o.closed = True
    o.absent = set(absent)
    return o


# ---------------------------------------------------------------------------------- part shapes
def shape_other(kind):
    o = closed(SymObj(kind, {"__name__": Atom(f"{kind}_name", role="name")}))
    return o


def shape_field(st):
    off = fresh_int("f_offset")
    isref = fresh_bool("f_is_reference")
    st.assume(off >= 0)  # StructLayout: field offsets are sums of slot sizes from 0 / header size
    f = closed(SymObj("Field", {"offset": off, "is_reference": isref, "name": Atom("fieldname", role="name")}))
    return f


def shape_ref():
    return closed(SymObj("Ref", {"__name__": Atom("RefName", role="name")}))


def array_masks():
    for rank in (1, 2, 3):
        for mask in itertools.product((False, True), repeat=rank):
            yield rank, mask


def shape_array_class(st, rank, mask, static_type=None):
    """abstract array class with the ArrayLayout invariant (postcondition of MetaArray.__new__) as assumption"""
    ndyn = sum(mask)
    static_shape = ndyn == 0
    shape = []
    for k in range(rank):
        if mask[k]:
            shape.append(None)
        else:
            d = fresh_int(f"dim{k}")
            st.assume(d >= 0)
            shape.append(d)
    ist = fresh_bool("is_static_type") if static_type is None else static_type
    D = fresh_int("data_offset")
    has_size_word = z3.Or(z3.Not(ist), z3.BoolVal(not static_shape)) if not isinstance(ist, bool) else z3.BoolVal((not ist) or (not static_shape))
    dspec = z3.If(has_size_word, 8, 0) + 8 * ndyn + (8 * rank if (ndyn > 0 and rank > 1) else 0)
    st.assume(D == dspec)
    attrs = {
        "_shape": tuple(shape),
        "_dshape_idx": PList([k for k in range(rank) if mask[k]]),
        "_data_offset": D,
        "_is_static_type": ist,
        "_is_static_shape": static_shape,
        "__name__": Atom("ArrCls", role="name"),
        "_c_type": Atom("ArrCls", role="type", ends_star=False),
        "_size": None if not static_shape else fresh_int("arr_size"),
        # the item type (every array class has one); only its size is modelled, meaningful when the items are statically sized
        "_itemtype": closed(SymObj("ItemType", {"_size": fresh_int("item_size"), "__name__": Atom("Item", role="name")})),
    }
    absent = set()
    strides = None
    if static_shape or rank == 1:
        strides = tuple(fresh_int(f"stride{k}") for k in range(rank))
        for s in strides:
            st.assume(s >= 0)
        attrs["_strides"] = strides
    else:
        absent.add("_strides")
    cls = closed(SymObj("MetaArray", attrs), absent)
    cls.spec = {"rank": rank, "mask": mask, "ndyn": ndyn, "D": dspec, "strides": strides, "ist": ist, "shape": shape}
    return cls


def shape_index(st, rank, mask):
    cls = shape_array_class(st, rank, mask)
    part = closed(SymObj("Index", {"cls": cls}))
    return part


# ---------------------------------------------------------------------------------- spec: one step of AddrSpec
def step_spec(A, IC, part):
    """(A', IC') after `part`, from the documented layout"""
    if part.cls == "Field":
        off, isref = part.attrs["offset"], part.attrs["is_reference"]
        return z3.If(isref, A + W8(OBJ + A + off), A + off), IC
    if part.cls == "Ref":
        return A + W8(OBJ + A), IC
    if part.cls == "Index":
        sp = part.attrs["cls"].spec
        rank, ndyn = sp["rank"], sp["ndyn"]
        P = A + sp["D"]
        for k in range(rank):
            if sp["strides"] is not None:
                s = sp["strides"][k]
            else:
                s = W8(OBJ + A + 8 + 8 * ndyn + 8 * k)
            P = P + IDX(IC + k) * s
        ist = sp["ist"]
        return z3.If(ist, P, A + W8(OBJ + P)), IC + rank
    return A, IC


def part_alternatives():
    """(label, constructor(st) -> part) for every shape of path part"""
    yield "class:MetaStruct", lambda st: shape_other("MetaStruct")
    yield "class:MetaArray", lambda st: shape_other("MetaArray")
    yield "class:NumpyScalar", lambda st: shape_other("NumpyScalar")
    yield "class:MetaUnionRef", lambda st: shape_other("MetaUnionRef")
    yield "field", shape_field
    yield "ref", lambda st: shape_ref()
    for rank, mask in array_masks():
        lab = "index:" + "x".join("N" if m else "s" for m in mask)
        yield lab, (lambda st, rank=rank, mask=mask: shape_index(st, rank, mask))


# ---------------------------------------------------------------------------------- last-type shapes (method generators)
def lasttype_alternatives():
    def scalar(st):
        sz = fresh_int("itemsize")
        st.assume(z3.Or(sz == 1, sz == 2, sz == 4, sz == 8))
        o = closed(SymObj("NumpyScalar", {
            "_c_type": Atom("scalar_ctype", role="type", sizeof=sz, ends_star=False),
            "_size": sz, "__name__": Atom("ScalarName", role="name")}))
        o.spec = {"kind": "scalar", "size": sz}
        return o

    def compound(kind):
        def mk(st):
            o = closed(SymObj(kind, {
                "_c_type": Atom(kind + "_ctype", role="type", ends_star=False),
                "__name__": Atom(kind + "_name", role="name"), "_size": None}))
            o.spec = {"kind": "compound"}
            return o
        return mk

    yield "scalar", scalar
    yield "struct", compound("MetaStruct")
    yield "unionref", compound("MetaUnionRef")
    yield "string", lambda st: ClassVal("String", "xobjects/string.py")
    for rank, mask in array_masks():
        lab = "array:" + "x".join("N" if m else "s" for m in mask)

        def mk(st, rank=rank, mask=mask):
            c = shape_array_class(st, rank, mask)
            c.spec["kind"] = "array"
            return c
        yield lab, mk


class AbstractPath:
    """the `path` argument: a sequence of unknown length of abstract parts; only path[-1] is fixed by the harness"""

    def __init__(self, last=None):
        self.last = last
        self.loop = None  # LoopSpec for iteration (set by the harness)

    def getitem(self, interp, st, i, node):
        if i == -1 and self.last is not None:
            return self.last
        raise Unsupported("abstract path: only path[-1] is available")

    def iterate(self, interp, st, s):
        if self.loop is None:
            raise Unsupported("iteration over the abstract path without a loop specification")
        yield from self.loop.run(interp, st, s, self)

    def __repr__(self):
        return "<abstract path>"
