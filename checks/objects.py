"""C01, C03, C05, C06, C08, C09, C10, C11: type layer (struct / array / string / ref / unionref).

Deductive part: checks/types_vc.py (obligations on the layout arithmetic and the byte-level writers/readers that each
property depends on; see that file for what is under contract).  Bounded part: checks/objects_native.py.
"""
from . import common, objects_native

DESCR = {
    "C01": "values written at construction are read back exactly",
    "C03": "an object never writes outside the bytes reserved for it",
    "C05": "object bytes follow the documented binary layout",
    "C06": "a view rebuilt from buffer and offset equals the constructed handle",
    "C08": "references alias, null and survive buffer growth",
    "C09": "copy-construction yields an equal, storage-disjoint object",
    "C10": "assigning one element changes that element and nothing else",
    "C11": "operations that cannot be honoured fail without side effects",
}


class ObjectsCheck:
    CONTRACT_MODULES = []

    def __init__(self, prop):
        self.PROP = prop
        try:
            from . import types_vc

            self.vc = types_vc
        except ImportError:
            self.vc = None
        self.NO_DEDUCTIVE = self.vc is None or not self.vc.targets(prop)
        self.LEVEL = "other" if not self.NO_DEDUCTIVE else "exploration"
        self.TRUSTED = (self.vc.TRUSTED if self.vc else []) + [
            "checks/layoutdec.py: the decoder written from the documented layout (oracle of the bounded part)"]
        self.ASSUMPTIONS = [
            "the composition over the whole type grammar (TypeContract induction of DESIGN 4.3) is not mechanised: the deductive obligations "
            "cover the listed functions; whole objects are covered by the bounded native part only",
            "strings contain no U+0000 (a NUL-terminated format cannot represent it)",
            "assumed contracts on dependencies in the array proofs: range(n) yields 0..n-1 in order; np.ndindex(*dims) yields as its k-th element the "
            "C-order digits of k (the contract of array.iter_index that the writers iterate under is itself discharged, group iter_index_contract)",
            "bounded part: grammar slice of checks/grammar.py, generated values, placements with allocation history; not exhaustive",
        ]
        self.EXPLANATION = (
            f"{prop} ({DESCR[prop]}). Deductive obligations on the functions this property depends on are listed under "
            "functions_under_contract (proved for all inputs of those functions); the property as a whole, over composed types, is decided "
            "by the bounded run-time contract check on real objects (labelled bounded)."
        )

    def targets(self):
        return self.vc.targets(self.PROP) if self.vc else []

    # The induction over the type grammar (DESIGN 4.3): TypeContract is *assumed* for inner types (abstract field / item / referent
    # types) inside each constructor's proof and must therefore be *proved* for every constructor.  This table names, per type
    # constructor and TypeContract clause, the discharged obligations that establish it; `meta_obligations` checks on every run that
    # they exist and are discharged, so the induction has no uncovered case (for the clauses this property's run contains).
    INDUCTION = {
        "scalar": {"TC2.frame": [r"NumpyScalar\._to_buffer#post\.frame_exactly_itemsize_bytes"],
                   "TC3.read": [r"NumpyScalar\._from_buffer#post\.reads_exactly_the_written_bytes", r"NumpyScalar\._from_buffer#post\.read_bytes_equal_written_encoding"]},
        "String": {"TC1.size": [r"MetaString\._inspect_args#post\.size\["], "TC2.frame": [r"MetaString\._to_buffer#post\.frame\["],
                   "TC2.bytes": [r"MetaString\._to_buffer#post\.data_bytes", r"MetaString\._to_buffer#post\.nul_terminated", r"MetaString\._to_buffer#post\.size_word"],
                   "TC3.read": [r"MetaString\._from_buffer#post\.read_range"]},
        "Ref": {"TC2.frame": [r"Ref\._to_buffer#post\.frame_slot_only"], "TC2.encoding": [r"Ref\._to_buffer#post\.(null|alias|new_object)_encoding"],
                "TC3.read": [r"Ref\._from_buffer#post\.resolves_to_target_offset", r"Ref\._from_buffer#post\.reads_back_none"]},
        "UnionRef": {"TC2.frame": [r"MetaUnionRef\._to_buffer#post\.frame_slot_only"], "TC2.encoding": [r"MetaUnionRef\._to_buffer#post\.(null|alias|new_object)_encoding"],
                     "TC3.read": [r"MetaUnionRef\._from_buffer#post\.resolves_to_target_offset", r"MetaUnionRef\._from_buffer#post\.resolves_with_recorded_member_type"]},
        "Struct": {"layout": [r"MetaStruct\.__new__#inv\d+\.preserve\.field_placed_at_running_offset", r"MetaStruct\.__new__#inv\d+\.preserve\.next_part_after_this_one"],
                   "TC2.frame": [r"Struct\._to_buffer#post\.frame_whole_object"],
                   "TC2.parts": [r"Struct\._to_buffer#post\.fields\d+_disjoint", r"Struct\._to_buffer#post\.field\d_extent_inside_object", r"Struct\._to_buffer#post\.field\d_written_at_documented_offset"],
                   "TC2.header": [r"Struct\._to_buffer#post\.size_word_after_all_writes", r"Struct\._to_buffer#post\.offset_word\d_after_all_writes"],
                   "TC3.read": [r"Struct\._from_buffer#post\.offsets_cached_for_dynamic_fields", r"Struct\._from_buffer#post\.field\d_address_is_documented"]},
        "Array": {"layout": [r"MetaArray\.__new__#post\.data_offset"], "TC1.size": [r"Array\._inspect_args#post\.size_is_slot_of_header_plus_items"],
                  "TC2.frame": [r"Array\._to_buffer#post\.frame\["],
                  "TC2.items": [r"Array\._to_buffer#inv\d+\.preserve\.item_written_at_documented_address", r"Array\._to_buffer#inv\d+\.preserve\.item_written_at_its_table_offset"],
                  "TC2.header": [r"Array\._to_buffer#inv\d+\.init\.header\.", r"Array\._to_buffer#post\.offset_table_stored_in_memory_order"],
                  "TC3.read": [r"Array\._from_buffer#post\.shape\d", r"Array\._from_buffer#post\.get_offset_is_documented_address"]},
    }

    def meta_obligations(self, all_obs):
        import re

        out = []
        for ctor, clauses in self.INDUCTION.items():
            for clause, pats in clauses.items():
                matched = []
                missing = []
                for pat in pats:
                    m = [o for o in all_obs if re.search(pat, o.name)]
                    (matched.extend(m) if m else missing.append(pat))
                if not matched:
                    continue  # none of the supporting obligations belongs to this property's run
                ok = not missing and all(o.status == "discharged" for o in matched)
                out.append({"name": f"<lemma>:TypeContract#induction.{ctor}.{clause}", "status": "discharged" if ok else "refuted",
                            "support": len(matched), "missing": missing, "undischarged": [o.name for o in matched if o.status != "discharged"][:3]})
        return out

    def bounded(self, tier, seed, focus):
        return objects_native.run(self.PROP, tier, seed)

    def find_counterexample(self, ob, seed):
        if "_cex" not in self.__dict__:
            st, r = common.isolated_call("checks.objects_native", "run", {"prop": self.PROP, "tier": "thorough", "seed": seed})
            known = [k for k in common.load_known() if k["property"] == self.PROP and k["status"] == "finding"]
            v = [x for x in (r.get("violations") if st == "ok" else [])
                 if not any(common.case_matches(k, x["case_key"]) for k in known)]
            self._cex = dict(v[0], script=REPLAY.format(prop=self.PROP)) if v else None
        return self._cex

    def reproduce_known(self, k):
        rep = k.get("repro")
        if not rep:
            return None
        import sys

        if common.REPO not in sys.path:
            sys.path.insert(0, common.REPO)
        try:
            exec(rep["code"], {})
        except AssertionError:
            return True
        except Exception as e:  # noqa
            return type(e).__name__ == rep.get("expect_exception")
        return False


REPLAY = ("import sys; sys.path.insert(0, '/verif')\nfrom checks import objects_native\n"
          "r = objects_native.run('{prop}', 'thorough', 0)\nprint(r['violations'][:1])\n")
