"""C01, C03, C05, C06, C08, C09, C10, C11: type layer (struct / array / string / ref / unionref).

Deductive part: checks/types_vc.py (obligations on the layout arithmetic and the byte-level writers/readers that each
property depends on; see that file for what is under contract).  Bounded part: checks/objects_native.py.
"""
from . import common, objects_native

DESCR = {
    "C01": "values written at construction are read back exactly",
    "C03": "an object never writes outside the bytes reserved for it",
    "C05": "object bytes follow the documented binary layout",
    "C06": "a view rebuilt from buffer and offset equals the constructed handle",
    "C08": "references alias, null and survive buffer growth",
    "C09": "copy-construction yields an equal, storage-disjoint object",
    "C10": "assigning one element changes that element and nothing else",
    "C11": "operations that cannot be honoured fail without side effects",
}


class ObjectsCheck:
    CONTRACT_MODULES = []

    def __init__(self, prop):
        self.PROP = prop
        try:
            from . import types_vc

            self.vc = types_vc
        except ImportError:
            self.vc = None
        self.NO_DEDUCTIVE = self.vc is None or not self.vc.targets(prop)
        self.LEVEL = "other" if not self.NO_DEDUCTIVE else "exploration"
        self.TRUSTED = (self.vc.TRUSTED if self.vc else []) + [
            "checks/layoutdec.py: the decoder written from the documented layout (oracle of the bounded part)"]
        self.ASSUMPTIONS = [
            "the composition over the whole type grammar (TypeContract induction of DESIGN 4.3) is not mechanised: the deductive obligations "
            "cover the listed functions; whole objects are covered by the bounded native part only",
            "strings contain no U+0000 (a NUL-terminated format cannot represent it)",
            "bounded part: grammar slice of checks/grammar.py, generated values, placements with allocation history; not exhaustive",
        ]
        self.EXPLANATION = (
            f"{prop} ({DESCR[prop]}). Deductive obligations on the functions this property depends on are listed under "
            "functions_under_contract (proved for all inputs of those functions); the property as a whole, over composed types, is decided "
            "by the bounded run-time contract check on real objects (labelled bounded)."
        )

    def targets(self):
        return self.vc.targets(self.PROP) if self.vc else []

    def bounded(self, tier, seed, focus):
        return objects_native.run(self.PROP, tier, seed)

    def find_counterexample(self, ob, seed):
        if "_cex" not in self.__dict__:
            st, r = common.isolated_call("checks.objects_native", "run", {"prop": self.PROP, "tier": "thorough", "seed": seed})
            known = [k for k in common.load_known() if k["property"] == self.PROP and k["status"] == "finding"]
            v = [x for x in (r.get("violations") if st == "ok" else [])
                 if not any(common.case_matches(k, x["case_key"]) for k in known)]
            self._cex = dict(v[0], script=REPLAY.format(prop=self.PROP)) if v else None
        return self._cex

    def reproduce_known(self, k):
        rep = k.get("repro")
        if not rep:
            return None
        import sys

        if common.REPO not in sys.path:
            sys.path.insert(0, common.REPO)
        try:
            exec(rep["code"], {})
        except AssertionError:
            return True
        except Exception as e:  # noqa
            return type(e).__name__ == rep.get("expect_exception")
        return False


REPLAY = ("import sys; sys.path.insert(0, '/verif')\nfrom checks import objects_native\n"
          "r = objects_native.run('{prop}', 'thorough', 0)\nprint(r['violations'][:1])\n")
