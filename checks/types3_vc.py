"""Deductive groups for the struct side of C20 (pickle state) and C19 (JSON form), on classes of <= 3 fields built by the real
MetaStruct.__new__ (abstract field types, TypeContract).

C20  Struct.__getstate__ returns exactly (buffer, offset); Struct.__setstate__ applied to a bare instance (what pickle makes
     with object.__new__) and such a state gives a handle with HandleInv: same buffer and offset, cached size = size word (or
     the class size), cached offsets = the offset words -- i.e. the unpickled object is "a view rebuilt from buffer and offset"
     (C06), hence usable for every read and write the view supports.  Assumed (AX-pickle, validated by the bounded part):
     pickle.loads(pickle.dumps(x)) calls __setstate__ on object.__new__(type(x)) with a copy of __getstate__() in which the
     buffer object is copied once per dump (memo) with equal bytes, capacity and free list.
C19  Struct._to_json returns a dict with exactly the field names, in declaration order, each mapped to the value read through the
     field's own type at the field's documented address (its JSON form when the value has one).  With the writer contract of
     Struct._to_buffer for dict values (group struct_small: every field written through its type from value[name]) and TC3 (read
     after write gives the value written) the struct constructor applied to that dict reproduces every field; induction over the
     type grammar as for C01.  Arrays (__iter__ is a generator) and the hybrid to_dict/from_dict stay with the bounded part.
"""
import itertools

import z3

from . import types_vc as T
from pyvc.core import SymObj, PDict, fresh_int, Unsupported, FuncVal, same_value, HARNESS_ERRORS

zb = T.zb
from pyvc import xbuf as XB

STRUCT = T.STRUCT


def _env():
    it = T.struct_env()
    it.class_home.update({"Struct": STRUCT, "NumpyScalar": "xobjects/scalar.py"})
    i64 = T.int64_scalar()
    it.extern_names.update({"Int64": i64, "object": T.ObjectBuiltin()})
    XB.install_int64(it, i64)

    def construct_Info(st, args, kwargs, node):
        o = SymObj("Info", dict(kwargs))
        o.closed = True
        yield st, o
    it.construct_Info = construct_Info
    return it


def vc_struct_state():
    obs = []
    its = []
    for n in range(1, 4):
        for pattern in itertools.product((False, True), repeat=n):
            lab = "".join("d" if d else "s" for d in pattern)
            it = _env()
            its.append(it)
            try:
                cls, F, tcs, pc = T.build_struct_class(it, pattern)
                it.obligations = []
                dyn = [k for k in range(n) if pattern[k]]
                hdr = F[dyn[0]].attrs["offset"] if dyn else None
                buf = XB.XBuf("buf")
                o = fresh_int("offset")
                pre = pc + [o >= 0, buf.cap >= 0, buf.cap < 2 ** 62]
                if dyn:
                    pre += [o + hdr + 8 <= buf.cap]
                # ---- __getstate__ of a handle
                offs = PDict({k: fresh_int(f"off{k}") for k in dyn})
                attrs = {"__class__": cls, "_buffer": buf, "_offset": o, "_size": fresh_int("size")}
                if dyn:
                    attrs["_offsets"] = offs
                handle = SymObj("instance", attrs)
                handle.closed = True
                con = T._contract(STRUCT, "Struct.__getstate__", [])
                it.contract = con
                for st, out in it.exec_function(con, {"self": handle}, pre=pre):
                    ob = lambda c, g: it.oblige(st, "post", f"{c}[{lab}]", g if not isinstance(g, bool) else z3.BoolVal(g))
                    ok = out is not None and out[0] == "return" and isinstance(out[1], tuple) and len(out[1]) == 2
                    ob("state_is_buffer_and_offset", same_value(out[1][1], o) if ok and getattr(out[1][0], "uid", None) == buf.uid else False)
                # ---- __setstate__ on a bare instance
                bare = SymObj("instance", {"__class__": cls})
                bare.closed = True
                con = T._contract(STRUCT, "Struct.__setstate__", [])
                it.contract = con
                m0 = buf.mem
                for st, out in it.exec_function(con, {"self": bare, "state": (buf, o)}, pre=pre):
                    if out is not None and out[0] == "raise":
                        it.oblige(st, "raises", f"never[{lab}]", False, out[2])
                        continue
                    h = it._relocate(st, bare)
                    b = it._relocate(st, buf)
                    ob = lambda c, g: it.oblige(st, "post", f"{c}[{lab}]", g if not isinstance(g, bool) else z3.BoolVal(g))
                    ob("buffer_and_offset", same_value(h.attrs.get("_offset"), o) if getattr(h.attrs.get("_buffer"), "uid", None) == buf.uid else False)
                    ob("buffer_not_written", z3.eq(b.mem, m0))
                    if dyn:
                        ob("size_is_the_size_word", h.attrs.get("_size") == XB.W8(b.mem, o) if h.attrs.get("_size") is not None else False)
                        ho = h.attrs.get("_offsets")
                        okd = isinstance(ho, PDict) and sorted(ho.items) == dyn
                        ob("offsets_cached_for_dynamic_fields", okd)
                        if okd:
                            for k in dyn[1:]:
                                ob(f"offset_word{k}", ho.items[k] == XB.W8(b.mem, o + F[k].attrs["offset"]))
                    else:
                        ob("size_is_the_class_size", same_value(h.attrs.get("_size"), cls.attrs["_size"]))
                    # the unpickled handle reads every field through its type at the documented address (as a view does)
                    for k in range(n):
                        want = o + (ho.items[k] if (dyn and k in dyn[1:] and okd) else F[k].attrs["offset"])
                        stq = st.clone()
                        for st2, res in it.call_function(stq, FuncVal(STRUCT, "Field.__get__", F[k]), [it._relocate(stq, h)], {}, None):
                            okr = isinstance(res, tuple) and res[0] == "view-of" and res[1] == f"T{k}"
                            it.oblige(st2, "post", f"field{k}_read_through_its_type[{lab}]", z3.BoolVal(okr))
                            if okr:
                                it.oblige(st2, "post", f"field{k}_read_address[{lab}]", res[3] == want)
            except HARNESS_ERRORS as e:
                vc_struct_state.undecided.append((lab, str(e)[:160]))
            obs += it.obligations
    vc_struct_state.interps = its
    return obs


T.group("struct_state", vc_struct_state, [(STRUCT, "Struct.__getstate__"), (STRUCT, "Struct.__setstate__"), (STRUCT, "Struct._from_buffer"), (STRUCT, "Field.__get__")], ["C20"])


def vc_struct_to_json():
    obs = []
    its = []
    for n in range(1, 4):
        for pattern in itertools.product((False, True), repeat=n):
            lab = "".join("d" if d else "s" for d in pattern)
            it = _env()
            its.append(it)
            try:
                cls, F, tcs, pc = T.build_struct_class(it, pattern)
                it.obligations = []
                dyn = [k for k in range(n) if pattern[k]]
                buf = XB.XBuf("buf")
                o = fresh_int("offset")
                offs = PDict({k: fresh_int(f"off{k}") for k in dyn})
                attrs = {"__class__": cls, "_buffer": buf, "_offset": o, "_size": fresh_int("size")}
                if dyn:
                    attrs["_offsets"] = offs
                handle = SymObj("instance", attrs)
                handle.closed = True
                pre = pc + [o >= 0, buf.cap >= 0, buf.cap < 2 ** 62]
                con = T._contract(STRUCT, "Struct._to_json", [])
                it.contract = con
                m0 = buf.mem
                for st, out in it.exec_function(con, {"self": handle}, pre=pre):
                    if out is None or out[0] != "return":
                        it.oblige(st, "raises", f"never[{lab}]", False)
                        continue
                    ob = lambda c, g: it.oblige(st, "post", f"{c}[{lab}]", g if not isinstance(g, bool) else z3.BoolVal(g))
                    d = out[1]
                    ok = isinstance(d, PDict)
                    ob("one_entry_per_field_in_declaration_order", ok and list(d.items) == [f"f{k}" for k in range(n)])
                    ob("buffer_not_written", z3.eq(it._relocate(st, buf).mem, m0))
                    if not ok:
                        continue
                    for k in range(n):
                        v = d.items.get(f"f{k}")
                        okr = isinstance(v, tuple) and v[0] == "view-of" and v[1] == f"T{k}"
                        ob(f"field{k}_value_read_through_its_type", okr)
                        if okr:
                            want = o + (offs.items[k] if k in dyn[1:] else F[k].attrs["offset"])
                            ob(f"field{k}_read_at_documented_address", v[3] == want)
            except HARNESS_ERRORS as e:
                vc_struct_to_json.undecided.append((lab, str(e)[:160]))
            obs += it.obligations
    vc_struct_to_json.interps = its
    return obs


T.group("struct_to_json", vc_struct_to_json, [(STRUCT, "Struct._to_json"), (STRUCT, "Field.__get__"), (STRUCT, "Field.get_offset")], ["C19"])


# ------------------------------------------------------------------------------------------------ Array._update (C10 / C11)
def vc_array_update():
    """Array._update through a view (only HandleInv known), value = an array-like of which only the shape is observed, or an
    integer length: when the number of items differs from the array's, ValueError is raised and nothing is written (C11: the size
    of an instance cannot change after creation); otherwise the object is rewritten by exactly one Array._to_buffer at the
    object's own (buffer, offset) with the value passed through -- whose frame is the object's extent (groups array_writer*)."""
    from contracts import capi as K
    from . import types2_vc as T2
    from pyvc.core import State

    ARR = T.ARR
    obs = []
    its = []
    for rank, mask in K.array_masks():
        if rank > 2:
            continue
        order = tuple(range(rank))
        lab = f"{'x'.join('N' if m else 's' for m in mask)}"
        it = T.new_interp()
        its.append(it)
        it.class_home.update({"Array": ARR, "NumpyScalar": "xobjects/scalar.py"})
        i64 = T.int64_scalar()
        it.extern_names = {"Int64": i64, "object": T.ObjectBuiltin()}
        XB.install_int64(it, i64)
        st0 = State()
        cls = T.array_class(st0, rank, mask, True, order)
        sp = cls.spec
        w, D, ndyn = sp["w"], sp["D"], sp["ndyn"]
        tc = T.TypeContractObj("Item", w, st0)
        item = tc.as_symobj()
        item.absent = {"_dtype", "_update"}
        cls.attrs["_itemtype"] = item
        buf = XB.XBuf("buf")
        o = fresh_int("offset")
        hdr_shape = []
        j = 0
        for k in range(rank):
            if mask[k]:
                hdr_shape.append(XB.W8(buf.mem, o + 8 + 8 * j))
                j += 1
            else:
                hdr_shape.append(sp["dims"][k])
        n_items = T.prod(hdr_shape)
        pre = list(st0.pc) + [o >= 0, buf.cap >= 0, buf.cap < 2 ** 62, o + D + w * n_items <= buf.cap] + [s >= 0 for s in hdr_shape]
        dstr = T.doc_strides(hdr_shape, order, w)
        if ndyn and rank > 1:
            pre += [XB.W8(buf.mem, o + 8 + 8 * ndyn + 8 * k) == dstr[k] for k in range(rank)]
        m0 = buf.mem

        def ov_to_buffer(i, st, f, a, k, nd):
            st.recorded = getattr(st, "recorded", []) + [("rewrite", a[0], a[1], a[2])]
            yield st, None
        it.overrides[(ARR, "Array._to_buffer")] = ov_to_buffer
        con = T._contract(ARR, "Array._from_buffer", [])
        it.contract = T._contract(ARR, "Array._update", [])
        try:
            for st, out in it.exec_function(con, {"cls": cls, "buffer": buf, "offset": o}, pre=pre):
                h = out[1]
                it.obligations = []  # HandleInv of the view belongs to group array_handle
                it.contract = T._contract(ARR, "Array._update", [])
                vshape = tuple(fresh_int(f"v{k}") for k in range(rank))
                forms = {"array_like": (T2.ShapedValue(vshape), T.prod(vshape), [s >= 0 for s in vshape])}
                nlen = fresh_int("new_length")
                forms["integer_length"] = (nlen, nlen, [])
                # an array-like of higher rank than the array (its leading extents are free to agree with the array's shape): the number of
                # items is the product over ALL its axes
                extra_dim = fresh_int("v_extra")
                forms["array_like_of_higher_rank"] = (T2.ShapedValue(vshape + (extra_dim,)), T.prod(vshape) * extra_dim, [s >= 0 for s in vshape] + [extra_dim >= 0])
                # another xobject array of the same class (any size, any buffer): only its _shape decides
                other = SymObj("instance", {"__class__": cls, "_buffer": XB.XBuf("other"), "_offset": fresh_int("other_offset"), "_size": fresh_int("other_size"),
                                            "_shape": vshape})
                other.closed = True
                other.absent = {"shape"}
                forms["same_class_array"] = (other, T.prod(vshape), [s >= 0 for s in vshape] + [other.attrs["_offset"] >= 0, other.attrs["_size"] >= 0,
                                                                                                other.attrs["_offset"] + other.attrs["_size"] <= other.attrs["_buffer"].cap])
                for form, (val, count, vpre) in forms.items():
                    for same in (True, False):
                        stq = st.clone()
                        for f_ in vpre:
                            stq.assume(f_)
                        stq.assume(count == n_items if same else count != n_items)
                        rec0 = len(getattr(stq, "recorded", []))
                        for st2, res in it.call_function(stq, FuncVal(ARR, "Array._update", it._relocate(stq, h)), [val], {}, None):
                            b = it._relocate(st2, buf)
                            ev = getattr(st2, "recorded", [])[rec0:]
                            ob = lambda c, g: it.oblige(st2, "post", f"{c}[{lab}:{form}]", g if not isinstance(g, bool) else z3.BoolVal(g))
                            if not same:
                                raised = res.__class__.__name__ == "_NoReturn"  # any error class
                                ob("different_item_count_raises", bool(raised))
                                ob("different_item_count_writes_nothing", len(ev) == 0 and z3.eq(b.mem, m0))
                                continue
                            # stated over the frame, not over the implementation: whatever the method does (rewrite through the class's
                            # writer, a byte copy, ...), it writes only into this object's own extent
                            rw = [e for e in ev if e[0] == "rewrite"]
                            ob("rewrites_only_at_its_own_buffer_and_offset",
                               z3.And(*[zb(same_value(e[2], o)) for e in rw]) if all(getattr(e[1], "uid", None) == buf.uid for e in rw) else False)
                            ob("value_passed_through", all(e[3] is val or same_value(e[3], val) is True for e in rw))
                            ext = D + w * n_items
                            ob("nothing_outside_the_object_written", T.forall_x(lambda x: z3.Implies(z3.Or(x < o, x >= o + ext), b.mem[x] == m0[x])))
        except HARNESS_ERRORS as e:
            vc_array_update.undecided.append((lab, str(e)[:160]))
        obs += it.obligations
    vc_array_update.interps = its
    return obs


T.group("array_update", vc_array_update, [(T.ARR, "Array._update"), (T.ARR, "Array.__len__"), (T.ARR, "get_shape_from_array"), ("xobjects/typeutils.py", "is_integer")], ["C10", "C11"])


# ------------------------------------------------------------------------------------------------ Array.to_nplike / to_nparray
def vc_array_to_nplike():
    """Array.to_nplike / Array.to_nparray on a view (only HandleInv known), arrays of numbers, rank 1..3 x every axis order x every
    static/dynamic mask: the result is the buffer's typed view (contract of the buffer primitive, C13) whose shape is the array's
    shape, whose element idx -- for every in-range idx -- is the item at the documented address o + D + sum idx_k * stride_k (so the
    result aliases the items index by index), the requested range lies inside the buffer, and the method's internal assertion
    (strides of the result == strides of the handle) never fails."""
    from contracts import capi as K
    from pyvc.core import State

    ARR = T.ARR
    obs = []
    its = []
    for fname in ("to_nplike", "to_nparray"):
        for rank, mask in K.array_masks():
            for order in T.perms(rank):
                lab = f"{'x'.join('N' if m else 's' for m in mask)}:order{''.join(map(str, order))}"
                it = T.new_interp()
                its.append(it)
                it.class_home.update({"Array": ARR, "NumpyScalar": "xobjects/scalar.py"})
                i64 = T.int64_scalar()
                it.extern_names = {"Int64": i64, "object": T.ObjectBuiltin()}
                XB.install_int64(it, i64)
                st0 = State()
                cls = T.array_class(st0, rank, mask, True, order)
                sp = cls.spec
                w, D, ndyn = sp["w"], sp["D"], sp["ndyn"]
                dt = SymObj("dtype", {"itemsize": w})
                dt.closed = True
                cls.attrs["_itemtype"].attrs["_dtype"] = dt
                buf = XB.XBuf("buf")
                o = fresh_int("offset")
                hdr_shape = []
                j = 0
                for k in range(rank):
                    if mask[k]:
                        hdr_shape.append(XB.W8(buf.mem, o + 8 + 8 * j))
                        j += 1
                    else:
                        hdr_shape.append(sp["dims"][k])
                n_items = T.prod(hdr_shape)
                dstr = T.doc_strides(hdr_shape, order, w)
                # HandleInv side conditions: the object (header + items) lies inside the buffer; the header strides are the documented ones
                pre = list(st0.pc) + [o >= 0, buf.cap >= 0, buf.cap < 2 ** 62, o + D + w * n_items <= buf.cap] + [s_ >= 0 for s_ in hdr_shape]
                if ndyn and rank > 1:
                    pre += [XB.W8(buf.mem, o + 8 + 8 * ndyn + 8 * k) == dstr[k] for k in range(rank)]
                con = T._contract(ARR, "Array._from_buffer", [])
                try:
                    for st, out in it.exec_function(con, {"cls": cls, "buffer": buf, "offset": o}, pre=pre):
                        h = out[1]
                        it.obligations = []  # HandleInv of the view belongs to group array_handle
                        it.contract = T._contract(ARR, f"Array.{fname}", [])
                        for st2, res in it.call_function(st, FuncVal(ARR, f"Array.{fname}", it._relocate(st, h)), [], {}, None):
                            ob = lambda c, g: it.oblige(st2, "post", f"{c}[{lab}]", g if not isinstance(g, bool) else z3.BoolVal(g))
                            if res.__class__.__name__ == "_NoReturn":
                                pr = getattr(st2, "pending_raise", None)
                                it.oblige(st2, "raises", f"never[{lab}]", False, pr[2] if pr else None)
                                continue
                            ok = isinstance(res, XB.TypedViewND)
                            ob("returns_a_view_of_the_buffer", bool(ok and res.buf.uid == buf.uid))
                            if not ok:
                                continue
                            ob("shape_is_the_array_shape", z3.And(*[a_ == b_ for a_, b_ in zip(res.shape(), hdr_shape)]) if len(res.shape()) == rank else False)
                            qs = [fresh_int(f"q{k}") for k in range(rank)]
                            inr = z3.And(*[z3.And(0 <= q, q < s_) for q, s_ in zip(qs, hdr_shape)])
                            doc = o + D + sum((q * s_ for q, s_ in zip(qs, dstr)), z3.IntVal(0))
                            ob("element_is_the_item_at_the_documented_address", z3.Implies(inr, res.address(qs) == doc))
                            ob("items_have_the_item_size", res.w == w)
                except HARNESS_ERRORS as e:
                    vc_array_to_nplike.undecided.append((f"{fname}:{lab}", str(e)[:160]))
                obs += it.obligations
    vc_array_to_nplike.interps = its
    return obs


T.group("array_to_nplike", vc_array_to_nplike, [(T.ARR, "Array.to_nplike"), (T.ARR, "Array.to_nparray")], ["C01", "C06"])


# ------------------------------------------------------------------------------------------------ Array._to_json, one-dimensional (C19)
def vc_array_to_json():
    """Array._to_json on a one-dimensional, reference-free array seen through a view: the list it returns has one entry per item,
    in index order, the j-th entry being the item read through the item type at the documented address of item j (static items:
    data offset + j * item size; dynamic items: the j-th word of the offset table).  `for v in self` uses python's sequence
    protocol (Array defines no __iter__): __getitem__(0), __getitem__(1), ... until IndexError -- assumed; that __getitem__ raises
    exactly for the first index outside the shape is group array_handle.  With the array writer's contract for list values
    (groups array_writer*) the constructor applied to this list reproduces every item."""
    from pyvc.core import _Mut, State, to_z3
    from pyvc.core import fresh_name
    from .sortclasses_vc import LoopSpecX

    ARR = T.ARR
    I = z3.IntSort()

    class OutList(_Mut):
        """`out`: a list of item reads, represented by the addresses read"""

        def __init__(self):
            super().__init__()
            self.n, self.arr = z3.IntVal(0), z3.K(I, z3.IntVal(0))
            self.bad = False

        def clone_mut(self, cp):
            c = OutList.__new__(OutList)
            c.n, c.arr, c.bad = self.n, self.arr, self.bad
            return c

        def getattr(self, interp, st, attr, node):
            if attr != "append":
                raise Unsupported(f"out.{attr}")

            def app(i, s, a, k, n):
                me = i._relocate(s, self)
                v = a[0]
                if isinstance(v, tuple) and len(v) == 3 and v[0] == "result-of" and v[1] == "item._from_buffer":
                    me.arr = z3.Store(me.arr, me.n, to_z3(v[2][1]))
                else:
                    me.bad = True  # something else than the item read through its type was stored
                me.n = me.n + 1
            yield st, T.XB._M(app)

    obs = []
    its = []
    for dyn_dim in (False, True):
        for static_items in (True, False):
            lab = f"{'N' if dyn_dim else 's'}:{'static' if static_items else 'dynamic'}_items"
            it = T.new_interp()
            its.append(it)
            it.class_home.update({"Array": ARR, "NumpyScalar": "xobjects/scalar.py"})
            i64 = T.int64_scalar()
            it.extern_names = {"Int64": i64, "object": T.ObjectBuiltin()}
            XB.install_int64(it, i64)
            st0 = State()
            cls = T.array_class(st0, 1, (dyn_dim,), static_items, [0])
            cls.attrs["_has_refs"] = False
            sp = cls.spec
            w, D = sp["w"], sp["D"]
            buf = XB.XBuf("buf")
            o = fresh_int("offset")
            N = XB.W8(buf.mem, o + 8) if dyn_dim else sp["dims"][0]
            pre = list(st0.pc) + [o >= 0, buf.cap >= 0, N >= 0, o + D + (8 * N if not static_items else 0) <= buf.cap]
            m0 = buf.mem

            def addr(j, buf=buf, o=o, D=D, w=w, static_items=static_items):
                return o + D + j * w if static_items else o + XB.W8(buf.mem, o + D + 8 * j)
            holder = {}

            def ev_List(st, n, holder=holder):
                if n.elts:
                    raise Unsupported("non-empty list literal")
                lst = OutList()
                holder["out"] = lst
                yield st, lst

            def inv(st, K, holder=holder, addr=addr):
                out = it._relocate(st, holder["out"])
                j = z3.Int(fresh_name("j"))
                return [("one_entry_per_visited_item", out.n == K),
                        ("entries_are_the_items_in_index_order", z3.ForAll([j], z3.Implies(z3.And(0 <= j, j < K), out.arr[j] == addr(j))))]

            def L_init(interp, st, k, node):
                for nm, f in inv(st, z3.IntVal(0)):
                    interp.oblige(st, f"inv{k}.init", f"{nm}[{lab}]", f, node.lineno)

            def L_head(interp, st, holder=holder, N=N):
                out = it._relocate(st, holder["out"])
                K = fresh_int("visited")
                out.n, out.arr = fresh_int("n_out"), z3.Array(fresh_name("out"), I, I)
                st.assume(z3.And(0 <= K, K <= N))
                for nm, f in inv(st, K):
                    st.assume(f)
                return {"K": K}

            def L_alts(holder=holder, N=N):
                def mk(st):
                    K = st.ghost["__loop_ghost"]["K"]
                    st.assume(K < N)  # __getitem__(K) did not raise: K is inside the shape (group array_handle)
                    hh = it._relocate(st, holder["handle"])
                    outs = [(s2, r) for s2, r in it.call_function(st, T.FuncVal(ARR, "Array.__getitem__", hh), [K], {}, None) if r.__class__.__name__ != "_NoReturn"]
                    if len(outs) != 1 or outs[0][0] is not st:
                        raise Unsupported("__getitem__ forked for an index inside the shape")
                    return outs[0][1]
                yield "next_item", mk

            def L_pres(interp, st, g, label, elem, k, node, holder=holder):
                for nm, f in inv(st, g["K"] + 1):
                    interp.oblige(st, f"inv{k}.preserve", f"{nm}[{lab}]", f, node.lineno)
                interp.oblige(st, f"inv{k}.preserve", f"entries_are_item_reads[{lab}]", z3.BoolVal(not it._relocate(st, holder["out"]).bad), node.lineno)

            def L_exit(interp, st, g, N=N):
                st.assume(g["K"] == N)  # the sequence protocol stops at the first IndexError: index N

            loop = LoopSpecX(L_init, L_head, L_alts, L_pres, L_exit)
            con = T._contract(ARR, "Array._from_buffer", [])
            try:
                for st, out in it.exec_function(con, {"cls": cls, "buffer": buf, "offset": o}, pre=pre):
                    h = out[1]
                    h.iterate = lambda interp, st_, s, loop=loop, h=h: loop.run(interp, st_, s, h)
                    holder["handle"] = h
                    it.obligations = []
                    it.ev_List = ev_List  # from here on `[]` is the result list of _to_json
                    it.contract = T._contract(ARR, "Array._to_json", [])
                    for st2, res in it.call_function(st.clone(), T.FuncVal(ARR, "Array._to_json", it._relocate(st, h)), [], {}, None):
                        ob = lambda c, g: it.oblige(st2, "post", f"{c}[{lab}]", g if not isinstance(g, bool) else z3.BoolVal(g))
                        ok = isinstance(res, OutList)
                        ob("returns_the_list", ok)
                        if ok:
                            r = it._relocate(st2, res)
                            j = z3.Int(fresh_name("j"))
                            ob("one_entry_per_item", r.n == N)
                            ob("entry_j_is_item_j_read_at_its_documented_address", z3.ForAll([j], z3.Implies(z3.And(0 <= j, j < N), r.arr[j] == addr(j))))
                            ob("buffer_not_written", z3.eq(it._relocate(st2, buf).mem, m0))
            except HARNESS_ERRORS as e:
                vc_array_to_json.undecided.append((lab, f"{type(e).__name__}: {e}"[:160]))
            obs += it.obligations
    vc_array_to_json.interps = its
    return obs


T.group("array_to_json", vc_array_to_json, [(T.ARR, "Array._to_json"), (T.ARR, "Array.__getitem__"), (T.ARR, "Array._get_offset")], ["C19"])
