"""Deductive groups for the struct side of C20 (pickle state) and C19 (JSON form), on classes of <= 3 fields built by the real
MetaStruct.__new__ (abstract field types, TypeContract).

C20  Struct.__getstate__ returns exactly (buffer, offset); Struct.__setstate__ applied to a bare instance (what pickle makes
     with object.__new__) and such a state gives a handle with HandleInv: same buffer and offset, cached size = size word (or
     the class size), cached offsets = the offset words -- i.e. the unpickled object is "a view rebuilt from buffer and offset"
     (C06), hence usable for every read and write the view supports.  Assumed (AX-pickle, validated by the bounded part):
     pickle.loads(pickle.dumps(x)) calls __setstate__ on object.__new__(type(x)) with a copy of __getstate__() in which the
     buffer object is copied once per dump (memo) with equal bytes, capacity and free list.
C19  Struct._to_json returns a dict with exactly the field names, in declaration order, each mapped to the value read through the
     field's own type at the field's documented address (its JSON form when the value has one).  With the writer contract of
     Struct._to_buffer for dict values (group struct_small: every field written through its type from value[name]) and TC3 (read
     after write gives the value written) the struct constructor applied to that dict reproduces every field; induction over the
     type grammar as for C01.  Arrays (__iter__ is a generator) and the hybrid to_dict/from_dict stay with the bounded part.
"""
import itertools

import z3

from . import types_vc as T
from pyvc.core import SymObj, PDict, fresh_int, Unsupported, FuncVal, same_value
from pyvc import xbuf as XB

STRUCT = T.STRUCT


def _env():
    it = T.struct_env()
    it.class_home.update({"Struct": STRUCT, "NumpyScalar": "xobjects/scalar.py"})
    i64 = T.int64_scalar()
    it.extern_names.update({"Int64": i64, "object": T.ObjectBuiltin()})
    XB.install_int64(it, i64)

    def construct_Info(st, args, kwargs, node):
        o = SymObj("Info", dict(kwargs))
        o.closed = True
        yield st, o
    it.construct_Info = construct_Info
    return it


def vc_struct_state():
    obs = []
    its = []
    for n in range(1, 4):
        for pattern in itertools.product((False, True), repeat=n):
            lab = "".join("d" if d else "s" for d in pattern)
            it = _env()
            its.append(it)
            try:
                cls, F, tcs, pc = T.build_struct_class(it, pattern)
                it.obligations = []
                dyn = [k for k in range(n) if pattern[k]]
                hdr = F[dyn[0]].attrs["offset"] if dyn else None
                buf = XB.XBuf("buf")
                o = fresh_int("offset")
                pre = pc + [o >= 0, buf.cap >= 0, buf.cap < 2 ** 62]
                if dyn:
                    pre += [o + hdr + 8 <= buf.cap]
                # ---- __getstate__ of a handle
                offs = PDict({k: fresh_int(f"off{k}") for k in dyn})
                attrs = {"__class__": cls, "_buffer": buf, "_offset": o, "_size": fresh_int("size")}
                if dyn:
                    attrs["_offsets"] = offs
                handle = SymObj("instance", attrs)
                handle.closed = True
                con = T._contract(STRUCT, "Struct.__getstate__", [])
                it.contract = con
                for st, out in it.exec_function(con, {"self": handle}, pre=pre):
                    ob = lambda c, g: it.oblige(st, "post", f"{c}[{lab}]", g if not isinstance(g, bool) else z3.BoolVal(g))
                    ok = out is not None and out[0] == "return" and isinstance(out[1], tuple) and len(out[1]) == 2
                    ob("state_is_buffer_and_offset", same_value(out[1][1], o) if ok and getattr(out[1][0], "uid", None) == buf.uid else False)
                # ---- __setstate__ on a bare instance
                bare = SymObj("instance", {"__class__": cls})
                bare.closed = True
                con = T._contract(STRUCT, "Struct.__setstate__", [])
                it.contract = con
                m0 = buf.mem
                for st, out in it.exec_function(con, {"self": bare, "state": (buf, o)}, pre=pre):
                    if out is not None and out[0] == "raise":
                        it.oblige(st, "raises", f"never[{lab}]", False, out[2])
                        continue
                    h = it._relocate(st, bare)
                    b = it._relocate(st, buf)
                    ob = lambda c, g: it.oblige(st, "post", f"{c}[{lab}]", g if not isinstance(g, bool) else z3.BoolVal(g))
                    ob("buffer_and_offset", same_value(h.attrs.get("_offset"), o) if getattr(h.attrs.get("_buffer"), "uid", None) == buf.uid else False)
                    ob("buffer_not_written", z3.eq(b.mem, m0))
                    if dyn:
                        ob("size_is_the_size_word", h.attrs.get("_size") == XB.W8(b.mem, o) if h.attrs.get("_size") is not None else False)
                        ho = h.attrs.get("_offsets")
                        okd = isinstance(ho, PDict) and sorted(ho.items) == dyn
                        ob("offsets_cached_for_dynamic_fields", okd)
                        if okd:
                            for k in dyn[1:]:
                                ob(f"offset_word{k}", ho.items[k] == XB.W8(b.mem, o + F[k].attrs["offset"]))
                    else:
                        ob("size_is_the_class_size", same_value(h.attrs.get("_size"), cls.attrs["_size"]))
                    # the unpickled handle reads every field through its type at the documented address (as a view does)
                    for k in range(n):
                        want = o + (ho.items[k] if (dyn and k in dyn[1:] and okd) else F[k].attrs["offset"])
                        stq = st.clone()
                        for st2, res in it.call_function(stq, FuncVal(STRUCT, "Field.__get__", F[k]), [it._relocate(stq, h)], {}, None):
                            okr = isinstance(res, tuple) and res[0] == "view-of" and res[1] == f"T{k}"
                            it.oblige(st2, "post", f"field{k}_read_through_its_type[{lab}]", z3.BoolVal(okr))
                            if okr:
                                it.oblige(st2, "post", f"field{k}_read_address[{lab}]", res[3] == want)
            except Unsupported as e:
                vc_struct_state.undecided.append((lab, str(e)[:160]))
            obs += it.obligations
    vc_struct_state.interps = its
    return obs


T.group("struct_state", vc_struct_state, [(STRUCT, "Struct.__getstate__"), (STRUCT, "Struct.__setstate__"), (STRUCT, "Struct._from_buffer"), (STRUCT, "Field.__get__")], ["C20"])


def vc_struct_to_json():
    obs = []
    its = []
    for n in range(1, 4):
        for pattern in itertools.product((False, True), repeat=n):
            lab = "".join("d" if d else "s" for d in pattern)
            it = _env()
            its.append(it)
            try:
                cls, F, tcs, pc = T.build_struct_class(it, pattern)
                it.obligations = []
                dyn = [k for k in range(n) if pattern[k]]
                buf = XB.XBuf("buf")
                o = fresh_int("offset")
                offs = PDict({k: fresh_int(f"off{k}") for k in dyn})
                attrs = {"__class__": cls, "_buffer": buf, "_offset": o, "_size": fresh_int("size")}
                if dyn:
                    attrs["_offsets"] = offs
                handle = SymObj("instance", attrs)
                handle.closed = True
                pre = pc + [o >= 0, buf.cap >= 0, buf.cap < 2 ** 62]
                con = T._contract(STRUCT, "Struct._to_json", [])
                it.contract = con
                m0 = buf.mem
                for st, out in it.exec_function(con, {"self": handle}, pre=pre):
                    if out is None or out[0] != "return":
                        it.oblige(st, "raises", f"never[{lab}]", False)
                        continue
                    ob = lambda c, g: it.oblige(st, "post", f"{c}[{lab}]", g if not isinstance(g, bool) else z3.BoolVal(g))
                    d = out[1]
                    ok = isinstance(d, PDict)
                    ob("one_entry_per_field_in_declaration_order", ok and list(d.items) == [f"f{k}" for k in range(n)])
                    ob("buffer_not_written", z3.eq(it._relocate(st, buf).mem, m0))
                    if not ok:
                        continue
                    for k in range(n):
                        v = d.items.get(f"f{k}")
                        okr = isinstance(v, tuple) and v[0] == "view-of" and v[1] == f"T{k}"
                        ob(f"field{k}_value_read_through_its_type", okr)
                        if okr:
                            want = o + (offs.items[k] if k in dyn[1:] else F[k].attrs["offset"])
                            ob(f"field{k}_read_at_documented_address", v[3] == want)
            except Unsupported as e:
                vc_struct_to_json.undecided.append((lab, str(e)[:160]))
            obs += it.obligations
    vc_struct_to_json.interps = its
    return obs


T.group("struct_to_json", vc_struct_to_json, [(STRUCT, "Struct._to_json"), (STRUCT, "Field.__get__"), (STRUCT, "Field.get_offset")], ["C19"])
