"""Deductive part for xobjects/capi.py: symbolic execution of the real generator functions with template
strings, C semantics of the emitted text (pyvc/minic.py), obligations against AddrSpec (contracts/capi.py).

Functions under contract
  gen_method_offset          loop invariant over the abstract path, one `preserve` obligation per part shape
  gen_method_get/set/getp/len/typeid/member/size   callee contract of gen_method_offset, post on the emitted function
  int_from_obj, Field_get_c_offset, Ref_get_c_offset, Index_get_c_offset, gen_c_pointed, gen_pointer,
  gen_c_type_from_arg, gen_c_size_from_arg, is_compound, is_scalar/is_string/...   inlined from current source
Assumed (trusted) here: gen_fun_kernel / gen_c_decl_from_kernel (declaration line; its index-argument numbering is
checked natively by the bounded part, which compiles and calls the emitted functions).
"""
import z3

from pyvc.registry import reg
from pyvc.interp import Interp
from pyvc.interp_ext import LoopSpec
from pyvc.core import PList, SymObj, ClassVal, fresh_int, Unsupported, PyvcError, HARNESS_ERRORS
from pyvc.tmpl import Tmpl, Atom, CBlock, join as tjoin
from pyvc import minic
from pyvc.minic import OBJ, W8, IDX
from contracts import capi as K

CAPI = K.CAPI
CLASS_HOME = {
    "MetaArray": "xobjects/array.py", "Index": "xobjects/array.py", "MetaStruct": "xobjects/struct.py",
    "Field": "xobjects/struct.py", "Ref": "xobjects/ref.py", "MetaUnionRef": "xobjects/ref.py",
    "NumpyScalar": "xobjects/scalar.py", "Arg": "xobjects/context.py", "Kernel": "xobjects/context.py",
}
CONF_KEYS = ("gpumem", "cpurestrict", "inttype", "chartype", "gpufun")


class _Spec:
    pass


def _contract(qualname, props, doc=""):
    key = (CAPI, qualname)
    if key not in reg.contracts:
        sp = type("spec_" + qualname, (), {"params": {}, "properties": list(props), "__doc__": doc})
        reg.contract(CAPI, qualname)(sp)
    return reg.contracts[key]


def _scalar_int64():
    o = SymObj("NumpyScalar", {"_c_type": "int64_t", "_size": 8, "__name__": "Int64"})
    o.closed = True
    return o


def new_interp():
    it = Interp(reg)
    it.class_home = dict(CLASS_HOME)
    it.extern_names = {"Int64": _scalar_int64()}
    it.overrides = {}
    it.obligations = []
    it.path_counter = {}
    return it


def _tag(obs, props):
    for o in obs:
        o.properties = list(props)
    return obs


# ------------------------------------------------------------------------------------------ gen_method_offset
def vc_gen_method_offset():
    """inv: C-value(offset) + pending python constant == AddrSpec(path[:i]), pending >= 0, icount == #indices so far"""
    con = _contract("gen_method_offset", ["C02", "C07", "C15"])
    it = new_interp()

    def c_offset_of(lst_items):
        text = tjoin("\n", lst_items)
        return minic.run_block(text)

    def init(interp, st, k, node):
        lst = st.locals["lst"]
        r = c_offset_of(lst.items)
        interp.oblige(st, f"inv{k}.init", "addr", r.offset + st.locals["offset"] == 0, node.lineno)
        interp.oblige(st, f"inv{k}.init", "pending_nonneg", st.locals["offset"] >= 0, node.lineno)
        interp.oblige(st, f"inv{k}.init", "icount", st.locals["icount"] == 0, node.lineno)

    def head(interp, st):
        c0, p0, A, IC = fresh_int("c0"), fresh_int("pend"), fresh_int("A"), fresh_int("IC")
        st.locals["lst"] = PList([Tmpl([CBlock(c0, "prefix")])])
        st.locals["offset"] = p0
        st.locals["icount"] = IC
        st.assume(c0 + p0 == A)
        st.assume(p0 >= 0)
        st.assume(IC >= 0)
        return {"A": A, "IC": IC}

    def preserve(interp, st, g, label, part, k, node):
        r = c_offset_of(st.locals["lst"].items)
        A2, IC2 = K.step_spec(g["A"], g["IC"], part)
        pend = st.locals["offset"]
        interp.oblige(st, f"inv{k}.preserve", f"addr[{label}]", r.offset + pend == A2, node.lineno)
        interp.oblige(st, f"inv{k}.preserve", f"pending_nonneg[{label}]", pend >= 0 if not isinstance(pend, int) else z3.BoolVal(pend >= 0), node.lineno)
        interp.oblige(st, f"inv{k}.preserve", f"icount[{label}]", st.locals["icount"] == IC2, node.lineno)
        for j, pd in enumerate(r.pointer_decls):
            interp.oblige(st, f"inv{k}.preserve", f"pointer_qualified.{j}[{label}]", z3.BoolVal(pd["quals"][:1] == ["gpumem"]), node.lineno)

    path = K.AbstractPath()
    path.loop = LoopSpec(init, head, K.part_alternatives, preserve)
    conf = K.ConfVal(CONF_KEYS)
    n = 0
    for st, out in it.exec_function(con, {"path": path, "conf": conf}):
        n += 1
        if out is None or out[0] != "return":
            it.oblige(st, "raises", "never", False)
            continue
        g = st.ghost["__loop_ghost"]
        r = minic.run_block(out[1])
        it.oblige(st, "post", "addr", r.offset == g["A"])
    it.n_paths = n
    return it.obligations, it


# ------------------------------------------------------------------------------------------ method generators
def _install_callee_contracts(it, A_path):
    def ov_offset(interp, st, f, args, kwargs, node):
        # contract of gen_method_offset (proved above): the text declares `offset` and leaves offset == AddrSpec(path)
        yield st, Tmpl([CBlock(A_path, "gen_method_offset(path)")])

    def ov_kernel(interp, st, f, args, kwargs, node):
        k = SymObj("Kernel", {"args": PList([]), "c_name": Atom("c_name", role="name"), "ret": kwargs.get("ret")})
        k.closed = True
        yield st, k

    def ov_decl(interp, st, f, args, kwargs, node):
        yield st, Atom("decl", role="text")

    it.overrides[(CAPI, "gen_method_offset")] = ov_offset
    it.overrides[(CAPI, "gen_fun_kernel")] = ov_kernel
    it.overrides[(CAPI, "gen_c_decl_from_kernel")] = ov_decl


def _elem_is(elem, ctype_atom_or_name):
    return elem.name is ctype_atom_or_name or elem.name == ctype_atom_or_name


def vc_method(method):
    """post of gen_method_<method>(cls, path, conf) for every shape of path[-1]"""
    con = _contract("gen_method_" + method, ["C02", "C07", "C15"] if method != "set" else ["C02", "C07", "C15"])
    it = new_interp()
    A = z3.Int("A_path")
    _install_callee_contracts(it, A)
    conf = K.ConfVal(CONF_KEYS)
    applicable = {
        "get": ("scalar",), "set": ("scalar",),
        "getp": ("scalar", "struct", "unionref", "string", "array"),
        "len": ("array",), "typeid": ("unionref",), "member": ("unionref",),
    }[method]
    n = 0
    for label, ctor in K.lasttype_alternatives():
        if label.split(":")[0] not in applicable:
            continue
        pre = Interp(reg)  # scratch state for constructing the shape
        from pyvc.core import State

        st0 = State()
        last = ctor(st0)
        path = K.AbstractPath(last=last)
        cls = K.shape_other("MetaStruct")
        for st, out in it.exec_function(con, {"cls": cls, "path": path, "conf": conf}):
            for f in st0.pc:
                st.assume(f)
            n += 1
            if out is None or out[0] != "return":
                it.oblige(st, "raises", f"never[{label}]", False)
                continue
            text = out[1][0]
            r = minic.run_function(text)
            spec = getattr(last, "spec", {"kind": "string"})
            _post_method(it, st, method, label, last, spec, r, A)
    it.n_paths = n
    return it.obligations, it


def _post_method(it, st, method, label, last, spec, r, A):
    ob = lambda clause, goal: it.oblige(st, "post", f"{clause}[{label}]", goal if not isinstance(goal, bool) else z3.BoolVal(goal))
    target = OBJ + A
    if method == "get":
        ok = r.ret is not None and r.ret[0] == "load"
        ob("is_load", ok)
        if ok:
            ob("addr", r.ret[1] == target)
            ob("width", r.ret[2].size == spec["size"])
            ob("ctype", _elem_is(r.ret[2], last.attrs["_c_type"]))
        ob("no_store", len(r.stores) == 0)
    elif method == "set":
        ok = len(r.stores) == 1
        ob("one_store", ok)
        if ok:
            addr, elem, val = r.stores[0]
            ob("addr", addr == target)
            ob("width", elem.size == spec["size"])
            ob("ctype", _elem_is(elem, last.attrs["_c_type"]))
            ob("value", val == ("value",))
        ob("no_other_deref", len(r.loads) == 0)
    elif method == "getp":
        ok = r.ret is not None and r.ret[0] == "ptr"
        ob("is_pointer", ok)
        if ok:
            ob("addr", r.ret[1] == target)
        ob("no_deref", len(r.loads) == 0 and len(r.stores) == 0)
    elif method == "len":
        ret = r.ret
        if ret is not None and ret[0] == "load" and ret[2].size == 8:
            ret = ("int", W8(ret[1]))
        ok = ret is not None and ret[0] == "int"
        ob("is_int", ok)
        if ok:
            prod = z3.IntVal(1)
            j = 0
            for d in spec["shape"]:
                if d is None:
                    prod = prod * W8(target + 8 + 8 * j)  # j-th dynamic dimension: word j+1 of the header
                    j += 1
                else:
                    prod = prod * d
            ob("value", ret[1] == prod)
        ob("no_store", len(r.stores) == 0)
    elif method == "typeid":
        ok = r.ret is not None and r.ret[0] == "load"
        ob("is_load", ok)
        if ok:
            ob("addr", r.ret[1] == target + 8)
            ob("width", r.ret[2].size == 8)
        ob("no_store", len(r.stores) == 0)
    elif method == "member":
        ok = r.ret is not None and r.ret[0] == "ptr"
        ob("is_pointer", ok)
        if ok:
            ob("addr", r.ret[1] == target + W8(target))
        ob("no_store", len(r.stores) == 0)
    # C15 / C07: every pointer type written in the body carries the global-memory qualifier placeholder
    for k, pd in enumerate(r.pointer_decls):
        ob(f"pointer_qualified.{k}", pd["quals"][:1] == ["gpumem"])


METHODS = ["get", "set", "getp", "len", "typeid", "member"]


def targets():
    t = [("<gen>", _named(vc_gen_method_offset, "capi.gen_method_offset"))]
    for m in METHODS:
        t.append(("<gen>", _named((lambda m=m: vc_method(m)), "capi.gen_method_" + m)))
    return t


def _named(f, name):
    def g():
        obs, it = f()
        g.interp = it
        return obs
    g.__name__ = name
    return g


if __name__ == "__main__":
    import sys, time
    from pyvc import solve

    for rel, gen in targets():
        if len(sys.argv) > 1 and sys.argv[1] not in gen.__name__:
            continue
        t0 = time.time()
        try:
            obs = gen()
        except PyvcError as e:
            print(gen.__name__, "UNSUPPORTED:", e)
            continue
        solve.discharge_all(obs, solve.QUICK)
        for o in obs:
            if o.status != "discharged" or "-v" in sys.argv:
                print(f"  {o.status:10s} {o.name}")
        print(gen.__name__, sum(o.status == 'discharged' for o in obs), "/", len(obs), f"{time.time()-t0:.1f}s")


# ------------------------------------------------------------------------------------------ declarations and index arguments
def vc_declarations():
    """gen_typedef / gen_c_arg_from_arg / gen_c_type_from_arg: every pointer type of a declaration carries the global-memory
    placeholder (C15); the object argument is the opaque class handle (a typedef of a qualified struct pointer)."""
    con = _contract("gen_typedef", ["C15"])
    it = new_interp()
    conf = K.ConfVal(CONF_KEYS)
    cls = K.shape_other("MetaStruct")
    cls.attrs["_c_type"] = Atom("ClsName", role="name")
    for st, out in it.exec_function(con, {"cls": cls, "conf": conf}):
        ok = out is not None and out[0] == "return" and isinstance(out[1], Tmpl)
        it.oblige(st, "post", "returns_text", z3.BoolVal(ok))
        if ok:
            parts = out[1].parts
            names = [getattr(p, "name", p) for p in parts]
            # typedef <gpumem> struct <Name>_s * <Name>;
            it.oblige(st, "post", "typedef_of_qualified_struct_pointer",
                      z3.BoolVal(len(parts) == 6 and names[0] == "typedef " and names[1] == "gpumem" and names[2] == " struct " and names[3] == "ClsName"
                                 and names[4] == "_s * " and names[5] == "ClsName" or (len(parts) == 7 and names[-1] == ";" and names[1] == "gpumem")))
    obs = list(it.obligations)
    # arguments: pointer arguments get the qualifier; compound arguments are handles (no star)
    con2 = _contract("gen_c_arg_from_arg", ["C15"])
    for label, pointer, compound in (("scalar_by_value", False, False), ("pointer_to_scalar", True, False), ("compound", False, True)):
        it2 = new_interp()
        T = K.shape_other("MetaStruct" if compound else "NumpyScalar")
        T.attrs["_c_type"] = Atom("CType", role="type", ends_star=False)
        arg = SymObj("Arg", {"atype": T, "pointer": pointer, "const": False, "name": Atom("argname", role="name")})
        arg.closed = True
        for st, out in it2.exec_function(con2, {"arg": arg, "conf": conf}):
            ok = out is not None and out[0] == "return" and isinstance(out[1], Tmpl)
            it2.oblige(st, "post", f"returns_text[{label}]", z3.BoolVal(ok))
            if ok:
                names = [getattr(p, "name", p) for p in out[1].parts]
                star = any(isinstance(n, str) and "*" in n for n in names)
                it2.oblige(st, "post", f"star_iff_pointer_argument[{label}]", z3.BoolVal(star == pointer))
                if pointer:
                    k = [i for i, n in enumerate(names) if isinstance(n, str) and "*" in n][0]
                    it2.oblige(st, "post", f"pointer_type_is_qualified[{label}]", z3.BoolVal("gpumem" in names[:k]))
        obs += it2.obligations
    for o in obs:
        o.properties = ["C15"]
    vc_declarations.interp = it
    return obs, it


def vc_index_arguments():
    """gen_fun_kernel: the accessor declares obj, then one Int64 argument i<k> for every index consumed along the path, k = 0..N-1
    in order (N = sum of the ranks of the index parts), then the extra arguments -- the numbering Index_get_c_offset uses.
    Checked for every sequence of part kinds up to length 4 with ranks 1..3 (bounded in path length; the offset proof itself is unbounded)."""
    import itertools

    con = _contract("gen_fun_kernel", ["C02", "C07"])
    obs = []
    it = None
    kinds = ["class", "field", "ref", "index1", "index2", "index3"]
    for n in range(0, 4):
        for combo in itertools.product(kinds, repeat=n):
            it = new_interp()
            it.class_home.update({"Arg": "xobjects/context.py", "Kernel": "xobjects/context.py"})
            parts = []
            want = 0
            from pyvc.core import State

            st0 = State()
            for kd in combo:
                if kd == "class":
                    parts.append(K.shape_other("MetaStruct"))
                elif kd == "field":
                    parts.append(K.shape_field(st0))
                elif kd == "ref":
                    parts.append(K.shape_ref())
                else:
                    r = int(kd[-1])
                    parts.append(K.shape_index(st0, r, (False,) * r))
                    want += r
            cls = K.shape_other("MetaStruct")
            cls.attrs["_c_type"] = "Cls"
            extra = SymObj("Arg", {"name": "value"})
            lab = "-".join(combo) or "empty"
            try:
                for st, out in it.exec_function(con, {"cls": cls, "path": PList(parts), "action": "get", "const": True, "extra": PList([extra]), "ret": None, "add_nindex": True},
                                                pre=list(st0.pc)):
                    ok = out is not None and out[0] == "return" and isinstance(out[1], SymObj)
                    it.oblige(st, "post", f"returns_kernel[{lab}]", z3.BoolVal(ok))
                    if ok:
                        args = out[1].attrs["args"].items
                        names = [a.attrs.get("name") for a in args]
                        it.oblige(st, "post", f"arguments_obj_indices_extra[{lab}]", z3.BoolVal(names == ["obj"] + [f"i{k}" for k in range(want)] + ["value"]))
                        it.oblige(st, "post", f"index_arguments_are_int64[{lab}]", z3.BoolVal(all(a.attrs["atype"].attrs.get("_c_type") == "int64_t" for a in args[1:1 + want])))
            except HARNESS_ERRORS as e:
                vc_index_arguments.undecided = getattr(vc_index_arguments, "undecided", []) + [(lab, str(e)[:120])]
            obs += it.obligations
    for o in obs:
        o.properties = ["C02", "C07"]
    return obs, it


_EXTRA_TARGETS = [("<gen>", _named(vc_declarations, "capi.declarations")), ("<gen>", _named(vc_index_arguments, "capi.gen_fun_kernel"))]
