"""C09 (bounded only), C17, C18, C19, C20."""
from . import common


class NativeCheck:
    CONTRACT_MODULES = []
    SPECS = {
        "C17": dict(mod="checks.kernels_native", fn="run", vc="kernels_vc", level="other",
                    text="C17: KernelCpu.to_function_arg / __call__ and KernelDispatcher.__call__ under contract relative to cffi/numpy axioms (pointer = base of the "
                         "current storage + offset, typed as declared; element type of pointer arguments taken from the array; refusals); Arg.get_c_type and the dtype_dict table (different element "
                         "types never share a declared / cast pointer type), cdef_from_kernel (signature lists every argument once, in order); the FFI behaviour itself "
                         "(marshalling, type checks, return values) is decided by the bounded native part: compiled echo/first/store/address kernels."),
        "C18": dict(mod="checks.hybrid_native", fn="run_c18", vc="hybrid_vc", level="other",
                    text="C18: HybridClass.move / copy / __getstate__ under contract on an abstract dressed object (copy construction of the data struct and "
                         "_reinit_from_xobject used through their contracts): move is refused, constructing nothing, for an object that lives within another "
                         "or whose data holds references, otherwise the data is copy-constructed once into the requested place, installed, and the nested "
                         "dressed parts are re-initialised from it; copy copy-constructs once (own context by default) and wraps the copy in a new object, the "
                         "original untouched, the ownership flags of the result as constructed.  Descriptors (_FieldOfDressed), MetaHybridClass.__new__, _reinit_from_xobject itself and the mirroring of buffer "
                         "data under renaming are outside the python subset: run-time contract DressInv after every step of operation histories on generated "
                         "hybrid classes (bounded)."),
        "C19": dict(mod="checks.hybrid_native", fn="run_c19", vc="types_vc", level="other",
                    text="C19: Struct._to_json under contract (classes of <= 3 fields, abstract field types): a dict with exactly the field names in declaration "
                         "order, each value read through the field's type at its documented address; with the writer contract for dict values (C01/C05 groups) the "
                         "struct constructor applied to it reproduces every field.  Array._to_json on one-dimensional reference-free arrays (sequence protocol "
                         "cut at an invariant): one entry per item in index order, entry j read through the item type at the documented address of item j.  "
                         "HybridClass.to_dict/from_dict "
                         "(descriptors, computed attribute names) are outside the subset: from_dict(to_dict(h)) == h with default elision and T(x._to_json()) == x "
                         "for reference-free structs and 1-d arrays are decided by the bounded part."),
        "C20": dict(mod="checks.pickle_native", fn="run", vc="types_vc", level="other",
                    text="C20: Struct.__getstate__/__setstate__ under contract (classes of <= 3 fields): the state is exactly (buffer, offset); __setstate__ on a bare "
                         "instance gives a handle with HandleInv (size and offsets re-read from the buffer words, every field read through its type at the documented "
                         "address), i.e. the unpickled object is a view rebuilt from buffer and offset (C06).  Assumed: AX-pickle (loads(dumps(x)) = __setstate__ on "
                         "object.__new__(type(x)) with a copy of the state in which each buffer object is copied once per dump with equal bytes, capacity and free "
                         "list).  HybridClass.__getstate__ (top-level or nested, with or without references: the state of the own xobject, nothing constructed) and "
                         "HybridClass.__setstate__ (the view rebuilt from exactly the pickled buffer and offset is installed and the nested parts re-initialised from it) "
                         "are under contract on an abstract dressed object.  Arrays, sharing within one dump and the buffer staying a working allocator are decided by the bounded part: pickle "
                         "round trips of importable struct/array/hybrid objects, single and in groups sharing a buffer."),
    }

    def __init__(self, prop):
        self.PROP = prop
        sp = self.SPECS[prop]
        self.sp = sp
        self.LEVEL = sp["level"]
        self.NO_DEDUCTIVE = sp["vc"] is None
        self.EXPLANATION = sp["text"]
        self.TRUSTED = ["the native harness " + sp["mod"]] + (["cffi / numpy axioms AX-ffi-cast, AX-ffi-from_buffer, AX-np-first, AX-np-ctypes, AX-storage-slice "
                                                              "(checks/kernels_vc.py)"] if prop == "C17" else [])
        self.ASSUMPTIONS = ["bounded run-time contract check on generated classes/values; not a proof",
                            "hybrid_class.py (descriptors, computed attribute names) and pickle's object graph copying are outside the deductive subset"]
        if prop in ("C19", "C20"):
            self.TRUSTED.append("AX-pickle (C20): pickle calls __getstate__/__setstate__ as documented and copies each buffer object once per dump; "
                                "TypeContract of the abstract field types (proved per type constructor under C01/C03/C05)")

    def targets(self):
        if self.sp["vc"]:
            import importlib

            mod = importlib.import_module("checks." + self.sp["vc"])
            ts = mod.targets(self.PROP) if self.sp["vc"] in ("types_vc", "hybrid_vc") else mod.targets()
            if self.PROP == "C20":
                from . import hybrid_vc

                ts = ts + hybrid_vc.targets("C20")  # HybridClass.__getstate__ / __setstate__
            return ts
        return []

    def bounded(self, tier, seed, focus):
        import importlib

        return getattr(importlib.import_module(self.sp["mod"]), self.sp["fn"])(tier, seed)

    def find_counterexample(self, ob, seed):
        if "_cex" not in self.__dict__:
            st, r = common.isolated_call(self.sp["mod"], self.sp["fn"], {"tier": "thorough", "seed": seed})
            known = [k for k in common.load_known() if k["property"] == self.PROP and k["status"] == "finding"]
            v = [x for x in (r.get("violations") if st == "ok" else []) if not any(common.case_matches(k, x["case_key"]) for k in known)]
            self._cex = dict(v[0], script=f"import sys; sys.path.insert(0, '/verif')\nimport importlib\nprint(getattr(importlib.import_module('{self.sp['mod']}'), '{self.sp['fn']}')('thorough', 0)['violations'][:1])\n") if v else None
        return self._cex

    def reproduce_known(self, k):
        rep = k.get("repro")
        if not rep:
            return None
        import sys

        if common.REPO not in sys.path:
            sys.path.insert(0, common.REPO)
        try:
            exec(rep["code"], {})
        except AssertionError:
            return True
        except Exception as e:  # noqa
            return type(e).__name__ == rep.get("expect_exception")
        return False
