"""Bounded native part of C17 (never counted as proved): compiled kernels receive every argument faithfully.

Kernels (compiled once per context through the library's own path):
  echo_<T>(T v) -> T                 scalars by value, type extremes
  first_<T>(T* p) -> T, store_<T>(T* p, T v)   pointer-to-scalar from numpy arrays (whole, contiguous slice, strided / reversed /
                                     column views) and from xobject arrays: the pointer must be the first element
  addr_<C>(C obj) -> int64           xobjects (struct, array, unionref): pointer == address of their first byte at call time,
                                     for several objects per buffer, at non-zero offsets, before and after buffer growth
Refusals: positional arguments, missing / extra arguments, arrays of the wrong element type.
Contexts: serial and OpenMP (2 threads).
"""
import random

import numpy as np

from . import grammar

SCALARS = ["Int8", "UInt8", "Int16", "UInt16", "Int32", "UInt32", "Int64", "UInt64", "Float32", "Float64"]


def extremes(dt):
    if dt.kind == "f":
        fi = np.finfo(dt)
        return [0.0, -0.0, 1.5, float(fi.max), float(fi.min), float(fi.tiny), float("inf"), float("-inf")]
    ii = np.iinfo(dt)
    return [0, 1, int(ii.max), int(ii.min), int(ii.max) // 3]


def run(tier, seed):
    X = grammar.xo()
    rnd = random.Random(seed)
    evals = 0
    distinct = set()
    violations = []
    samples = []

    def bad(key, **kw):
        if len(violations) < 400:
            violations.append({"case_key": key, **kw})

    tag = grammar.uniq("K")
    S = grammar.mkstruct(f"{tag}S", {"a": X.Int64, "x": X.Float64[:], "s": X.String})
    P = grammar.mkstruct(f"{tag}P", {"a": X.Float64, "b": X.Int32})
    U = X.ref.MetaUnionRef(f"{tag}U", (X.UnionRef,), {"_reftypes": [P, S]})
    A = X.Float64[:]
    compounds = [S, P, A, U]
    src = ["#include <stdint.h>"]
    kd = {}
    for nm in SCALARS:
        T = getattr(X, nm)
        c = T._c_type
        src.append(f"{c} echo_{nm}({c} v){{ return v; }}")
        src.append(f"{c} first_{nm}({c}* p){{ return p[0]; }}")
        src.append(f"void store_{nm}({c}* p, {c} v){{ p[0] = v; }}")
        src.append(f"int64_t paddr_{nm}({c}* p){{ return (int64_t)(intptr_t)p; }}")
        kd[f"echo_{nm}"] = X.Kernel(args=[X.Arg(T, name="v")], ret=X.Arg(T))
        kd[f"first_{nm}"] = X.Kernel(args=[X.Arg(T, pointer=True, name="p")], ret=X.Arg(T))
        kd[f"store_{nm}"] = X.Kernel(args=[X.Arg(T, pointer=True, name="p"), X.Arg(T, name="v")])
        kd[f"paddr_{nm}"] = X.Kernel(args=[X.Arg(T, pointer=True, name="p")], ret=X.Arg(X.Int64))
    for C in compounds:
        src.append(f"int64_t addr_{C.__name__}({C._c_type} obj){{ return (int64_t)(intptr_t)obj; }}")
        kd[f"addr_{C.__name__}"] = X.Kernel(args=[X.Arg(C, name="obj")], ret=X.Arg(X.Int64))
    src.append(f"double two_{tag}({P._c_type} p, {S._c_type} s, double k){{ return {P.__name__}_get_a(p) * k + {S.__name__}_get_a(s); }}")
    kd[f"two_{tag}"] = X.Kernel(args=[X.Arg(P, name="p"), X.Arg(S, name="s"), X.Arg(X.Float64, name="k")], ret=X.Arg(X.Float64))
    for omp in (0, 2):
        ctx = X.ContextCpu(omp_num_threads=omp)
        ctx.add_kernels(sources=["\n".join(src)], kernels=kd, extra_classes=compounds)
        K = ctx.kernels
        cn = f"omp{omp}"
        # ---- scalars by value
        for nm in SCALARS:
            T = getattr(X, nm)
            dt = T._dtype
            for v in extremes(dt):
                got = getattr(K, f"echo_{nm}")(v=v)
                evals += 1
                distinct.add((cn, "echo", nm, repr(v)))
                want = dt.type(v)
                if not (got == want or (got != got and want != want)) or (dt.kind == "f" and np.signbit(got) != np.signbit(want)):
                    bad(f"scalar-by-value:{nm}", context=cn, value=repr(v), got=repr(got))
            # ---- pointer to scalar: numpy arrays and views
            base = np.arange(24).astype(dt) + 1
            m = base.reshape(4, 6)
            views = {"whole": base, "slice": base[5:9], "strided": base[3::2], "reversed": base[::-1][2:], "row": m[2], "column": m[:, 4],
                     "block": m[1:, 1:3], "transposed": m.T[3:]}
            for vn, arr in views.items():
                first = arr.flat[0]
                addr0 = arr.__array_interface__["data"][0]
                got = getattr(K, f"first_{nm}")(p=arr)
                pa = getattr(K, f"paddr_{nm}")(p=arr)
                evals += 2
                distinct.add((cn, "ptr", nm, vn))
                if got != first or int(pa) != addr0:
                    bad(f"pointer-to-scalar:numpy:{vn}", context=cn, dtype=nm, got=repr(got), first_element=repr(first), pointer=int(pa), first_address=addr0)
                nv = dt.type(7)
                getattr(K, f"store_{nm}")(p=arr, v=nv)
                if arr.flat[0] != nv:
                    bad(f"pointer-to-scalar:numpy-store:{vn}", context=cn, dtype=nm)
                arr.flat[0] = first
            # ---- xobject arrays as pointer arguments
            XA = T[:]
            buf = ctx.new_buffer(64)
            buf.allocate(rnd.choice([8, 24]))
            xa = XA([3, 1, 4, 1, 5], _buffer=buf)
            # the same at offsets that are not multiples of the item size (the CPU context's minimum alignment is 1: a packed allocation,
            # an explicit offset)
            buf.allocate(rnd.choice([1, 3, 5]))
            for xu in (XA([3, 1, 4], _buffer=buf), XA([3, 9], _buffer=ctx.new_buffer(64), _offset=13)):
                try:
                    got = getattr(K, f"first_{nm}")(p=xu)
                    pa = getattr(K, f"paddr_{nm}")(p=xu)
                    basep = np.frombuffer(xu._buffer.buffer, dtype="int8").ctypes.data
                    evals += 2
                    distinct.add((cn, "xptr-unaligned", nm, xu._offset % dt.itemsize))
                    if got != dt.type(3) or int(pa) != basep + xu._offset + XA._data_offset:
                        bad("pointer-to-scalar:xobject-array:odd-offset", context=cn, dtype=nm, got=repr(got), offset=xu._offset, pointer_minus_base=int(pa) - basep,
                            expected=xu._offset + XA._data_offset)
                except Exception as e:  # noqa
                    bad("pointer-to-scalar:xobject-array:odd-offset", context=cn, dtype=nm, problem=f"{type(e).__name__}: {e}")
            try:
                got = getattr(K, f"first_{nm}")(p=xa)
                pa = getattr(K, f"paddr_{nm}")(p=xa)
                basep = np.frombuffer(xa._buffer.buffer, dtype="int8").ctypes.data
                evals += 2
                distinct.add((cn, "xptr", nm))
                if got != dt.type(3) or int(pa) != basep + xa._offset + XA._data_offset:
                    bad("pointer-to-scalar:xobject-array", context=cn, dtype=nm, got=repr(got), pointer=int(pa), expected=basep + xa._offset + XA._data_offset)
            except Exception as e:  # noqa
                bad("pointer-to-scalar:xobject-array", context=cn, dtype=nm, problem=f"{type(e).__name__}: {e}")
            # wrong element type is refused
            # (every other element type: other widths, other kinds, complex numbers whose halves have the declared type, as numpy
            # arrays and as xobject arrays)
            wrong = [d for d in ("int8", "int16", "int32", "int64", "uint8", "uint16", "uint32", "uint64", "float32", "float64", "complex64", "complex128")
                     if np.dtype(d) != dt]
            for d in wrong:
                cands = [("numpy", np.arange(4).astype(d))]
                xt = getattr(X, d.capitalize().replace("Uint", "UInt"), None)
                if xt is not None:
                    try:
                        cands.append(("xobject", xt[:]([1, 2, 3, 4], _buffer=ctx.new_buffer(128))))
                    except Exception:  # noqa  (this element type has no array form here)
                        pass
                for how, other in cands:
                    try:
                        getattr(K, f"first_{nm}")(p=other)
                        bad("refusal:wrong-element-type", context=cn, dtype=nm, passed=d, array=how)
                    except Exception:  # noqa
                        pass
                    evals += 1
        # ---- compound xobjects: address at call time, several per buffer, after growth
        buf = ctx.new_buffer(96)
        objs = []
        for rep in range(3 if tier == "quick" else 8):
            objs.append(S(a=rep, x=[1.0 * rep, 2.0], s="s" * rep, _buffer=buf))
            objs.append(P(a=0.5 + rep, b=rep, _buffer=buf))
            objs.append(A([1.0, 2.0, 3.0 + rep], _buffer=buf))
            objs.append(U(objs[-2], _buffer=buf))
            for ob in objs:
                basep = np.frombuffer(ob._buffer.buffer, dtype="int8").ctypes.data
                got = getattr(K, f"addr_{type(ob).__name__}")(obj=ob)
                evals += 1
                distinct.add((cn, "addr", type(ob).__name__, ob._offset, buf.capacity))
                if int(got) != basep + ob._offset:
                    bad("xobject-pointer", context=cn, cls=type(ob).__name__, offset=ob._offset, capacity=buf.capacity, got=int(got), expected=basep + ob._offset)
            p_, s_ = objs[-3], objs[-4]
            got = getattr(K, f"two_{tag}")(p=p_, s=s_, k=2.0)
            evals += 1
            if got != p_.a * 2.0 + s_.a:
                bad("several-arguments", context=cn, got=repr(got), expected=p_.a * 2.0 + s_.a)
            buf.allocate(buf.capacity + 16)  # force growth (relocation) between calls
        # ---- refused calls
        p_, s_ = objs[-3], objs[-4]
        refusals = [("positional", lambda: K.echo_Int64(3)), ("missing", lambda: getattr(K, f"two_{tag}")(p=objs[1], k=1.0)),
                    ("extra", lambda: K.echo_Int64(v=1, w=2)), ("wrong-name", lambda: K.echo_Int64(x=1)),
                    # each declared argument left out in turn: a struct, another struct, a number passed by value
                    ("missing:struct-argument", lambda: getattr(K, f"two_{tag}")(s=s_, k=2.0)),
                    ("missing:second-struct-argument", lambda: getattr(K, f"two_{tag}")(p=p_, k=2.0)),
                    ("missing:float-by-value", lambda: getattr(K, f"two_{tag}")(p=p_, s=s_)),
                    ("missing:only-argument:int", lambda: K.echo_Int64()), ("missing:only-argument:float", lambda: K.echo_Float64()),
                    ("missing:only-argument:float32", lambda: K.echo_Float32())]
        for key, fn in refusals:
            try:
                fn()
                bad(f"refusal:{key}", context=cn)
            except Exception:  # noqa
                pass
            evals += 1
            distinct.add((cn, "refuse", key))
    from . import axioms_native

    n_ax, bad_ax = axioms_native.check_ffi_axioms()
    evals += n_ax
    for bd in bad_ax:
        bad("axiom:" + bd["axiom"], **{k: str(v) for k, v in bd.items() if k != "axiom"})
    if not samples:
        samples.append({"kernels": sorted(kd)[:8], "contexts": ["serial", "openmp(2)"]})
    return {
        "evaluations": evals, "distinct_nontrivial": len(distinct),
        "rule": "10 scalar kinds x extremes by value; pointer-to-scalar from 8 numpy layouts (value, address, store) and xobject arrays; "
                "struct/array/unionref arguments: pointer == base address at call time + offset for every object of a buffer before and after growth; "
                "refused calls; serial and OpenMP contexts; distinct by (context, kind, type, case)",
        "exhaustive": False, "violations": _by_key(violations), "samples": samples,
    }


def _by_key(violations, cap=12):
    """one representative per case key (known findings must not crowd out new violations)"""
    seen = {}
    for v in violations:
        seen.setdefault(v.get("case_key"), v)
    return list(seen.values())[:cap]
