"""A small slice of the type grammar of the properties, built on the real library (bounded native parts only).

T ::= scalar | String | Struct{..} | Array[T; 1..3 dims, static/dynamic, axis order] | Ref[..] | UnionRef[..]
Every class gets a name that is unique per call of `build` (C typedef names are class names).  Values are generated
deterministically from a seed.  Nothing here is part of a proof; it feeds the run-time contract checks (labelled bounded).
"""
import itertools
import sys
import os
import random

from . import common


def xo():
    if common.REPO not in sys.path:
        sys.path.insert(0, common.REPO)
    import xobjects

    assert os.path.realpath(xobjects.__file__).startswith(os.path.realpath(common.REPO)), xobjects.__file__
    return xobjects


_counter = itertools.count()


def uniq(prefix):
    return f"{prefix}{next(_counter)}"


def mkstruct(name, fields, **extra):
    X = xo()
    data = dict(fields)
    data.update(extra)
    return X.struct.MetaStruct(name, (X.Struct,), data)


class Slice:
    """classes of the slice + a value generator for each"""

    def __init__(self, tier="quick", tag=None):
        X = xo()
        t = tag or uniq("G")
        self.tag = t
        self.X = X
        S1 = mkstruct(f"{t}S1", {"a": X.Int64, "b": X.Float64, "c": X.Int8, "d": X.UInt16})
        S2 = mkstruct(f"{t}S2", {"n": X.Int32, "x": X.Float64[:], "s": X.String, "y": X.Int16[:]})
        S3 = mkstruct(f"{t}S3", {"n": X.Int64, "ss": X.String[:], "inner": S2, "m": X.Int32[2, 3], "t": S1})
        U = X.ref.MetaUnionRef(f"{t}U", (X.UnionRef,), {"_reftypes": [S1, S2]})
        R1 = mkstruct(f"{t}R1", {"k": X.Int8, "r": X.Ref[S1], "ra": X.Ref[X.Float64[:]], "u": U})
        S4 = mkstruct(f"{t}S4", {"tag": X.Int64, "inner": S2})  # dynamic struct inline at a constant non-zero offset
        S5 = mkstruct(f"{t}S5", {"p": X.Float32, "q": S4[:], "r": S1[2]})
        R2 = mkstruct(f"{t}R2", {"tag": X.Int16, "p": X.Field(X.Ref[S1]), "q": X.Field(X.Ref[X.Float64[:]], default=None)})  # explicit Field(Ref) declarations
        R3 = mkstruct(f"{t}R3", {"n": X.Int64, "r": X.Ref[S1], "x": X.Float64[:], "y": X.Int32[:]})  # references and two dynamic fields
        S6 = mkstruct(f"{t}S6", {"n": X.Int64, "m": X.Float64[:, :], "v": X.Int32[:], "w": X.Int16[:1, :0]})  # N-d dynamic arrays not at offset 0
        self.S1, self.S2, self.S3, self.U, self.R1, self.S4, self.S5, self.S6 = S1, S2, S3, U, R1, S4, S5, S6
        R4 = mkstruct(f"{t}R4", {"tag": X.Int64, "top": X.Ref[R1], "z": X.Float64})  # a reference chain: R4.top -> R1 -> {S1, Float64[:], union member}
        self.R2, self.R3, self.R4 = R2, R3, R4
        # union families: the same member types at other positions (reversed list; a derived union that prepends a member)
        U2 = X.ref.MetaUnionRef(f"{t}U2", (X.UnionRef,), {"_reftypes": [S2, S1]})
        U3 = X.ref.MetaUnionRef(f"{t}U3", (U,), {"_reftypes": [S4] + list(U._reftypes)})
        R5 = mkstruct(f"{t}R5", {"k": X.Int64, "u": U, "v": U2, "w": U3})
        self.U2, self.U3, self.R5 = U2, U3, R5
        # three-dimensional arrays whose axis order is a cyclic permutation (the only orders that differ from their inverse)
        S7 = mkstruct(f"{t}S7", {"n": X.Int64, "c": X.Float64[2:1, 3:2, 2:0], "d": X.Int32[:2, :0, :1]})
        self.S7 = S7
        self.roots = [S1, S2, S3, R1, S4, S5, S6, R2, R3, R4, R5, S7]
        self.arrays = [
            X.Float64[:, 3], X.Int16[2:1, 3:0], X.Int64[:, :, 2], S1[:], S2[:], S2[2], X.UInt8[5], X.Float32[:],
            X.String[:], X.Int32[None:1, None:2, None:0], X.Int8[2:2, 3:0, 2:1], X.Int8[:][:], X.Float32[:][2],
            X.String[2:1, 3:0], X.String[:, 2], S2[2, 2], X.Ref[S1][:], X.Ref[S1][2],
            X.String[2:1, 3:2, 2:0], X.String[:2, 2:0, :1],
        ]
        if tier == "thorough":
            self.arrays += [
                X.Int32[3:2, 2:0, 4:1], X.Int32[4:1, 2:2, 3:0], X.Float64[:1, :0], X.Int8[2, :, 3], X.UInt32[0, :],
                X.Int64[:0, 2:1, :2], S1[2, 2], X.UInt64[:], X.Int32[7], X.Float32[3, :],
            ]
        self.roots += self.arrays

    def value(self, cls, rnd, depth=0):
        """python data accepted by cls(...)"""
        X = self.X
        if X.scalar.is_scalar(cls):
            return scalar_value(cls, rnd)
        if cls is X.String:
            return rnd.choice(["", "a", "hello", "héllo wörld", "x" * 9, "1234567", "ééééééé", "束流光学", "αβγδεζηθι", "12345678", "ααααααα"])
        if X.struct.is_struct(cls):
            return {f.name: self.value(f.ftype, rnd, depth + 1) for f in cls._fields}
        if X.array.is_array(cls):
            shape = tuple(d if d is not None else rnd.choice([1, 2, 3]) for d in cls._shape)
            if 0 in shape and len(shape) > 1:
                import numpy as np

                return np.zeros(shape, dtype=cls._itemtype._dtype)
            v = self._nested(cls._itemtype, shape, rnd, depth)
            if len(shape) > 1 and not X.scalar.is_scalar(cls._itemtype):
                # N-d arrays of compound items take their value as an object ndarray
                import numpy as np

                a = np.empty(shape, dtype=object)
                for idx in np.ndindex(*shape):
                    x = v
                    for i in idx:
                        x = x[i]
                    a[idx] = x
                return a
            return v
        if X.ref.is_ref(cls):
            return self.value(cls._reftype, rnd, depth + 1)
        if X.ref.is_unionref(cls):
            m = rnd.choice(cls._reftypes)
            return (m.__name__, self.value(m, rnd, depth + 1))
        raise ValueError(cls)

    def _nested(self, item, shape, rnd, depth):
        if len(shape) == 1:
            return [self.value(item, rnd, depth + 1) for _ in range(shape[0])]
        return [self._nested(item, shape[1:], rnd, depth) for _ in range(shape[0])]


def scalar_value(cls, rnd):
    import numpy as np

    dt = cls._dtype
    if dt.kind == "f":
        return float(rnd.choice([0.0, 1.5, -2.25, 1e10, 3.0]))
    info = np.iinfo(dt)
    return int(rnd.choice([0, 1, info.max, info.min, info.max // 3, 7]))


def place(cls, value, rnd, buf=None, junk=True):
    """construct cls(value) in a buffer that already holds other allocations (object not at offset 0)"""
    X = xo()
    if buf is None:
        buf = X.ContextCpu().new_buffer(capacity=rnd.choice([64, 256, 1024]))
    if junk:
        o = buf.allocate(rnd.choice([8, 24, 40]))
        buf.update_from_buffer(o, b"\xab" * 8)
    if isinstance(value, dict):
        return cls(**value, _buffer=buf)
    return cls(value, _buffer=buf)


def all_indices(shape):
    return itertools.product(*[range(n) for n in shape])
