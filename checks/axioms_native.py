"""Native validation of contracts that the deductive part *assumes* (never counted as proved):
  iter_index(shape, order): the k-th yielded index is the index at memory position k (k = 0 .. prod(shape)-1), every in-range index once
  AX-np-first / AX-storage-slice / AX-np-ctypes (C17): addresses of first elements, storage slices and storage base
"""
import itertools

import numpy as np

from . import grammar


def check_iter_index(maxdim=3):
    X = grammar.xo()
    from xobjects.array import iter_index, get_strides, get_offset

    n = 0
    bad = []
    for rank in (1, 2, 3):
        for shape in itertools.product(range(0, maxdim + 1), repeat=rank):
            for order in itertools.permutations(range(rank)):
                got = [i if isinstance(i, tuple) else (i,) for i in iter_index(shape, list(order))]
                n += 1
                strides = get_strides(shape, list(order), 1)
                pos = [get_offset(idx, strides) for idx in got]
                total = int(np.prod(shape))
                if pos != list(range(total)) or len(set(got)) != total or any(not all(0 <= i < s for i, s in zip(idx, shape)) for idx in got):
                    bad.append({"shape": shape, "order": order, "yielded": got[:6]})
    return n, bad


def check_ffi_axioms():
    import cffi

    ffi = cffi.FFI()
    n = 0
    bad = []
    base = np.arange(24, dtype="float64")
    m = base.reshape(4, 6)
    for name, arr in {"whole": base, "slice": base[5:9], "strided": base[3::2], "reversed": base[::-1][2:], "column": m[:, 4], "block": m[1:, 1:3], "T": m.T[3:]}.items():
        first = arr[tuple(arr.ndim * [slice(0, 1)])]
        a = int(ffi.cast("uintptr_t", ffi.from_buffer(first.data)))
        n += 1
        if a != arr.__array_interface__["data"][0]:
            bad.append({"axiom": "AX-np-first", "view": name})
    st = np.zeros(64, dtype="int8")
    for k in (0, 1, 8, 13):
        n += 1
        if int(ffi.cast("uintptr_t", ffi.from_buffer(st[k:]))) != np.frombuffer(st, dtype="int8").ctypes.data + k:
            bad.append({"axiom": "AX-storage-slice/AX-np-ctypes", "k": k})
    return n, bad
