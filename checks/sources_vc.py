"""Deductive part of C14, third function: `sources_from_classes` -- the glue between the sorted class list and the emitted source.

For every list of classes (any length; abstract classes: `_gen_c_api()` of class c is the opaque source API(c), `_extra_c_sources`
is present or not and holds any number of opaque extra sources) the returned list of sources contains the API of every listed class
exactly once, in the order of the classes, and every extra source of a class after that class's API:
  the loop is cut at an invariant with a ghost counter P of processed classes and ghost witness maps
     POS  class index -> position of its API in `sources`,   OWN  position -> class index
  A1  j < P              =>  0 <= POS[j] < n  and  sources[POS[j]] is the API of classes[j]  and  OWN[POS[j]] == j
  A2  j < j' < P         =>  POS[j] < POS[j']                                  (order of the classes is kept)
  A3  i < n, API entry   =>  0 <= OWN[i] < P  and  POS[OWN[i]] == i            (no API entry without its class: exactly once)
  A4  i < n, extra entry =>  0 <= OWN[i] < P  and  POS[OWN[i]] < i             (extras come after the API of the class they belong to)
  post: the function returns that list, with P == len(classes).
With `sort_classes` (closure, each name once: groups sort_classes / topological_sort) this carries "emitted exactly once" from the
sorted list to the list of sources that `_concatenate_sources` joins in order.
Python semantics assumed: list.append / list.extend; a `for` over a list that the body does not modify visits its elements in order.
"""
import z3

from pyvc.registry import reg
from pyvc.interp import Interp
from pyvc.core import _Mut, Unsupported, fresh_int, fresh_name, to_z3
from .sortclasses_vc import LoopSpecX, _Fn

CTX = "xobjects/context.py"
I = z3.IntSort()
B = z3.BoolSort()
API = z3.Function("api_source_of", I, I)
HASX = z3.Function("has_extra_c_sources", I, B)
NX = z3.Function("n_extra_sources", I, I)
XS = z3.Function("extra_source", I, I, I)


def _contract(qual):
    key = (CTX, qual)
    sp = type("spec_" + qual.replace(".", "_"), (), {"params": {}, "properties": ["C14"]})
    saved = reg.contracts.get(key)
    reg.contract(CTX, qual)(sp)
    c = reg.contracts[key]
    c.inline = True
    if saved is not None:
        reg.contracts[key] = saved
    return c


class ApiSrc:
    def __init__(self, cid, idx):
        self.cid, self.idx = cid, idx


class Extras:
    def __init__(self, cid, idx):
        self.cid, self.idx = cid, idx


class ClassRef:
    def __init__(self, cid, idx):
        self.cid, self.idx = cid, idx

    def getattr(self, interp, st, attr, node):
        if attr == "_gen_c_api":
            yield st, _Fn(lambda i, s, a, k, n: ApiSrc(self.cid, self.idx))
        elif attr == "_extra_c_sources":
            yield st, Extras(self.cid, self.idx)
        else:
            raise Unsupported(f"class attribute {attr}")

    def has_attr(self, attr):
        if attr == "_extra_c_sources":
            return HASX(self.cid)
        if attr == "_gen_c_api":
            return True
        raise Unsupported(f"hasattr(class, {attr!r})")


class SrcList(_Mut):
    """the list `sources`: (length, entries, which entries are API sources) + ghost witness maps"""

    def __init__(self):
        super().__init__()
        self.n, self.arr, self.isapi = z3.IntVal(0), z3.K(I, z3.IntVal(0)), z3.K(I, z3.BoolVal(False))
        self.POS, self.OWN = z3.K(I, z3.IntVal(-1)), z3.K(I, z3.IntVal(-1))

    def clone_mut(self, cp):
        c = SrcList.__new__(SrcList)
        c.n, c.arr, c.isapi, c.POS, c.OWN = self.n, self.arr, self.isapi, self.POS, self.OWN
        return c

    def getattr(self, interp, st, attr, node):
        if attr == "append":
            yield st, _Fn(lambda i, s, a, k, nd: self._append(i, s, a[0]))
        elif attr == "extend":
            yield st, _Fn(lambda i, s, a, k, nd: self._extend(i, s, a[0]))
        else:
            raise Unsupported(f"list.{attr}")

    def _append(self, interp, st, v):
        me = interp._relocate(st, self)
        if isinstance(v, ApiSrc):
            me.arr = z3.Store(me.arr, me.n, API(v.cid))
            me.isapi = z3.Store(me.isapi, me.n, z3.BoolVal(True))
            me.POS = z3.Store(me.POS, v.idx, me.n)
            me.OWN = z3.Store(me.OWN, me.n, v.idx)
            me.n = me.n + 1
        else:
            raise Unsupported("append of something else than the API source of a class")

    def _extend(self, interp, st, other):
        me = interp._relocate(st, self)
        if not isinstance(other, Extras):
            raise Unsupported("extend with something else than the extra sources of a class")
        ln = NX(other.cid)
        st.assume(ln >= 0)
        arr, isapi, own = z3.Array(fresh_name("src"), I, I), z3.Array(fresh_name("isapi"), I, B), z3.Array(fresh_name("own"), I, I)
        x = z3.Int(fresh_name("x"))
        st.assume(z3.ForAll([x], arr[x] == z3.If(x < me.n, me.arr[x], XS(other.cid, x - me.n)), patterns=[arr[x]]))
        st.assume(z3.ForAll([x], isapi[x] == z3.If(x < me.n, me.isapi[x], False), patterns=[isapi[x]]))
        st.assume(z3.ForAll([x], own[x] == z3.If(x < me.n, me.OWN[x], other.idx), patterns=[own[x]]))
        me.arr, me.isapi, me.OWN = arr, isapi, own
        me.n = me.n + ln


class ClassSeq:
    """the argument: classes C[0..N)"""

    def __init__(self, loop):
        self.N = fresh_int("n_classes")
        self.C = z3.Array(fresh_name("classes"), I, I)
        self.loop = loop

    def iterate(self, interp, st, s):
        yield from self.loop.run(interp, st, s, self)

    def length(self, interp, st):
        return self.N


def vc_sources_from_classes():
    con = _contract("sources_from_classes")
    it = Interp(reg)
    it.obligations = []
    it.path_counter = {}
    it.overrides = {}
    holder = {}

    def inv(st, P):
        sl = it._relocate(st, holder["sources"])
        seq = holder["classes"]
        j, j2, i = z3.Int(fresh_name("j")), z3.Int(fresh_name("j2")), z3.Int(fresh_name("i"))
        return [
            ("bounds", z3.And(0 <= P, P <= seq.N, sl.n >= 0)),
            ("A1_every_processed_class_has_its_api_listed",
             z3.ForAll([j], z3.Implies(z3.And(0 <= j, j < P), z3.And(0 <= sl.POS[j], sl.POS[j] < sl.n, sl.isapi[sl.POS[j]], sl.arr[sl.POS[j]] == API(seq.C[j]), sl.OWN[sl.POS[j]] == j)))),
            ("A2_apis_in_the_order_of_the_classes", z3.ForAll([j, j2], z3.Implies(z3.And(0 <= j, j < j2, j2 < P), sl.POS[j] < sl.POS[j2]))),
            ("A3_every_api_entry_belongs_to_one_processed_class(exactly_once)",
             z3.ForAll([i], z3.Implies(z3.And(0 <= i, i < sl.n, sl.isapi[i]), z3.And(0 <= sl.OWN[i], sl.OWN[i] < P, sl.POS[sl.OWN[i]] == i)))),
            ("A4_extra_sources_follow_the_api_of_their_class",
             z3.ForAll([i], z3.Implies(z3.And(0 <= i, i < sl.n, z3.Not(sl.isapi[i])), z3.And(0 <= sl.OWN[i], sl.OWN[i] < P, sl.POS[sl.OWN[i]] < i)))),
        ]

    def L_init(interp, st, k, node):
        for nm, f in inv(st, z3.IntVal(0)):
            interp.oblige(st, f"inv{k}.init", nm, f, node.lineno)

    def L_head(interp, st):
        sl = it._relocate(st, holder["sources"])
        sl.n, sl.arr, sl.isapi = fresh_int("n_sources"), z3.Array(fresh_name("src"), I, I), z3.Array(fresh_name("isapi"), I, B)
        sl.POS, sl.OWN = z3.Array(fresh_name("POS"), I, I), z3.Array(fresh_name("OWN"), I, I)
        P = fresh_int("processed")
        for nm, f in inv(st, P):
            st.assume(f)
        return {"P": P}

    def L_alts():
        def mk(st):
            P = st.ghost["__loop_ghost"]["P"]
            seq = holder["classes"]
            st.assume(P < seq.N)
            return ClassRef(z3.Select(seq.C, P), P)
        yield "next_class", mk

    def L_pres(interp, st, g, label, elem, k, node):
        for nm, f in inv(st, g["P"] + 1):
            interp.oblige(st, f"inv{k}.preserve", nm, f, node.lineno)

    def L_exit(interp, st, g):
        st.assume(g["P"] == holder["classes"].N)
        st.ghost["__exit_P"] = g["P"]

    loop = LoopSpecX(L_init, L_head, L_alts, L_pres, L_exit)

    def ev_List(st, n):
        if n.elts:
            raise Unsupported("non-empty list literal")
        sl = SrcList()
        holder.setdefault("sources", sl)
        yield st, sl
    it.ev_List = ev_List

    seq = ClassSeq(loop)
    holder["classes"] = seq
    n = 0
    for st, out in it.exec_function(con, {"classes": seq}, pre=[seq.N >= 0]):
        n += 1
        if out is None or out[0] != "return":
            it.oblige(st, "raises", "never", False, out[2] if out else None)
            continue
        res = out[1]
        it.oblige(st, "post", "returns_the_list_it_built", isinstance(res, SrcList) and res.uid == holder["sources"].uid if hasattr(res, "uid") else isinstance(res, SrcList))
        if isinstance(res, SrcList):
            P = st.ghost.get("__exit_P")
            it.oblige(st, "post", "loop_ran_to_the_end_of_the_class_list", P is not None)
            if P is not None:
                for nm, f in inv(st, seq.N):
                    it.oblige(st, "post", nm, f)
    it.n_paths = n
    for o in it.obligations:
        o.properties = ["C14"]
    return it.obligations, it


def targets():
    def g():
        g.undecided = []
        try:
            obs, it = vc_sources_from_classes()
        except KeyError as e:
            raise Unsupported(f"sources_from_classes no longer has the shape this harness speaks about ({e})")
        g.interp = it
        return obs
    g.__name__ = "sources_from_classes"
    g.functions = [(CTX, "sources_from_classes")]
    return [("<gen>", g)]


GROUPS = {"sources_from_classes": (targets()[0][1], ["C14"])}
