"""Bounded native part of C14 (never counted as proved): the contract of topological_sort / sort_classes evaluated at run
time on the real functions over an exhaustively enumerated small scope.

Contract (from the property statement; `source` maps child -> list of parents):
  no-dup      the result lists no node twice                                   (when has_cycle is False)
  complete    every key and every mentioned parent occurs in the result      (when has_cycle is False)
  order       if has_cycle is False every parent precedes each of its children
  cycles      has_cycle is True iff the dependency graph has a cycle (self-loops included)
sort_classes: raises ValueError iff cyclic; otherwise class names pairwise distinct, closed under _get_inner_types /
_depends_on (restricted to classes with a C API), every dependency before its user; the emitted source compiles.
"""
import itertools
import random

from . import grammar


def has_cycle_oracle(nodes, edges):
    adj = {n: set() for n in nodes}
    for p, c in edges:
        adj[p].add(c)
    color = {}

    def dfs(u):
        color[u] = 1
        for v in adj[u]:
            if color.get(v) == 1 or (color.get(v) is None and dfs(v)):
                return True
        color[u] = 2
        return False

    return any(color.get(n) is None and dfs(n) for n in nodes)


def check_toposort(topological_sort, source):
    src = {k: list(v) for k, v in source.items()}
    res, cyc = topological_sort(source)
    nodes = set(src) | {p for ps in src.values() for p in ps}
    edges = [(p, c) for c, ps in src.items() for p in ps]
    failed = []
    want_cyc = has_cycle_oracle(nodes, edges)
    if bool(cyc) != want_cyc:
        failed.append("cycles")
    if not cyc:
        if set(res) != nodes:
            failed.append("complete")
        if len(res) != len(set(res)):
            failed.append("no-dup")
        pos = {}
        for i, n in enumerate(res):
            pos.setdefault(n, i)
        if any(p in pos and c in pos and pos[p] >= pos[c] for p, c in edges if p != c):
            failed.append("order")
    return failed, res, cyc


def graphs(nmax, tier):
    """source dicts over nodes 0..n-1: every key subset in every order x parent lists (sequences <= 2, or sets <= 2 for n=4)"""
    for n in range(0, nmax + 1):
        nodes = list(range(n))
        if n <= 3:
            plists = [()] + [(a,) for a in nodes] + [(a, b) for a in nodes for b in nodes]
        else:
            plists = [()] + [(a,) for a in nodes] + [(a, b) for a in nodes for b in nodes if a < b]
        for r in range(0, n + 1):
            for keys in itertools.permutations(nodes, r):
                if n == 4 and (tier == "quick") and list(keys) != sorted(keys) and list(keys) != sorted(keys, reverse=True):
                    continue
                for combo in itertools.product(plists, repeat=r):
                    if n == 4 and sum(len(c) for c in combo) > (4 if tier == "quick" else 5):
                        continue
                    yield {k: list(ps) for k, ps in zip(keys, combo)}


def class_graphs(X, tag, tier):
    """real classes of every kind over small dependency graphs; yields (label, classes-by-name, roots-orderings, cyclic)"""
    S = grammar.mkstruct
    n = [0]

    def name(k):
        n[0] += 1
        return f"{tag}K{k}x{n[0]}"

    def build(kind):
        A = S(name("A"), {})  # fieldless struct
        if kind == "fieldless-parent":
            B = S(name("B"), {"a": A})
            return {"A": A, "B": B}, [[B], [A, B], [B, A]], False
        if kind == "chain":
            A1 = S(name("A"), {"x": X.Float64})
            B = S(name("B"), {"a": A1, "n": X.Int32})
            C = S(name("C"), {"b": B, "a": A1})
            return {"A": A1, "B": B, "C": C}, [[C], [C, A1], [A1, C, B], [B, C]], False
        if kind == "array-ref-union":
            A1 = S(name("A"), {"x": X.Float64})
            B = S(name("B"), {"v": A1[:], "r": X.Ref[A1]})
            U = X.ref.MetaUnionRef(name("U"), (X.UnionRef,), {"_reftypes": [A1, B]})
            C = S(name("C"), {"u": U, "w": X.Int8[:]})
            return {"A": A1, "B": B, "U": U, "C": C}, [[C], [U], [C, B], [B, U, C]], False
        if kind == "depends_on":
            A1 = S(name("A"), {"x": X.Float64})
            B = S(name("B"), {"y": X.Int64}, _depends_on=[A1, A])
            C = S(name("C"), {"z": X.Int64}, _depends_on=[B])
            return {"A": A1, "E": A, "B": B, "C": C}, [[C], [B], [C, A1]], False
        if kind == "diamond-fieldless":
            B = S(name("B"), {"a": A})
            C = S(name("C"), {"a": A})
            D = S(name("D"), {"b": B, "c": C, "a": A})
            return {"A": A, "B": B, "C": C, "D": D}, [[D], [C, B], [D, A], [A, D]], False
        if kind == "hybrid-depends_on":
            # hybrid (python-dressed) classes: a dependency declared on the hybrid class must reach its data struct
            Ap = type(name("Ap"), (X.HybridClass,), {"_xofields": {"x_max": X.Float64, "n_hits": X.Int64}})
            apn = Ap._XoStruct.__name__
            Tr = type(name("Tr"), (X.HybridClass,), {
                "_xofields": {"scale": X.Float64}, "_depends_on": [Ap],
                "_extra_c_sources": [f"/*gpufun*/ double {name('lim')}({apn} apt)" + "{ return " + f"{apn}_get_x_max(apt);" + "}"]})
            Nest = type(name("Ne"), (X.HybridClass,), {"_xofields": {"t": Tr._XoStruct, "q": X.Int8}})
            return {"Ap": Ap._XoStruct, "Tr": Tr._XoStruct, "Ne": Nest._XoStruct}, [[Tr._XoStruct], [Nest._XoStruct], [Nest._XoStruct, Ap._XoStruct]], False
        if kind == "same-name-override":
            # two classes of one name among the roots: the last one is used (sort_classes' documented rule, build_kernels' override
            # mechanism) -- with dependencies the first one does not have
            en = name("Elem")
            Tb = S(name("Tb"), {"v": X.Float64[:], "n": X.Int64})
            Hp = S(name("Hp"), {"k": X.Int32})
            Generic = S(en, {"x": X.Float64})
            Override = S(en, {"x": X.Float64, "tab": Tb, "h": Hp, "w": X.Int16[:]})
            return {"Elem": Override, "Tb": Tb, "Hp": Hp}, [[Generic, Override], [Generic, Override, Tb, Hp], [Tb, Generic, Override], [Override], [Generic, Tb, Override]], False
        if kind == "lonely-fieldless-root":
            # a class without fields (hence without dependencies) that nothing else in the build depends on, among the roots
            Mk = S(name("Mk"), {})
            Dr = S(name("Dr"), {"l": X.Float64})
            Hy = type(name("Hy"), (X.HybridClass,), {"_xofields": {}})
            return {"Mk": Mk, "Dr": Dr, "Hy": Hy._XoStruct}, [[Mk, Dr], [Dr, Mk], [Mk], [Hy._XoStruct, Dr], [Dr, Hy._XoStruct, Mk]], False
        if kind == "cycle2":
            A1 = S(name("A"), {"x": X.Float64})
            B = S(name("B"), {"a": A1})
            A1._depends_on.append(B)
            return {"A": A1, "B": B}, [[B], [A1], [A1, B]], True
        if kind == "cycle3":
            A1 = S(name("A"), {"x": X.Float64, "k": X.Int8, "m": X.Int16, "q": X.UInt32})
            B = S(name("B"), {"a": A1, "f": X.Float32})
            C = S(name("C"), {"b": B, "g": X.UInt64})
            A1._depends_on.append(C)
            return {"A": A1, "B": B, "C": C}, [[C], [A1, B]], True
        if kind == "selfcycle":
            A1 = S(name("A"), {"x": X.Float64})
            A1._depends_on.append(A1)
            return {"A": A1}, [[A1]], True
        raise ValueError(kind)

    for kind in ("fieldless-parent", "chain", "array-ref-union", "depends_on", "diamond-fieldless", "hybrid-depends_on", "same-name-override", "lonely-fieldless-root", "cycle2", "cycle3", "selfcycle"):
        yield (kind,) + build(kind)


def deps_of(cls):
    """declared dependencies; a hybrid class stands for its data struct"""
    out = []
    if hasattr(cls, "_get_inner_types"):
        out += list(cls._get_inner_types())
    if hasattr(cls, "_depends_on"):
        out += list(cls._depends_on)
    return [getattr(d, "_XoStruct", d) for d in out]


def run(tier, seed, compile_limit=None):
    X = grammar.xo()
    topological_sort, sort_classes = X.context.topological_sort, X.context.sort_classes
    evals = 0
    distinct = set()
    violations = []
    samples = []

    def bad(key, **kw):
        if len(violations) < 400:
            violations.append({"case_key": key, **kw})

    for g in graphs(4, tier):
        evals += 1
        key = repr(sorted((k, tuple(v)) for k, v in g.items())) + repr(list(g))
        distinct.add(key)
        try:
            failed, res, cyc = check_toposort(topological_sort, {k: list(v) for k, v in g.items()})
        except Exception as e:  # noqa
            failed, res, cyc = [f"raised {type(e).__name__}"], None, None
        if failed:
            bad("toposort:" + "+".join(failed), source=g, result=res, has_cycle=cyc,
                script=f"from xobjects.context import topological_sort\nprint(topological_sort({g!r}))\n")
        elif len(samples) < 2 and len(g) == 3 and evals % 501 == 0:
            samples.append({"source": g, "result": res, "has_cycle": cyc})
    n_graph = evals
    # ---- real classes
    tag = grammar.uniq("T")
    ncomp = 0
    compile_limit = compile_limit if compile_limit is not None else (6 if tier == "quick" else 30)
    for kind, by_name, rootsets, cyclic in class_graphs(X, tag, tier):
        for roots in rootsets:
            evals += 1
            distinct.add((kind, tuple(c.__name__ for c in roots)))
            try:
                out = sort_classes(list(roots))
                raised = None
            except Exception as e:  # noqa  (the statement asks for "an error", not for a particular class)
                out, raised = None, e
                if not cyclic:
                    bad("sort_classes:raised", kind=kind, roots=[c.__name__ for c in roots], problem=f"{type(e).__name__}: {e}")
                    continue
            if cyclic != (raised is not None):
                bad("sort_classes:cycle-report", kind=kind, roots=[c.__name__ for c in roots], cyclic=cyclic, raised=repr(raised), result=repr(out))
                continue
            if cyclic:
                continue
            names = [c.__name__ for c in out]
            failed = []
            if len(names) != len(set(names)):
                failed.append("emitted-twice")
            need = set()
            last_of = {c.__name__: c for c in roots}
            todo = [c for c in roots if last_of[c.__name__] is c]
            while todo:
                c = todo.pop()
                if c.__name__ in need:
                    continue
                need.add(c.__name__)
                todo += deps_of(c)
            need_api = {nm for nm in need if any(hasattr(c, "_gen_c_api") and c.__name__ == nm for c in _closure(roots))}
            if not need_api <= set(names):
                failed.append("dependency-missing")
            pos = {nm: i for i, nm in enumerate(names)}
            for c in out:
                for d in deps_of(c):
                    if hasattr(d, "_gen_c_api") and d.__name__ in pos and pos[d.__name__] >= pos[c.__name__] and d is not c:
                        failed.append("dependency-after-user")
            if failed:
                bad("sort_classes:" + "+".join(sorted(set(failed))), kind=kind, roots=[c.__name__ for c in roots], result=names)
            elif ncomp < compile_limit:
                ncomp += 1
                try:
                    ctx = X.ContextCpu()
                    ctx.add_kernels(kernels={}, extra_classes=list(roots))
                except Exception as e:  # noqa
                    bad("compile", kind=kind, roots=[c.__name__ for c in roots], problem=f"{type(e).__name__}: {str(e)[:300]}")
    return {
        "evaluations": evals, "distinct_nontrivial": len(distinct),
        "rule": "topological_sort: every source dict over <= 3 nodes (every key subset in every order x parent sequences of length <= 2 incl. "
                f"repeats and self-loops) and a slice of the 4-node ones ({n_graph} graphs) against the contract no-dup/complete/order/cycles with a DFS "
                "cycle oracle; sort_classes + add_kernels on real classes of every kind (fieldless struct with dependents, chain, array/ref/union, "
                f"_depends_on, diamond, 2-/3-/self-cycles) for several root subsets and orders ({ncomp} compiled); distinct by graph / (kind, roots)",
        "exhaustive": True, "violations": _by_key(violations), "samples": samples,
    }


def _closure(roots):
    seen = {}
    todo = list(roots)
    while todo:
        c = todo.pop()
        if id(c) in seen:
            continue
        seen[id(c)] = c
        todo += deps_of(c)
    return list(seen.values())


def _by_key(violations, cap=12):
    """one representative per case key (known findings must not crowd out new violations)"""
    seen = {}
    for v in violations:
        seen.setdefault(v.get("case_key"), v)
    return list(seen.values())[:cap]
