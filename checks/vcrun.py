"""developer runner: python -m checks.vcrun <module> [group-substring] [-v]"""
import importlib
import sys

from pyvc import solve
from pyvc.core import PyvcError

if __name__ == "__main__":
    mod = importlib.import_module("checks." + sys.argv[1])
    sel = [a for a in sys.argv[2:] if not a.startswith("-")]
    for name, (g, props) in mod.GROUPS.items():
        if sel and not any(x in name for x in sel):
            continue
        try:
            obs = g()
        except PyvcError as e:
            print(name, "UNSUPPORTED", e)
            continue
        solve.discharge_all(obs, solve.QUICK)
        for o in obs:
            if o.status != "discharged" or "-v" in sys.argv:
                print(f"  {o.status:10s} {o.time:6.2f} {o.backend} {o.name}")
        print(name, sum(o.status == "discharged" for o in obs), "/", len(obs), "undecided:", getattr(g, "undecided", []))
