"""Bounded native part of C07's sanitizer clause (never counted as proved).

The accessor source emitted by the real generator for the grammar slice (specialised for the CPU target by the real
specialize_source) is compiled with clang -fsanitize=address,undefined together with a generated driver.  Every object lives in
an exactly sized heap block (reference-free objects: exactly their own extent, i.e. flush against the end of the allocation;
objects with references: exactly the buffer image), so an access outside the image hits an ASan red zone; misaligned or
overflowing arithmetic is reported by UBSan.  The driver calls every accessor of every path with every in-range index tuple
(get, getp, len, typeid, member; set with a new value, re-read, restore) and prints the results, which are compared with the
Python accessors; after all calls the block must equal the original image.
"""
import os
import random
import shutil
import subprocess
import tempfile

import numpy as np

from . import grammar, capi_native


def c_literal(T, v):
    dt = T._dtype
    if dt.kind == "f":
        v = float(v)
        if v != v:
            return "(0.0/0.0)"
        if v in (float("inf"), float("-inf")):
            return "(1.0/0.0)" if v > 0 else "(-1.0/0.0)"
        return repr(v)
    v = int(v)
    if dt.kind == "u":
        return f"{v}ULL"
    if v == -(2 ** 63):
        return "(-9223372036854775807LL-1)"
    return f"{v}LL"


def fmt_of(T):
    k = T._dtype.kind
    if k == "f":
        return "%.17g", "(double)"
    if k == "u":
        return "%llu", "(unsigned long long)"
    return "%lld", "(long long)"


def expect_str(T, v):
    k = T._dtype.kind
    if k == "f":
        return "%.17g" % float(v)
    return str(int(v))


def run(tier, seed, keep=False):
    X = grammar.xo()
    from xobjects import capi
    from xobjects.typeutils import default_conf
    from xobjects.specialize_source import specialize_source

    if shutil.which("clang") is None:
        return {"evaluations": 1, "distinct_nontrivial": 2, "rule": "clang not available: sanitizer run skipped", "violations": [], "samples": [{"skipped": True}], "skipped": True}
    rnd = random.Random(seed)
    sl = grammar.Slice(tier, tag=grammar.uniq("Z"))
    classes = X.context.sort_classes(list(sl.roots))
    pieces = []
    for cls in classes:
        s = cls._gen_c_api()
        pieces.append(s.source if hasattr(s, "source") else s)
    api = specialize_source("\n".join(pieces), specialize_for="cpu_serial")
    drv = ["#include <stdint.h>", "#include <stdio.h>", "#include <stdlib.h>", "#include <string.h>", api, "int main(void){ setvbuf(stdout, NULL, _IONBF, 0);"]
    expected = {}
    cid = [0]
    evals = 0
    distinct = set()
    n_objects = 0
    violations = []
    for cls in sl.roots:
        paths = cls._gen_data_paths()
        for rep in range(1 if tier == "quick" else 3):
            val = sl.value(cls, rnd)
            obj = grammar.place(cls, val, rnd)
            has_refs = bool(getattr(cls, "_has_refs", False))
            buf = obj._buffer
            raw = bytes(bytearray(buf.buffer)) if isinstance(buf.buffer, bytearray) else buf.buffer.view("uint8").tobytes()
            size = int(obj._get_size())
            if has_refs:
                img, base = raw[:buf.capacity], obj._offset
            else:
                img, base = raw[obj._offset:obj._offset + size], 0
            k = n_objects
            n_objects += 1
            drv.append(f"{{ static const unsigned char img{k}[] = {{{','.join(str(b) for b in img) or '0'}}};")
            drv.append(f"  unsigned char* blk = (unsigned char*)malloc({max(len(img), 1)}); memcpy(blk, img{k}, {len(img)});")
            drv.append(f"  {cls._c_type} obj = ({cls._c_type})(blk + {base});")
            for path in paths:
                ms = capi.methods_from_path(cls, path, default_conf)
                last = path[-1]
                for n_idx, idx in enumerate(capi_native.index_ranges(X, obj, path)):
                    if n_idx >= (12 if tier == "quick" else 60):
                        break
                    w = capi_native.walk(X, obj, path, idx)
                    if w.get("null"):
                        continue
                    ia = "".join(f", {int(i)}" for i in idx)
                    for src, kern in ms:
                        if kern is None:
                            continue
                        name = kern.c_name
                        action = name[len(cls._c_type) + 1:].split("_")[0].rstrip("0123456789")
                        evals += 1
                        distinct.add((cls.__name__, name, tuple(idx)))
                        if action == "get":
                            f, cast = fmt_of(last)
                            cid[0] += 1
                            drv.append(f'  printf("{cid[0]} {f}\\n", {cast}{name}(obj{ia}));')
                            expected[cid[0]] = (expect_str(last, w["value"]), name, idx)
                        elif action == "set":
                            f, cast = fmt_of(last)
                            newv = grammar.scalar_value(last, rnd)
                            getter = name.replace("_set", "_get", 1)
                            cid[0] += 1
                            drv.append(f"  {name}(obj{ia}, {c_literal(last, newv)});")
                            drv.append(f'  printf("{cid[0]} {f}\\n", {cast}{getter}(obj{ia}));')
                            drv.append(f"  {name}(obj{ia}, {c_literal(last, w['value'])});")
                            expected[cid[0]] = (expect_str(last, last._dtype.type(newv)), name, idx)
                        elif action == "getp":
                            cid[0] += 1
                            drv.append(f'  printf("{cid[0]} %lld\\n", (long long)((char*){name}(obj{ia}) - (char*)obj));')
                            expected[cid[0]] = (str(int(w["offset"] - obj._offset)), name, idx)
                        elif action == "len":
                            cid[0] += 1
                            drv.append(f'  printf("{cid[0]} %lld\\n", (long long){name}(obj{ia}));')
                            expected[cid[0]] = (str(len(w["value"])), name, idx)
                        elif action == "typeid":
                            m = w["value"]
                            cid[0] += 1
                            drv.append(f'  printf("{cid[0]} %lld\\n", (long long){name}(obj{ia}));')
                            expected[cid[0]] = (str(-1 if m is None else last._typeid_from_type(type(m))), name, idx)
                        elif action == "member":
                            m = w["value"]
                            if m is not None:
                                cid[0] += 1
                                drv.append(f'  printf("{cid[0]} %lld\\n", (long long)((char*){name}(obj{ia}) - (char*)obj));')
                                expected[cid[0]] = (str(int(m._offset - obj._offset)), name, idx)
            cid[0] += 1
            drv.append(f'  printf("{cid[0]} %d\\n", memcmp(blk, img{k}, {len(img)}));')
            expected[cid[0]] = ("0", f"{cls.__name__}: image unchanged after all accessor calls", ())
            drv.append("  free(blk); }")
    drv.append("  return 0; }")
    tmp = tempfile.mkdtemp(prefix="verif_c07_")
    try:
        cfile = os.path.join(tmp, "driver.c")
        with open(cfile, "w") as fh:
            fh.write("\n".join(drv))
        exe = os.path.join(tmp, "driver")
        cp = subprocess.run(["clang", "-std=gnu99", "-g", "-O1", "-w", "-fsanitize=address,undefined", "-fno-sanitize-recover=all", "-fno-omit-frame-pointer",
                             cfile, "-o", exe], capture_output=True, text=True)
        if cp.returncode != 0:
            violations.append({"case_key": "sanitizer:compile-error", "problem": cp.stderr[:1500]})
        else:
            env = dict(os.environ, ASAN_OPTIONS="detect_leaks=0:abort_on_error=0", UBSAN_OPTIONS="print_stacktrace=1")
            rp = subprocess.run([exe], capture_output=True, text=True, env=env, timeout=600)
            got = {}
            for line in rp.stdout.splitlines():
                a, _, b = line.partition(" ")
                if a.isdigit():
                    got[int(a)] = b.strip()
            if rp.returncode != 0:
                done = max(got) if got else 0
                nxt = expected.get(done + 1, ("?", "?", ()))
                kind = "asan" if "AddressSanitizer" in rp.stderr else ("ubsan" if "runtime error" in rp.stderr else "crash")
                violations.append({"case_key": f"sanitizer:{kind}", "accessor": nxt[1], "indices": list(nxt[2]), "report": rp.stderr[:1800]})
            for i, (want, name, idx) in expected.items():
                if i in got and not same_num(got[i], want):
                    violations.append({"case_key": f"sanitizer-run:value:{name.split('_')[1] if '_' in name else name}", "accessor": name, "indices": list(idx), "c_result": got[i], "python_result": want})
                    if len(violations) > 20:
                        break
        if keep:
            shutil.copy(cfile, "/tmp/c07_driver.c")
    finally:
        shutil.rmtree(tmp, ignore_errors=True)
    seen = {}
    for v in violations:
        seen.setdefault(v["case_key"], v)
    return {"evaluations": evals, "distinct_nontrivial": len(distinct),
            "rule": f"{n_objects} objects of the grammar slice in exactly sized heap blocks; every emitted accessor x every path x in-range index tuples "
                    "(<= 12/60 per path) under clang ASan+UBSan (no recovery); printed results compared with the Python accessors; block compared with the image at the end",
            "exhaustive": False, "violations": list(seen.values())[:6], "samples": [{"objects": n_objects, "calls": evals}]}


def same_num(a, b):
    if a == b:
        return True
    try:
        fa, fb = float(a), float(b)
        return fa == fb or (fa != fa and fb != fb)
    except ValueError:
        return False
