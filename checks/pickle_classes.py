"""importable struct / array / hybrid classes for the pickling checks (C20): pickle stores classes by module path"""
import sys
import os

REPO = os.environ.get("VERIF_REPO", "/repo")
if REPO not in sys.path:
    sys.path.insert(0, REPO)
import xobjects as xo  # noqa: E402


class PkStatic(xo.Struct):
    a = xo.Int64
    b = xo.Float64
    c = xo.Int8


class PkOneDyn(xo.Struct):
    n = xo.Int32
    x = xo.Float64[:]


class PkTwoDyn(xo.Struct):
    n = xo.Int32
    x = xo.Float64[:]
    s = xo.String
    y = xo.Int16[:]


class PkNested(xo.Struct):
    k = xo.Int64
    inner = PkTwoDyn
    t = PkStatic


class PkArr(xo.Float64[:]):
    pass


class PkArr2(xo.Int32[:, 3]):
    pass


class PkArrS(PkOneDyn[:]):
    pass


class PkGridF(xo.String[2:1, 3:0]):  # dynamically sized items, two axes, Fortran axis order
    pass


class PkGrid3(xo.String[:2, 2:0, :1]):  # ... three axes in a cyclic axis order, dynamic extents
    pass


class PkNumF(xo.Float64[3:1, 2:2, 2:0]):  # numbers, cyclic axis order
    pass


class PkHybStatic(xo.HybridClass):
    _xofields = {"p": xo.Float64, "q": xo.Int64}


class PkHybDyn(xo.HybridClass):
    _xofields = {"v": xo.Float64[:], "w": xo.Int32[:], "name": xo.String, "k": xo.Int8}


class PkHybNested(xo.HybridClass):
    _xofields = {"h": PkHybStatic._XoStruct, "d": PkHybDyn._XoStruct, "z": xo.Float64}

    def __init__(self, **kw):
        self.xoinitialize(**kw)
