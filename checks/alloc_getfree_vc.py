"""C12, accounting clause, function XBuffer.get_free: the reported free total is the sum of the sizes (end - start) of exactly the
chunks of the free list.  Together with the free list's invariants (WF: chunks pairwise disjoint, inside the capacity; LiveSep: no live
byte in a chunk; no_leak / free_exact / reusable: which bytes are in chunks after each operation -- all discharged on allocate / free /
grow) this is the statement's "reported free total = bytes that are neither live nor lost to padding".

The real body is executed on an abstract free list.  `sum([e(ch) for ch in L])` is read as the left fold of e over L from 0 (python
semantics assumed for `sum` and for a list comprehension without filter: one entry per element, in order).  Equality with the
specification's fold SUM(L) = sum of (end - start) is an induction over the list: base 0 == 0, step "fold + e(ch) == spec fold +
(ch.end - ch.start)" -- i.e. the obligation `lemma.sum.step.term_is_chunk_size` for a generic chunk -- plus the structural
obligations that the comprehension ranges over exactly self.chunks, unfiltered, and that its sum is what is returned."""
import ast
import z3

from pyvc.core import SymObj, Unsupported, fresh_int, HARNESS_ERRORS, is_sym
from . import types_vc as T

CTX = "xobjects/context.py"


class _FreeList:
    """self.chunks: only its identity is observed"""


class _Mapped:
    def __init__(self, base, term, start, end, filtered):
        self.base, self.term, self.start, self.end, self.filtered = base, term, start, end, filtered


def obligations_get_free():
    it = T.new_interp()
    it.class_home["Chunk"] = CTX
    it.class_home["XBuffer"] = CTX
    con = T._contract(CTX, "XBuffer.get_free", ["C12"])
    fl = _FreeList()
    me = SymObj("XBuffer", {"chunks": fl})
    me.closed = True
    box = {}

    def ev_ListComp(st, n):
        if len(n.generators) != 1:
            raise Unsupported("nested comprehension")
        g = n.generators[0]
        for st1, seq in it.ev(st, g.iter):
            s_, e_ = fresh_int("chunk_start"), fresh_int("chunk_end")
            ch = SymObj("Chunk", {"start": s_, "end": e_})
            ch.closed = True
            ch.relpath = CTX
            saved = dict(st1.locals)
            for _ in it.assign(st1, g.target, ch):
                pass
            term = it.sv(st1, n.elt)
            st1.frames[-1].locals = saved
            yield st1, _Mapped(seq, term, s_, e_, bool(g.ifs))
    it.ev_ListComp = ev_ListComp
    it.ev_GeneratorExp = ev_ListComp

    def bi_sum(st, f, args, kw, node):
        x = args[0]
        if not isinstance(x, _Mapped) or len(args) != 1:
            raise Unsupported("sum of something other than a comprehension over the free list")
        r = fresh_int("free_total")
        box["sum"] = (r, x)
        return r
    it.bi_sum = bi_sum
    try:
        for st, out in it.exec_function(con, {"self": me}):
            if out is None or out[0] != "return":
                it.oblige(st, "raises", "never", False, out[2] if out else None)
                continue
            res = out[1]
            r, m = box.get("sum", (None, None))
            ok = r is not None and is_sym(res) and z3.eq(z3.simplify(res), z3.simplify(r))
            it.oblige(st, "post", "returns_the_sum_over_the_free_list", z3.BoolVal(bool(ok and m.base is fl and not m.filtered)))
            if m is not None:
                it.oblige(st, "lemma", "sum.step.term_is_chunk_size", T.zb(m.term == m.end - m.start) if not isinstance(m.term == m.end - m.start, bool) else z3.BoolVal(m.term == m.end - m.start))
    except HARNESS_ERRORS as e:
        obligations_get_free.undecided = [("get_free", str(e)[:200])]
    for o in it.obligations:
        o.properties = ["C12"]
    obligations_get_free.interp = it
    return it.obligations


obligations_get_free.__name__ = "XBuffer.get_free"
obligations_get_free.functions = [(CTX, "XBuffer.get_free"), (CTX, "Chunk.size")]
