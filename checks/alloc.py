"""C04 / C12: allocator.  Deductive part: contracts/alloc.py on the real XBuffer methods.
Bounded part (cross-check of the encoding + counterexample finder, never counted as proved):
  (a) every WF buffer state up to a small capacity x every operation, run on the real BufferNumpy /
      BufferByteArray with the same contract clauses evaluated natively;
  (b) random histories from the constructor compared step by step with the executable first-fit
      model spec/alloc_model.py.
"""
import itertools
import os
import random
import sys
import types

from . import common
from pyvc.registry import reg
from pyvc import native, bvmode

CTX = "xobjects/context.py"


def _xo():
    import importlib

    if common.REPO not in sys.path:
        sys.path.insert(0, common.REPO)
    import xobjects  # noqa

    ctx = importlib.import_module("xobjects.context")
    cpu = importlib.import_module("xobjects.context_cpu")
    assert os.path.realpath(ctx.__file__).startswith(os.path.realpath(common.REPO)), ctx.__file__
    return ctx, cpu


class ChunkSnap:
    def __init__(self, ch):
        self.start, self.end, self.ident = ch.start, ch.end, id(ch)


def snap(v):
    if hasattr(v, "chunks") and hasattr(v, "capacity"):
        return types.SimpleNamespace(
            capacity=v.capacity,
            chunks=[ChunkSnap(c) for c in v.chunks],
            buffer=native.StorageSnap(bytes(memoryview(v.buffer).cast("B")) if not isinstance(v.buffer, bytearray) else bytes(v.buffer), id(v.buffer)),
            default_alignment=v.default_alignment,
            grow_step=v.grow_step,
            context=v.context,
        )
    return v


def chunk_lists(cap, allow_empty_chunks=True):
    """all sorted, pairwise non-touching chunk lists inside [0, cap]"""
    out = []

    def rec(lo, acc):
        out.append(list(acc))
        for s in range(lo, cap + 1):
            for e in range(s if allow_empty_chunks else s + 1, cap + 1):
                acc.append((s, e))
                rec(e + 1, acc)
                acc.pop()

    rec(0, [])
    return out


def live_partitions(cap, chunks):
    """ways to cover the non-free bytes by live regions: each maximal used run is one region or split in two"""
    free = set()
    for s, e in chunks:
        free.update(range(s, e))
    runs = []
    x = 0
    while x < cap:
        if x in free:
            x += 1
            continue
        y = x
        while y < cap and y not in free:
            y += 1
        runs.append((x, y))
        x = y
    opts = []
    for s, e in runs:
        o = [[(s, e - s)]]
        if e - s >= 2:
            m = (s + e) // 2
            o.append([(s, m - s), (m, e - m)])
        opts.append(o)
    for combo in itertools.product(*opts):
        yield [r for part in combo for r in part]


def make_buffer(cpu, ctxmod, kind, cap, chunks, a, g, fill=True):
    cls = cpu.BufferNumpy if kind == "numpy" else cpu.BufferByteArray
    b = cls(capacity=cap, default_alignment=a, grow_step=g, context=_ctx(cpu))
    b.chunks = [ctxmod.Chunk(s, e) for s, e in chunks]
    if fill:
        for x in range(cap):
            b.buffer[x] = (x * 7 + 3) % 127
    return b


_CTX = {}


def _ctx(cpu):
    if "c" not in _CTX:
        _CTX["c"] = cpu.ContextCpu()
    return _CTX["c"]


def state_space(tier):
    if tier == "thorough":
        return dict(maxcap=7, aligns=(1, 2, 4, 8), gsteps=(None, 1, 3), kinds=("numpy", "bytearray"))
    return dict(maxcap=5, aligns=(1, 2, 4), gsteps=(None, 2), kinds=("numpy", "bytearray"))


def bounded_states(tier, seed, focus=None, want_first=False):
    ctxmod, cpu = _xo()
    spec = native.NativeSpec(reg)
    cons = {q: reg.contracts[(CTX, "XBuffer." + q)] for q in ("allocate", "free", "grow")}
    sp = state_space(tier)
    evals = 0
    distinct = set()
    violations = []
    samples = []
    for cap in range(0, sp["maxcap"] + 1):
        for chunks in chunk_lists(cap):
            for lives in live_partitions(cap, chunks):
                for a in sp["aligns"]:
                    for g in sp["gsteps"]:
                        kind = sp["kinds"][(cap + len(chunks) + a) % len(sp["kinds"])]
                        ops = []
                        if focus in (None, "allocate"):
                            for size in range(0, cap + 3):
                                for al in (True, False):
                                    ops.append(("allocate", dict(size=size, align=al), lives))
                        if focus in (None, "free"):
                            for k, (o, s) in enumerate(lives):
                                ops.append(("free", dict(offset=o, size=s), lives[:k] + lives[k + 1:]))
                        if focus in (None, "grow"):
                            for n in (0, 1, 3):
                                ops.append(("grow", dict(capacity=n), lives))
                        for opname, kw, live in ops:
                            b = make_buffer(cpu, ctxmod, kind, cap, chunks, a, g)
                            L = native.LiveSet(live)
                            args = dict(self=b, **kw)
                            f = getattr(type(b), opname)
                            status, failed, res, exc = native.check_call(spec, cons[opname], f, args, {"Live": L}, snap)
                            evals += 1
                            if status == "pre-false":
                                continue
                            distinct.add((opname, cap, tuple(chunks), tuple(live), a, g, tuple(sorted(kw.items()))))
                            if len(samples) < 3 and opname == "allocate" and chunks and evals % 97 == 0:
                                samples.append({"state": {"capacity": cap, "chunks": chunks, "live": live, "alignment": a, "grow_step": g, "kind": kind},
                                                "op": opname, "args": kw, "result": res})
                            if status == "violated":
                                case = {"kind": kind, "capacity": cap, "chunks": chunks, "live": live, "alignment": a,
                                        "grow_step": g, "op": opname, "args": kw, "failed_clauses": failed,
                                        "exception": repr(exc) if exc else None, "result": res}
                                case["case_key"] = case_key(opname, failed, exc)
                                case["script"] = replay_script(case)
                                violations.append(case)
                                if want_first:
                                    return evals, distinct, violations, samples
    return evals, distinct, violations, samples


def case_key(opname, failed, exc):
    if exc is not None:
        return f"{opname}:{type(exc).__name__}"
    return f"{opname}:" + "+".join(sorted(c.split("(")[0] for c in failed))[:80]


def replay_script(case):
    return (
        "import xobjects as xo\nfrom xobjects.context import Chunk\n"
        f"cls = xo.context_cpu.{'BufferNumpy' if case['kind'] == 'numpy' else 'BufferByteArray'}\n"
        f"b = cls(capacity={case['capacity']}, default_alignment={case['alignment']}, grow_step={case['grow_step']})\n"
        f"b.chunks = [Chunk(s, e) for s, e in {case['chunks']}]   # free list; live regions: {case['live']}\n"
        f"print(b.{case['op']}(**{case['args']}), b.chunks, b.capacity)\n"
        f"# contract clauses violated: {case['failed_clauses']}\n"
    )


def random_histories(tier, seed, n_hist=None, steps=None):
    """histories from the constructor vs. the executable first-fit model"""
    ctxmod, cpu = _xo()
    sys.path.insert(0, os.path.join(common.ROOT, "spec"))
    from alloc_model import FreeListModel

    rnd = random.Random(seed)
    n_hist = n_hist or (400 if tier == "thorough" else 60)
    steps = steps or (400 if tier == "thorough" else 120)
    evals = 0
    violations = []
    distinct = set()
    for h in range(n_hist):
        cap = rnd.choice([0, 1, 7, 16, 64, 100])
        a = rnd.choice([1, 2, 4, 8, 16, 64])
        g = rnd.choice([None, None, 1, 5, 32]) if cap else None
        kind = rnd.choice(["numpy", "bytearray"])
        b = make_buffer(cpu, ctxmod, kind, cap, [(0, cap)], a, g, fill=False)
        m = FreeListModel(cap)
        content = {}
        hist = [("init", cap, a, g, kind)]
        bad = None
        for t in range(steps):
            r = rnd.random()
            try:
                if r < 0.55 or not m.live:
                    size = rnd.choice([0, 1, 2, 3, 5, 8, 13, 16, 40]) if rnd.random() < 0.8 else rnd.randint(0, 200)
                    if g is not None and size > 400 * g:
                        size = 3
                    al = rnd.random() < 0.6
                    aa = a if al else 1
                    hist.append(("allocate", size, al))
                    capb = b.capacity
                    o = b.allocate(size, al)
                    if o % aa != 0:
                        bad = f"offset {o} not aligned to {aa}"
                    elif o < 0 or o + size > b.capacity:
                        bad = "region out of bounds"
                    elif b.capacity < capb:
                        bad = "capacity shrank"
                    if size == 0:
                        # degenerate request: not compared with first-fit; the model adopts the resulting free list
                        m.extend(b.capacity)
                        m.free = [(c.start, c.end) for c in b.chunks if c.end > c.start]
                        m.live.append((o, 0))
                        m.pad = m.capacity - m.total_free() - sum(s for _, s in m.live)
                    else:
                        mo, grew = m.allocate(size, aa, b.capacity)
                        if bad is None and (b.capacity != capb) != grew:
                            bad = f"growth decision differs from first-fit spec (impl grew={b.capacity != capb}, spec={grew})"
                        elif bad is None and mo != o:
                            bad = f"not first-fit: got {o}, spec {mo}"
                        for (o2, s2) in m.live[:-1]:
                            if s2 > 0 and not (o + size <= o2 or o2 + s2 <= o):
                                bad = f"overlaps live region {(o2, s2)}"
                    pat = bytes((rnd.randrange(1, 255) for _ in range(size)))
                    if size:
                        b.update_from_buffer(o, pat)
                    content[(o, size, len(hist))] = pat
                    m._tags = getattr(m, "_tags", []) + [(o, size, len(hist))]
                elif r < 0.9:
                    k = rnd.randrange(len(m.live))
                    o, size = m.live[k]
                    hist.append(("free", o, size))
                    tag = [tg for tg in m._tags if tg[0] == o and tg[1] == size][0]
                    m._tags.remove(tag)
                    content.pop(tag)
                    b.free(o, size)
                    m.release(o, size)
                else:
                    n = rnd.choice([0, 1, 8, 50])
                    hist.append(("grow", n))
                    b.grow(n)
                    m.extend(b.capacity)
                    if b.capacity != m.capacity:
                        bad = "grow(n) capacity"
            except Exception as e:  # noqa
                bad = f"raised {type(e).__name__}: {e}"
            evals += 1
            if bad is None:
                impl_free = [(c.start, c.end) for c in b.chunks if c.end > c.start]
                if impl_free != m.free:
                    bad = f"free list {impl_free} differs from spec {m.free}"
                elif b.get_free() != m.total_free() or m.total_free() + sum(s for _, s in m.live) + m.pad != b.capacity:
                    bad = "free-space accounting"
                else:
                    for (o, size, tg), pat in content.items():
                        if size and bytes(b.to_bytearray(o, size)) != pat:
                            bad = f"data of live region {(o, size)} changed"
                            break
            if bad:
                case = {"history": hist, "problem": bad, "case_key": "history:" + bad.split(":")[0].split(" ")[0],
                        "script": history_script(hist)}
                violations.append(case)
                break
        distinct.add(tuple(map(str, hist)))
    return evals, distinct, violations


def history_script(hist):
    init = hist[0]
    lines = ["import xobjects as xo",
             f"b = xo.context_cpu.{'BufferNumpy' if init[4] == 'numpy' else 'BufferByteArray'}(capacity={init[1]}, default_alignment={init[2]}, grow_step={init[3]})"]
    for h in hist[1:]:
        if h[0] == "allocate":
            lines.append(f"print('allocate', b.allocate({h[1]}, {h[2]}), b.chunks, b.capacity)")
        elif h[0] == "free":
            lines.append(f"b.free({h[1]}, {h[2]}); print('free', b.chunks)")
        else:
            lines.append(f"b.grow({h[1]}); print('grow', b.chunks, b.capacity)")
    return "\n".join(lines) + "\n"


class AllocCheck:
    CONTRACT_MODULES = ["alloc"]
    LEVEL = "proof"
    TRUSTED = [
        "interface contracts of the abstract methods XBuffer._new_buffer / copy_to_native / _make_context (assumed here; "
        "implemented by BufferNumpy/BufferByteArray, checked natively in the bounded part and under C13)",
        "pow2(a) => (r & (a-1) == 0 <=> r % a == 0) and uniqueness of the multiple of a in [x, x+a) (elementary arithmetic linking the bit-vector proof of _align to align_up)",
        "axioms of the spec primitives align_up / pymod (defining inequalities of ceiling-multiple and floor-mod for a > 0)",
    ]
    ASSUMPTIONS = [
        "client protocol: free() only of regions currently handed out, size >= 0 (these are the `requires` of the contracts)",
        "default_alignment is a power of two (the property's configuration space); grow_step is None or > 0",
        "MemoryError / interpreter-level failures are not modelled",
        "the bounded native part (small-scope states, random histories) is a cross-check and counterexample finder, not part of the proof",
    ]

    def __init__(self, prop):
        self.PROP = prop
        self.EXPLANATION = (
            "Contract-based deductive verification of the real XBuffer.{__init__,allocate,grow,free} and _align "
            "(source re-read from /repo each run, symbolic execution to VCs, z3/cvc5 portfolio). Representation invariant WF "
            "(sorted, in-bounds, pairwise non-touching free list) and frame LiveIn/LiveSep/LivePair over an arbitrary set of live "
            "regions are established by the constructor and preserved by every operation; two induction-step lemmas close the "
            "argument for all finite histories. "
            + ("C12 adds first-fit (loop invariant: no earlier chunk fits), growth-only-if-needed, termination variant of the retry, "
               "free-never-raises (safety obligations), coalescing (WF non-touching + freed region contained in one chunk) and leak-freedom "
               "(allocate: every old free chunk stays covered by one chunk except < alignment padding bytes before the result and the bytes handed out; "
               "free: every old chunk and the freed region are covered afterwards; grow: free bytes = old free bytes + exactly the added range). "
               "get_free() is proved to return the sum of (end - start) over exactly the chunks of the free list (one induction step for a generic chunk; python semantics of sum / an unfiltered list comprehension assumed); that this sum counts bytes (the chunks are pairwise disjoint) is WF; CPython's recursion limit is decided by the bounded part only."
               if prop == "C12" else
               "C04 clauses: result aligned, in bounds, disjoint from every live region and every free chunk, bytes of [0,old capacity) preserved across growth.")
        )

    def targets(self):
        t = [
            ("<gen>", bvmode.obligations_align),
            (CTX, "XBuffer.__init__"),
            (CTX, "XBuffer.grow"),
            (CTX, "XBuffer.allocate"),
            (CTX, "XBuffer.free"),
        ]
        if self.PROP == "C04":
            t += [("<lemma>", "alloc_step"), ("<lemma>", "free_step")]
        if self.PROP == "C12":
            from .alloc_getfree_vc import obligations_get_free

            t += [("<gen>", obligations_get_free)]
        return t

    def bounded(self, tier, seed, focus):
        ev1, d1, v1, samples = bounded_states(tier, seed, focus)
        ev2, d2, v2 = random_histories(tier, seed)
        viol = self.filter_prop(v1) + self.filter_hist(v2)
        sp = state_space(tier)
        return {
            "evaluations": ev1 + ev2,
            "distinct_nontrivial": len(d1) + len(d2),
            "rule": f"(a) exhaustive: every WF buffer state with capacity <= {sp['maxcap']} (all sorted non-touching chunk lists incl. empty chunks, "
                    f"live regions = each used run whole or split in two), alignments {sp['aligns']}, grow_step {sp['gsteps']}, both buffer kinds alternating, "
                    "x allocate(size<=cap+2, aligned|packed) / free(each live region) / grow(0,1,3); a case is non-trivial if the contract precondition holds; "
                    "distinct by (op, state, args). (b) random histories from the constructor vs executable first-fit model, distinct by history.",
            "exhaustive": True,
            "state_checks": ev1,
            "history_steps": ev2,
            "violations": viol,
            "samples": samples,
        }

    C04_CLAUSES = ("WF", "LiveIn", "LiveSep", "aligned", "in_bounds", "cap_monotone", "new_vs_live", "new_vs_free", "bytes_kept", "cap", "buffer_kept", "cap_kept")

    def filter_prop(self, viols):
        out = []
        for v in viols:
            cl = [c.split(".", 1)[1].split("(")[0] if "." in c else c for c in v["failed_clauses"]]
            is04 = any(c in self.C04_CLAUSES for c in cl)
            is12 = any(c not in self.C04_CLAUSES for c in cl) or v.get("exception")
            if self.PROP == "C04" and is04 and all(c == "WF" or c not in self.C04_CLAUSES for c in cl) and not v.get("exception"):
                # WF also says "free chunks never touch" (maximality: a C12 clause).  For C04 only its safety part counts:
                # chunks in bounds, sorted and not overlapping -- re-evaluate that on the state the operation produced
                is04 = not self._wf_safe_after(v)
            if self.PROP == "C12" and "WF" in cl:
                is12 = True
            if (self.PROP == "C04" and is04) or (self.PROP == "C12" and is12):
                out.append(v)
        return out[:5]

    def _wf_safe_after(self, case):
        try:
            ctxmod, cpu = _xo()
            b = make_buffer(cpu, ctxmod, case["kind"], case["capacity"], [tuple(c) for c in case["chunks"]], case["alignment"], case["grow_step"])
            getattr(b, case["op"])(**case["args"])
            ch = [(c.start, c.end) for c in b.chunks]
            ok = all(0 <= s <= e <= b.capacity for s, e in ch)
            pos = [c for c in ch if c[1] > c[0]]  # empty chunks hold no byte: they cannot make two allocations overlap
            ok = ok and all(pos[i][1] <= pos[i + 1][0] for i in range(len(pos) - 1))
            live = [tuple(r) for r in case["live"] if not (case["op"] == "free" and tuple(r) == (case["args"].get("offset"), case["args"].get("size")))]
            ok = ok and all(n == 0 or all(e <= o or o + n <= s or s == e for s, e in ch) for o, n in live)
            return ok and len(b.buffer) == b.capacity
        except Exception:  # noqa
            return False

    C04_HIST = ("offset", "region", "overlaps", "data")

    def filter_hist(self, viols):
        out = []
        for v in viols:
            is04 = v["problem"].split(" ")[0] in self.C04_HIST
            if (self.PROP == "C04") == is04:
                out.append(v)
        return out[:5]

    def find_counterexample(self, ob, seed):
        """bounded native search for a failing input of the function the obligation belongs to (cached per function:
        all obligations of one function share the search)"""
        fn = ob.name.split("#")[0].split(".")[-1]
        focus = fn if fn in ("allocate", "free", "grow") else None
        cache = self.__dict__.setdefault("_cex_cache", {})
        if focus in cache:
            return cache[focus]
        cex = None
        ev, d, viol, _ = bounded_states("quick", seed, focus)
        if not self.filter_prop(viol):
            ev, d, viol, _ = bounded_states("thorough", seed, focus)
        viol = self.filter_prop(viol)  # only inputs that violate a clause of THIS property
        if viol:
            cex = viol[0]
        else:
            ev2, d2, v2 = random_histories("quick", seed, n_hist=200, steps=150)
            v2 = self.filter_hist(v2)
            if v2:
                cex = v2[0]
        cache[focus] = cex
        return cex

    def reproduce_known(self, k):
        case = k.get("repro")
        if not case:
            return None
        ctxmod, cpu = _xo()
        if case["type"] == "script":
            try:
                exec(case["code"], {"xo": __import__("xobjects")})
            except Exception as e:
                return type(e).__name__ == case["expect_exception"]
            return False
        return None
