"""C14: every class API emitted once, after its dependencies; cycles reported."""
from . import common, toposort_native


class TopoCheck:
    CONTRACT_MODULES = []
    LEVEL = "other"
    PROP = "C14"
    TRUSTED = ["the DFS cycle oracle and the contract evaluator of checks/toposort_native.py", "the host C compiler and cffi for the 'emitted source compiles' clause"]
    ASSUMPTIONS = [
        "bounded: all source dicts over <= 3 nodes and a slice of the 4-node ones; eight real class graphs x several root orders; not a proof",
        "deductive part: 'emitted exactly once' (no duplicates in the result of topological_sort, any graph) and 'every class they depend on, "
        "transitively' (sort_classes closes the class list under dependencies and hands topological_sort a closed graph; a reported cycle raises); "
        "'before first use', the cycle flag itself and 'the source compiles' need edge-multiset counting / a compiler and are decided by the bounded part",
        "the contract of topological_sort used in the sort_classes proof (it returns only names that are keys of its argument or listed as parents) is "
        "itself discharged: post.lists_only_nodes_of_the_argument, carried by the invariants graph_keys_are_listed_parents / child_lists_hold_keys_only / "
        "listed_nodes_are_nodes_of_the_argument; assumed python semantics: a dict comprehension over a list has exactly the names of the listed classes "
        "as keys; list(d.keys()) lists keys of d",
        "python semantics assumed in the proof: a filtering list comprehension yields an order-preserving subsequence; dict keys are pairwise distinct",
        "sources_from_classes (the glue between the sorted list and the emitted text) is under contract: the API of every listed class exactly once, in the "
        "order of the classes, extra sources after the API of their class (ghost witness maps POS / OWN); _concatenate_sources / add_kernels (file reading, "
        "cffi) stay with the bounded part; Kernel.get_classes (every argument / return type that has an API, nothing else) and classes_from_kernels "
        "(the classes of every kernel of the dict are members of the result) are under contract as well (assumed python semantics: a filtering comprehension "
        "lists e(a) for exactly the a that pass the filter; set.update adds the elements of its argument)",
    ]
    EXPLANATION = ("Proved on the real topological_sort for every input graph (symbolic dict/list model, seven loop invariants): the result never "
                   "lists a node twice when no cycle is reported and lists only nodes of its argument (keys or listed parents).  Proved on the real sort_classes for every class list and dependency relation (abstract "
                   "classes, growing list cut at a five-clause invariant): at the call of topological_sort every listed class has an entry and every "
                   "dependency name is itself a key (closure), a reported cycle raises, every sorted name is found in class_by_name. Proved on the real sources_from_classes for every class list: the returned sources hold the API of every listed class exactly once, in list order (invariant with ghost witness maps). Bounded: run-time evaluation of the contract of topological_sort (no duplicate, complete, parents first, has_cycle iff cyclic) on the real "
                   "function over an exhaustively enumerated small scope, and of sort_classes/add_kernels on real classes of every kind including "
                   "fieldless structs with dependents, _depends_on and cycles. Bounded stand-in, labelled as such.")

    def targets(self):
        from . import toposort_vc, sortclasses_vc, sources_vc, sources2_vc

        return toposort_vc.targets() + sortclasses_vc.targets() + sources_vc.targets() + sources2_vc.targets()

    def bounded(self, tier, seed, focus):
        return toposort_native.run(tier, seed)

    def find_counterexample(self, ob, seed):
        return None

    def reproduce_known(self, k):
        return None
