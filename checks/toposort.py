"""C14: every class API emitted once, after its dependencies; cycles reported."""
from . import common, toposort_native


class TopoCheck:
    CONTRACT_MODULES = []
    LEVEL = "exploration"
    PROP = "C14"
    NO_DEDUCTIVE = True
    TRUSTED = ["the DFS cycle oracle and the contract evaluator of checks/toposort_native.py", "the host C compiler and cffi for the 'emitted source compiles' clause"]
    ASSUMPTIONS = [
        "bounded: all source dicts over <= 3 nodes and a slice of the 4-node ones; eight real class graphs x several root orders; not a proof",
        "the deductive obligations planned for topological_sort (no-dup invariant over a symbolic dict/list model) are not built in this version",
    ]
    EXPLANATION = ("Run-time evaluation of the contract of topological_sort (no duplicate, complete, parents first, has_cycle iff cyclic) on the real "
                   "function over an exhaustively enumerated small scope, and of sort_classes/add_kernels on real classes of every kind including "
                   "fieldless structs with dependents, _depends_on and cycles. Bounded stand-in, labelled as such.")

    def targets(self):
        return []

    def bounded(self, tier, seed, focus):
        return toposort_native.run(tier, seed)

    def find_counterexample(self, ob, seed):
        return None

    def reproduce_known(self, k):
        return None
