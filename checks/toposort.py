"""C14: every class API emitted once, after its dependencies; cycles reported."""
from . import common, toposort_native


class TopoCheck:
    CONTRACT_MODULES = []
    LEVEL = "other"
    PROP = "C14"
    TRUSTED = ["the DFS cycle oracle and the contract evaluator of checks/toposort_native.py", "the host C compiler and cffi for the 'emitted source compiles' clause"]
    ASSUMPTIONS = [
        "bounded: all source dicts over <= 3 nodes and a slice of the 4-node ones; eight real class graphs x several root orders; not a proof",
        "deductive part: only the 'emitted exactly once' clause (no duplicates in the result of topological_sort, any graph); 'before first use', "
        "'cycles are reported' and 'the source compiles' need edge-multiset counting / a compiler and are decided by the bounded part",
        "python semantics assumed in the proof: a filtering list comprehension yields an order-preserving subsequence; dict keys are pairwise distinct",
    ]
    EXPLANATION = ("Proved on the real topological_sort for every input graph (symbolic dict/list model, four loop invariants): the result never "
                   "lists a node twice when no cycle is reported. Bounded: run-time evaluation of the contract of topological_sort (no duplicate, complete, parents first, has_cycle iff cyclic) on the real "
                   "function over an exhaustively enumerated small scope, and of sort_classes/add_kernels on real classes of every kind including "
                   "fieldless structs with dependents, _depends_on and cycles. Bounded stand-in, labelled as such.")

    def targets(self):
        from . import toposort_vc

        return toposort_vc.targets()

    def bounded(self, tier, seed, focus):
        return toposort_native.run(tier, seed)

    def find_counterexample(self, ob, seed):
        return None

    def reproduce_known(self, k):
        return None
