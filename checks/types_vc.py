"""Deductive obligations on the type layer (struct / array / string / ref): the functions C01, C03, C05, C06, C08, C10,
C11 depend on, executed symbolically from /repo's current source.

Under contract in this file
  typeutils._to_slot_size                         bit-vector proof: result is the least multiple of 8 >= size
  array.get_c_strides/get_f_strides/get_strides   rank 1..3 x every axis order: documented strides (loop-free harness
  array.get_offset / bound_check / mk_order       over symbolic extents: complete for the rank range of the grammar);
                                                  in-range indices address disjoint item extents inside the data area
  array.MetaArray.__new__                         ArrayLayout: the class-level header layout the C generator relies on
  array.Array._from_buffer / _get_offset / __getitem__ address   HandleInv and the Python-side AddrSpec (see part 2)
  string.MetaString._inspect_args/_to_buffer/_from_buffer, ref.Ref._to_buffer/_from_buffer, ...  (see part 3)
Every group is a generator of named obligations; `targets(prop)` selects the groups a property depends on.
"""
import itertools
import ast
import z3

from pyvc.registry import reg
from pyvc.interp import Interp
from pyvc.core import PList, PDict, SymObj, ClassVal, fresh_int, fresh_bool, fresh_name, Unsupported, PyvcError, Obligation, same_value, HARNESS_ERRORS
from pyvc import source as src, bvmode

ARR = "xobjects/array.py"
TU = "xobjects/typeutils.py"
TRUSTED = [
    "pyvc encoding of the python subset (DESIGN 2.3); rank <= 3 and the 1+2+6 axis orders are enumerated (complete for the grammar's rank range)",
]


def _contract(relpath, qualname, props):
    key = (relpath, qualname)
    sp = type("spec_" + qualname.replace(".", "_"), (), {"params": {}, "properties": list(props)})
    saved = reg.contracts.get(key)
    reg.contract(relpath, qualname)(sp)
    c = reg.contracts[key]
    c.inline = True
    if saved is not None:
        reg.contracts[key] = saved
    return c


def new_interp():
    it = Interp(reg)
    it.obligations = []
    it.path_counter = {}
    it.overrides = {}
    it.class_home = {"MetaArray": ARR, "Index": ARR, "MetaStruct": "xobjects/struct.py", "Field": "xobjects/struct.py"}
    it.overrides[(TU, "_to_slot_size")] = lambda i, st, f, a, k, n: ov_slot(i, st, f, a, k, n)
    return it


def perms(rank):
    return [list(p) for p in itertools.permutations(range(rank))]


def prod(xs):
    out = z3.IntVal(1)
    for x in xs:
        out = out * x
    return out


def doc_strides(shape, order, w):
    """documented strides: the axis order[k] is at memory level k (0 = slowest)"""
    r = len(shape)
    s = [None] * r
    for k in range(r):
        s[order[k]] = w * prod([shape[order[m]] for m in range(k + 1, r)])
    return s


# ------------------------------------------------------------------------------------------------ group 1: slot size
def vc_slot_size():
    """_to_slot_size(size) for 0 <= size < 2^61: result % 8 == 0, size <= result < size + 8 (64-bit vectors, no wrap)"""
    fnode = src.func_node(TU, "_to_slot_size")
    body = src.body_of(fnode)
    if len(body) != 1 or not isinstance(body[0], ast.Return):
        raise Unsupported("_to_slot_size: body is not a single return")
    W = bvmode.W
    x = z3.BitVec("size", W)
    side = []
    r = bvmode._ev(body[0].value, {fnode.args.args[0].arg: x}, side)
    pre = [x >= 0, z3.ULT(x, z3.BitVecVal(1 << 61, W))]
    goals = [("multiple_of_8", r & 7 == 0), ("not_below", r >= x), ("less_than_next_slot", r < x + 8)] + [(f"no_overflow{k}", g) for k, g in enumerate(side)]
    obs = []
    for nm, g in goals:
        ob = Obligation(f"{TU}:_to_slot_size#bv.{nm}", pre, g, "bv", fnode.lineno)
        ob.base = ob.name
        obs.append(ob)
    return obs


# ------------------------------------------------------------------------------------------------ group 2: stride arithmetic
def vc_strides():
    obs = []
    its = []
    for rank in (1, 2, 3):
        for order in perms(rank):
            lab = f"rank{rank}:order{''.join(map(str, order))}"
            # get_strides == documented strides
            it = new_interp()
            its.append(it)
            con = _contract(ARR, "get_strides", [])
            shape = tuple(fresh_int(f"n{k}") for k in range(rank))
            w = fresh_int("w")
            pre = [w >= 1] + [s >= 0 for s in shape]
            for st, out in it.exec_function(con, {"shape": shape, "order": PList(list(order)), "itemsize": w}, pre=pre):
                if out is None or out[0] != "return" or not isinstance(out[1], tuple) or len(out[1]) != rank:
                    it.oblige(st, "post", f"returns_tuple[{lab}]", False)
                    continue
                want = doc_strides(shape, order, w)
                for k in range(rank):
                    it.oblige(st, "post", f"stride{k}[{lab}]", out[1][k] == want[k])
            obs += it.obligations
            # get_offset / bound_check with the documented strides: in range, inside the data area, injective
            it = new_interp()
            its.append(it)
            con = _contract(ARR, "get_offset", [])
            idx = tuple(fresh_int(f"i{k}") for k in range(rank))
            jdx = tuple(fresh_int(f"j{k}") for k in range(rank))
            strides = tuple(doc_strides(shape, order, w))
            inr = [z3.And(0 <= i, i < s) for i, s in zip(idx, shape)]
            jnr = [z3.And(0 <= j, j < s) for j, s in zip(jdx, shape)]
            offs = []
            for which, ix in (("i", idx), ("j", jdx)):
                for st, out in it.exec_function(con, {"idx": ix, "strides": strides}, pre=pre + inr + jnr):
                    offs.append(out[1])
                    if which == "i":
                        it.oblige(st, "post", f"is_dot_product[{lab}]", out[1] == sum(i * s for i, s in zip(ix, strides)))
                        it.oblige(st, "post", f"nonneg[{lab}]", out[1] >= 0)
                        it.oblige(st, "post", f"item_inside_data[{lab}]", out[1] + w <= w * prod(shape))
                        it.oblige(st, "post", f"multiple_of_itemsize[{lab}]", z3.Exists([z3.Int("q")], out[1] == z3.Int("q") * w) if rank > 3 else _multiple(out[1], w, ix, shape, order))
            if len(offs) == 2:
                st0 = list(it.exec_function(con, {"idx": idx, "strides": strides}, pre=pre + inr + jnr))[0][0]
                differ = z3.Or(*[i != j for i, j in zip(idx, jdx)])
                it.oblige(st0, "post", f"distinct_indices_disjoint_items[{lab}]",
                          z3.Implies(differ, z3.Or(offs[0] + w <= offs[1], offs[1] + w <= offs[0])))
            obs += it.obligations
        # bound_check raises IndexError iff some index is out of range (equal rank)
        it = new_interp()
        its.append(it)
        con = _contract(ARR, "bound_check", [])
        shape = tuple(fresh_int(f"n{k}") for k in range(rank))
        idx = tuple(fresh_int(f"i{k}") for k in range(rank))
        allin = z3.And(*[z3.And(0 <= i, i < s) for i, s in zip(idx, shape)])
        for st, out in it.exec_function(con, {"index": idx, "shape": shape}, pre=[s >= 0 for s in shape]):
            if out is not None and out[0] == "raise":
                it.oblige(st, "raises", f"error.only_if_out_of_range[rank{rank}]", z3.Not(allin), out[2])  # any error class: the statement says "raise an error"
            else:
                it.oblige(st, "post", f"returns_only_if_in_range[rank{rank}]", allin)
        obs += it.obligations
    # C and F strides are the two extreme orders
    for rank in (1, 2, 3):
        for fn, order in (("get_c_strides", list(range(rank))), ("get_f_strides", list(range(rank - 1, -1, -1)))):
            it = new_interp()
            its.append(it)
            con = _contract(ARR, fn, [])
            shape = tuple(fresh_int(f"n{k}") for k in range(rank))
            w = fresh_int("w")
            for st, out in it.exec_function(con, {"shape": shape, "itemsize": w}, pre=[w >= 1] + [s >= 0 for s in shape]):
                want = doc_strides(shape, order, w)
                for k in range(rank):
                    it.oblige(st, "post", f"stride{k}[rank{rank}]", out[1][k] == want[k])
            obs += it.obligations
        it = new_interp()
        its.append(it)
        con = _contract(ARR, "mk_order", [])
        shape = tuple(fresh_int(f"n{k}") for k in range(rank))
        for o, want in (("C", list(range(rank))), ("F", list(range(rank - 1, -1, -1))), (PList(perms(rank)[-1]), perms(rank)[-1])):
            for st, out in it.exec_function(con, {"order": o, "shape": shape}):
                got = out[1].items if isinstance(out[1], PList) else list(out[1])
                it.oblige(st, "post", f"order_{o if isinstance(o, str) else 'explicit'}[rank{rank}]", got == want)
        obs += it.obligations
    vc_strides.interps = its
    return obs


def _multiple(off, w, idx, shape, order):
    """off is w times the mixed-radix position of idx in memory order"""
    r = len(shape)
    pos = z3.IntVal(0)
    for k in range(r):
        pos = pos + idx[order[k]] * prod([shape[order[m]] for m in range(k + 1, r)])
    return off == w * pos


GROUPS = {}


def group(name, fn, functions, props):
    def g():
        fn.undecided = []
        obs = fn()
        g.undecided = list(fn.undecided)
        its = getattr(fn, "interps", [])

        class _I:
            n_paths = sum(getattr(i, "n_paths", 0) or 0 for i in its) or len(obs)
            stats = {"inlined": set().union(*[i.stats["inlined"] for i in its]) if its else set()}
        g.interp = _I
        for o in obs:
            if not getattr(o, "props_fixed", False):
                o.properties = list(props)
        return obs
    g.__name__ = name
    g.functions = functions
    GROUPS[name] = (g, props)
    return g


group("slot_size", vc_slot_size, [(TU, "_to_slot_size")], ["C03", "C05", "C01", "C10"])
group("stride_arithmetic", vc_strides, [(ARR, q) for q in ("get_strides", "get_c_strides", "get_f_strides", "get_offset", "bound_check", "mk_order")],
      ["C03", "C05", "C10", "C11", "C06", "C01", "C07"])


def targets(prop):
    return [("<gen>", g) for name, (g, props) in GROUPS.items() if prop in props]


# ------------------------------------------------------------------------------------------------ group 3: ArrayLayout
SLOTF = z3.Function("slot", z3.IntSort(), z3.IntSort())
SLOTQ = z3.Function("slot_q", z3.IntSort(), z3.IntSort())


def slot_int(x):
    """slot(x): the contract of _to_slot_size proved in bit-vector mode (group slot_size) -- the multiple of 8 in [x, x+8).
    Uninterpreted, with the contract as axiom (SLOT_AX), so obligations stay in linear integer arithmetic."""
    if isinstance(x, int):
        return (x + 7) // 8 * 8
    return SLOTF(x)


def _slot_ax():
    x = z3.Int("x!slot")
    return z3.ForAll([x], z3.And(SLOTF(x) == 8 * SLOTQ(x), x <= SLOTF(x), SLOTF(x) < x + 8), patterns=[SLOTF(x)])


SLOT_AX = _slot_ax()


def ov_slot(interp, st, f, args, kwargs, node):
    (x,) = args
    if isinstance(x, int):
        yield st, (x + 7) // 8 * 8
    else:
        if not getattr(st, "_slot_ax", False):
            st.assume(SLOT_AX)
            st._slot_ax = True
        yield st, SLOTF(x)


class _TypeNew:
    """stands for `type`: type.__new__(cls, name, bases, data) returns the class dictionary (class creation itself is trusted)"""

    def getattr(self, interp, st, attr, node):
        if attr == "__new__":
            yield st, self
            return
        raise Unsupported(f"type.{attr}")

    def call(self, interp, st, args, kwargs, node):
        yield st, args[3]


def item_alternatives():
    def static(st):
        sz = fresh_int("itemsize")
        st.assume(sz >= 1)
        o = SymObj("NumpyScalar", {"_size": sz, "__name__": "Item"})
        o.closed = True
        return o, sz

    def dynamic(st):
        o = SymObj("MetaStruct", {"_size": None, "__name__": "Item", "_has_refs": fresh_bool("item_has_refs")})
        o.closed = True
        return o, None

    yield "static_items", static
    yield "dynamic_items", dynamic


def vc_array_layout():
    """MetaArray.__new__ establishes ArrayLayout (DESIGN 4.2): _data_offset, _strides, _size, flags -- for rank 1..3, every
    static/dynamic mask, every axis order, static and dynamic item types, symbolic extents and item size"""
    from contracts import capi as K

    obs = []
    its = []
    con = _contract(ARR, "MetaArray.__new__", [])
    for rank, mask in K.array_masks():
        ndyn = sum(mask)
        orders = perms(rank) if ndyn == 0 else [list(range(rank))]
        for order in orders:
            for ilab, ictor in item_alternatives():
                it = new_interp()
                its.append(it)
                it.overrides[(TU, "_to_slot_size")] = ov_slot
                it.extern_names = {"type": _TypeNew()}
                from pyvc.core import State

                st0 = State()
                item, isz = ictor(st0)
                dims = [None if m else fresh_int(f"n{k}") for k, m in enumerate(mask)]
                pre = list(st0.pc) + [d >= 0 for d in dims if d is not None]
                data = PDict({"_itemtype": item, "_shape": tuple(dims), "_order": tuple(order)})
                lab = f"{'x'.join('N' if m else 's' for m in mask)}:order{''.join(map(str, order))}:{ilab}"
                for st, out in it.exec_function(con, {"cls": ClassVal("MetaArray", ARR), "name": "Arr", "bases": (), "data": data}, pre=pre):
                    if out is None or out[0] != "return" or not isinstance(out[1], PDict):
                        it.oblige(st, "raises", f"never[{lab}]", False)
                        continue
                    d = out[1].items
                    w = isz if isz is not None else 8
                    ob = lambda c, g: it.oblige(st, "post", f"{c}[{lab}]", g if not isinstance(g, bool) else z3.BoolVal(g))
                    static_shape = ndyn == 0
                    dspec = (8 if (isz is None or not static_shape) else 0) + 8 * ndyn + (8 * rank if (ndyn > 0 and rank > 1) else 0)
                    ob("data_offset", d.get("_data_offset") == dspec)
                    ob("is_static_shape", same_value(d.get("_is_static_shape"), static_shape))
                    ob("is_static_type", same_value(d.get("_is_static_type"), isz is not None))
                    if static_shape or rank == 1:
                        sgot = d.get("_strides")
                        ok = isinstance(sgot, tuple) and len(sgot) == rank
                        ob("strides_present", ok)
                        if ok:
                            want = doc_strides([x for x in dims], order, w) if static_shape else [w]
                            for k in range(rank):
                                ob(f"stride{k}", sgot[k] == want[k])
                    else:
                        ob("no_class_strides", "_strides" not in d)
                    if ndyn:
                        di = d.get("_dshape_idx")
                        ob("dshape_idx", isinstance(di, PList) and di.items == [k for k in range(rank) if mask[k]])
                    if static_shape and isz is not None:
                        ob("size", d.get("_size") == slot_int(isz * prod(dims)))
                    else:
                        ob("size_is_dynamic", d.get("_size") is None)
                    hr = d.get("_has_refs")
                    if isz is not None:
                        ob("has_refs", same_value(hr, False))
                    else:
                        ob("has_refs", isinstance(hr, bool) and (item.attrs["_has_refs"] == z3.BoolVal(hr)))
                obs += it.obligations
    vc_array_layout.interps = its
    return obs


group("array_layout", vc_array_layout, [(ARR, "MetaArray.__new__"), (ARR, "get_strides"), (ARR, "mk_order")], ["C05", "C03", "C02", "C06"])


# ------------------------------------------------------------------------------------------------ group 4: array handles
from pyvc import xbuf as XB  # noqa: E402
from pyvc.interp_ext import ObjectBuiltin  # noqa: E402
from pyvc.core import FuncVal, State  # noqa: E402


def int64_scalar():
    o = SymObj("NumpyScalar", {"_size": 8, "__name__": "Int64", "_c_type": "int64_t"})
    o.closed = True
    return o


class Recorder:
    """stands for <itemtype>._from_buffer / a constructor: records the call and returns an opaque result"""

    def __init__(self, name):
        self.name = name
        self.calls = []

    def call(self, interp, st, args, kwargs, node):
        self.calls.append((args, kwargs))
        st.recorded = getattr(st, "recorded", []) + [(self.name, args, kwargs)]
        yield st, ("result-of", self.name, tuple(args))


def array_class(st, rank, mask, static_items, order=None):
    """abstract array class satisfying ArrayLayout (the postcondition proved in group array_layout)"""
    ndyn = sum(mask)
    static_shape = ndyn == 0
    dims = []
    for k in range(rank):
        if mask[k]:
            dims.append(None)
        else:
            d = fresh_int(f"dim{k}")
            st.assume(d >= 0)
            dims.append(d)
    isz = None
    if static_items:
        isz = fresh_int("itemsize")
        st.assume(isz >= 1)
    item = SymObj("ItemType", {"_size": isz, "_from_buffer": Recorder("item._from_buffer"), "_to_buffer": Recorder("item._to_buffer")})
    item.closed = True
    w = isz if static_items else 8
    D = (8 if (not static_items or not static_shape) else 0) + 8 * ndyn + (8 * rank if (ndyn > 0 and rank > 1) else 0)
    attrs = {"_shape": tuple(dims), "_order": tuple(order or list(range(rank))), "_data_offset": D, "_is_static_type": static_items, "_is_static_shape": static_shape,
             "_itemtype": item, "_size": (fresh_int("cls_size") if (static_shape and static_items) else None), "__name__": "ArrCls"}
    absent = set()
    cstr = None
    if ndyn:
        attrs["_dshape_idx"] = PList([k for k in range(rank) if mask[k]])
    if static_shape:
        # ArrayLayout: class strides of a static shape are the documented strides of its axis order
        cstr = tuple(doc_strides(dims, order or list(range(rank)), w))
        attrs["_strides"] = cstr
    elif rank == 1:
        cstr = (w,)
        attrs["_strides"] = cstr
    else:
        absent.add("_strides")
    cls = SymObj("MetaArray", attrs)
    cls.closed = True
    cls.absent = absent
    cls.instance_class = "Array"
    cls.spec = dict(rank=rank, mask=mask, ndyn=ndyn, D=D, w=w, cstr=cstr, dims=dims, static_items=static_items)
    return cls


def vc_array_handle():
    """Array._from_buffer establishes HandleInv; _get_offset / __getitem__ address the documented item position"""
    from contracts import capi as K

    obs = []
    its = []
    cases = []
    for rank, mask in K.array_masks():
        for static_items in (True, False):
            for order in perms(rank):
                cases.append((rank, mask, static_items, order))
    for rank, mask, static_items, order in cases:
        if True:
            lab = f"{'x'.join('N' if m else 's' for m in mask)}{':order' + ''.join(map(str, order)) if order else ''}:{'static' if static_items else 'dynamic'}_items"
            it = new_interp()
            its.append(it)
            it.class_home["Array"] = ARR
            i64 = int64_scalar()
            it.extern_names = {"Int64": i64, "object": ObjectBuiltin()}
            it.class_home["NumpyScalar"] = "xobjects/scalar.py"
            XB.install_int64(it, i64)
            st0 = State()
            cls = array_class(st0, rank, mask, static_items, order)
            sp = cls.spec
            buf = XB.XBuf("buf")
            o = fresh_int("offset")
            ndyn, D, w = sp["ndyn"], sp["D"], sp["w"]
            # WellFormed object image: header words are a shape; the header and (for dynamic items) the offset table lie in the buffer
            hdr_shape = []
            j = 0
            for k in range(rank):
                if mask[k]:
                    hdr_shape.append(XB.W8(buf.mem, o + 8 + 8 * j))
                    j += 1
                else:
                    hdr_shape.append(sp["dims"][k])
            n_items = prod(hdr_shape)
            pre = list(st0.pc) + [o >= 0, buf.cap >= 0] + [s >= 0 for s in hdr_shape] + [o + D + (8 * n_items if not static_items else 0) <= buf.cap]
            if ndyn and rank > 1:
                # WellFormed image (what the writer establishes): the stored strides are the documented strides of the stored shape
                dstr = doc_strides(hdr_shape, order, w)
                pre += [XB.W8(buf.mem, o + 8 + 8 * ndyn + 8 * k) == dstr[k] for k in range(rank)]
            con = _contract(ARR, "Array._from_buffer", [])
            for st, out in it.exec_function(con, {"cls": cls, "buffer": buf, "offset": o}, pre=pre):
                if out is None or out[0] != "return":
                    it.oblige(st, "raises", f"never[{lab}]", False)
                    continue
                h = out[1]
                ob = lambda c, g: it.oblige(st, "post", f"{c}[{lab}]", g if not isinstance(g, bool) else z3.BoolVal(g))
                b = it._relocate(st, buf)
                ob("buffer_and_offset", same_value(h.attrs.get("_offset"), o) if h.attrs.get("_buffer") is b else False)
                ob("bytes_unchanged", z3.eq(b.mem, buf.mem))
                if not (sp["static_items"] and ndyn == 0):
                    ob("size_word", "_size" in h.attrs and h.attrs["_size"] == XB.W8(b.mem, o))
                if ndyn:
                    shp = h.attrs.get("_shape")
                    ok = isinstance(shp, PList) and len(shp.items) == rank
                    ob("shape_present", ok)
                    if ok:
                        for k in range(rank):
                            ob(f"shape{k}", shp.items[k] == hdr_shape[k])
                    strd = h.attrs.get("_strides")
                    ok = isinstance(strd, tuple) and len(strd) == rank
                    ob("strides_present", ok)
                    if ok:
                        for k in range(rank):
                            want = XB.W8(b.mem, o + 8 + 8 * ndyn + 8 * k) if rank > 1 else w
                            ob(f"stride{k}", strd[k] == want)
                if not static_items:
                    ov = h.attrs.get("_offsets")
                    ok = isinstance(ov, (XB.WordView, XB.WordViewND))
                    ob("offset_table_view", ok)
                    if ok:
                        ob("offset_table_position", XB.to_z3(ov.o) == o + D)
                # ---- readers on this handle: address of item idx
                idx = tuple(fresh_int(f"i{k}") for k in range(rank))
                inr = z3.And(*[z3.And(0 <= i, i < s) for i, s in zip(idx, hdr_shape)])
                stq = st.clone()
                stq.assume(inr)
                hq = it._relocate(stq, h) if hasattr(h, "uid") else h
                strides = []
                for k in range(rank):
                    strides.append(sp["cstr"][k] if sp["cstr"] is not None else XB.W8(buf.mem, o + 8 + 8 * ndyn + 8 * k))
                P = o + D + sum(i * s for i, s in zip(idx, strides))
                want_addr = P if static_items else o + XB.W8(buf.mem, P)
                arg = idx if rank > 1 else idx[0]
                try:
                    for st2, res in it.call_function(stq.clone(), FuncVal(ARR, "Array._get_offset", hq), [arg], {}, None):
                        it.oblige(st2, "post", f"get_offset_is_documented_address[{lab}]", res == want_addr)
                    for st2, res in it.call_function(stq.clone(), FuncVal(ARR, "Array.__getitem__", hq), [arg], {}, None):
                        ok = isinstance(res, tuple) and res[0] == "result-of" and res[1] == "item._from_buffer"
                        it.oblige(st2, "post", f"getitem_reads_item_type[{lab}]", z3.BoolVal(ok))
                        if ok:
                            it.oblige(st2, "post", f"getitem_address[{lab}]", res[2][1] == want_addr)
                            it.oblige(st2, "post", f"getitem_buffer[{lab}]", z3.BoolVal(getattr(res[2][0], "uid", None) == buf.uid))
                except XB.FlatViewTupleIndex:
                    # HandleInv[_offsets]: the view's offset table must be indexable by an index of the array's rank
                    it.oblige(stq, "post", f"offsets_indexable_with_rank_tuple[{lab}]", False)
                # out-of-range index raises IndexError (C11), static items (bound_check path) and dynamic items
                stn = st.clone()
                stn.assume(z3.Not(inr))
                hn = it._relocate(stn, h)
                try:
                    for st2, res in it.call_function(stn, FuncVal(ARR, "Array._get_offset", hn), [arg], {}, None):
                        raised = res is not None and getattr(st2, "pending_raise", None) is not None and res.__class__.__name__ == "_NoReturn"
                        it.oblige(st2, "post", f"out_of_range_index_raises[{lab}]", z3.BoolVal(bool(raised)))
                except XB.FlatViewTupleIndex:
                    pass  # reported once above
                # a bare integer on an array of rank >= 2, at or beyond the extent of the first axis: outside the shape whatever the
                # other extents are (C11; an integer below that extent is the recorded finding "index of the wrong rank accepted")
                if rank > 1 and static_items:
                    for fn in ("Array._get_offset", "Array.__getitem__"):
                        sti = st.clone()
                        ii = fresh_int("int_index")
                        sti.assume(z3.Or(ii >= hdr_shape[0], ii < 0))
                        hi = it._relocate(sti, h)
                        try:
                            for st2, res in it.call_function(sti, FuncVal(ARR, fn, hi), [ii], {}, None):
                                raised = res is not None and getattr(st2, "pending_raise", None) is not None and res.__class__.__name__ == "_NoReturn"
                                it.oblige(st2, "post", f"integer_index_beyond_first_axis_raises[{lab}:{fn.split('.')[-1]}]", z3.BoolVal(bool(raised)))
                        except XB.FlatViewTupleIndex:
                            pass
            obs += it.obligations
    vc_array_handle.interps = its
    return obs


group("array_handle", vc_array_handle, [(ARR, "Array._from_buffer"), (ARR, "Array._get_offset"), (ARR, "Array.__getitem__"), (ARR, "bound_check"), (ARR, "get_offset")],
      ["C06", "C02", "C11", "C01"])


# ------------------------------------------------------------------------------------------------ group 5: String
STR = "xobjects/string.py"


def string_env():
    it = new_interp()
    it.class_home.update({"MetaString": STR, "NumpyScalar": "xobjects/scalar.py"})
    i64 = int64_scalar()
    cls = SymObj("MetaString", {"_size": None, "__name__": "String"})
    cls.closed = True
    cls.instance_class = "String"
    it.extern_names = {"Int64": i64, "String": cls}
    XB.install_int64(it, i64)
    it.overrides[(TU, "_to_slot_size")] = ov_slot

    def construct_Info(st, args, kwargs, node):
        o = SymObj("Info", dict(kwargs))
        o.closed = True
        yield st, o
    it.construct_Info = construct_Info
    return it, cls


def forall_x(f):
    x = z3.Int(fresh_name("x"))
    return z3.ForAll([x], f(x))


def vc_string():
    """MetaString._inspect_args / _to_buffer / _from_buffer: size, frame, documented bytes, read-back hypotheses (C01, C03, C05)"""
    obs = []
    its = []
    for form in ("str", "capacity", "string_object"):
        it, cls = string_env()
        its.append(it)
        buf = XB.XBuf("buf")
        o = fresh_int("offset")
        pre = [o >= 0, buf.cap >= 0]
        if form == "str":
            val = XB.AbsStr("s")
            L = val.n
            pre += [L >= 0, forall_x(lambda x: z3.Implies(z3.And(0 <= x, x < L), val.mem[x] != 0))]
            want_size = slot_int(L + 9)
        elif form == "capacity":
            val = fresh_int("capacity")
            pre += [val >= 1]
            want_size = val + 8
        else:
            sbuf = XB.XBuf("srcbuf")
            vs, vo = fresh_int("src_size"), fresh_int("src_offset")
            val = SymObj("instance", {"__class__": cls, "_size": vs, "_buffer": sbuf, "_offset": vo})
            val.closed = True
            pre += [vs >= 9, vo >= 0, vo + vs <= sbuf.cap, XB.W8(sbuf.mem, vo) == vs]  # a valid String object: HandleInv
            want_size = vs
        # ---- _inspect_args
        con = _contract(STR, "MetaString._inspect_args", [])
        infos = []
        for st, out in it.exec_function(con, {"cls": cls, "string_or_int": val}, pre=pre):
            if out is None or out[0] != "return":
                it.oblige(st, "raises", f"never[{form}]", False)
                continue
            info = out[1]
            it.oblige(st, "post", f"size[{form}]", info.attrs["size"] == want_size)
            if form == "str":
                it.oblige(st, "post", f"size_is_whole_slots[{form}]", info.attrs["size"] % 8 == 0)
                it.oblige(st, "post", f"room_for_terminator[{form}]", info.attrs["size"] >= L + 9)
        # ---- _to_buffer on a region of exactly `size` bytes reserved by the caller (info=None: recomputed from the value)
        con = _contract(STR, "MetaString._to_buffer", [])
        m0 = buf.mem
        pre2 = pre + [o + want_size <= buf.cap, want_size < 2 ** 62]  # sizes below 2^62: machine words treated as mathematical
        for st, out in it.exec_function(con, {"cls": cls, "buffer": buf, "offset": o, "value": val, "info": None}, pre=pre2):
            if out is not None and out[0] == "raise":
                it.oblige(st, "raises", f"never[{form}]", False, out[2])
                continue
            b = it._relocate(st, buf)
            size = want_size
            for (old, new, at) in getattr(st, "word_writes", []):
                XB.same_word(st, new, b.mem, at)
            if form == "string_object":
                XB.same_word_at(st, b.mem, o, sbuf.mem, vo)
            ob = lambda c, g: it.oblige(st, "post", f"{c}[{form}]", g)
            ob("frame", forall_x(lambda x: z3.Implies(z3.Or(x < o, x >= o + size), b.mem[x] == m0[x])))
            ob("size_word", XB.W8(b.mem, o) == size)
            if form == "str":
                ob("data_bytes", forall_x(lambda x: z3.Implies(z3.And(0 <= x, x < L), b.mem[o + 8 + x] == val.mem[x])))
                zp = ob("zero_padding_to_size", forall_x(lambda x: z3.Implies(z3.And(L <= x, x < size - 8), b.mem[o + 8 + x] == 0)))
                zp.properties, zp.props_fixed = ["C01"], True  # the library's own reader strips trailing NULs: it needs the padding to be NUL
                ob("nul_terminated", b.mem[o + 8 + L] == 0)  # the documented format: data followed by at least one NUL inside the size
            elif form == "capacity":
                ob("empty_string", forall_x(lambda x: z3.Implies(z3.And(0 <= x, x < size - 8), b.mem[o + 8 + x] == 0)))
            else:
                ob("copied", forall_x(lambda x: z3.Implies(z3.And(8 <= x, x < size), b.mem[o + x] == sbuf.mem[vo + x])))
            # ---- _from_buffer on the bytes just written: reads exactly [o+8, o+size), so the codec axiom applies
            con2 = _contract(STR, "MetaString._from_buffer", [])
            it.contract = con2
            for st2, res in it.call_function(st.clone(), FuncVal(STR, "MetaString._from_buffer", cls), [b, o], {}, None):
                ok = isinstance(res, XB.DecodedStr) and res.stripped and isinstance(res.src, XB.ByteStr) and isinstance(res.src.tag, tuple) and res.src.tag[0] == "slice"
                it.oblige(st2, "post", f"reads_the_data_area[{form}]", z3.BoolVal(ok))
                if ok:
                    it.oblige(st2, "post", f"read_range[{form}]", z3.And(XB.to_z3(res.src.tag[2]) == o + 8, XB.to_z3(res.src.n) == size - 8))
                    if form == "str":
                        # hypotheses of AX-utf8 (decode(utf8(s) ++ NUL*).rstrip(NUL) == s for NUL-free s)
                        it.oblige(st2, "post", f"readback_hypotheses[{form}]", z3.And(
                            forall_x(lambda x: z3.Implies(z3.And(0 <= x, x < L), res.src.mem[x] == val.mem[x])),
                            forall_x(lambda x: z3.Implies(z3.And(L <= x, x < size - 8), res.src.mem[x] == 0))))
                    elif form == "capacity":
                        it.oblige(st2, "post", f"readback_hypotheses[{form}]", forall_x(lambda x: z3.Implies(z3.And(0 <= x, x < size - 8), res.src.mem[x] == 0)))
            it.contract = con
        obs += it.obligations
    vc_string.interps = its
    return obs


group("string", vc_string, [(STR, "MetaString._inspect_args"), (STR, "MetaString._to_buffer"), (STR, "MetaString._from_buffer"), (STR, "MetaString._get_data")],
      ["C01", "C03", "C05"])


# ------------------------------------------------------------------------------------------------ group 6: Ref / UnionRef
REF = "xobjects/ref.py"
from pyvc.tmpl import Atom  # noqa: E402


class DistinctName(Atom):
    """class names: equal iff the same token"""

    def equal(self, other):
        if isinstance(other, Atom):
            return other is self or other.name == self.name
        return False


def target_class(name, it, buf_for_new=None):
    """an abstract referent class T: T._from_buffer(buf, off) is recorded; T(value, _buffer=b) obeys the constructor contract
    (TypeContract: a fresh region obtained from b.allocate, object placed there)"""
    T = SymObj("MetaStruct", {"__name__": DistinctName(name), "_has_refs": fresh_bool(f"{name}_has_refs")})
    T.closed = True

    class FromBuffer:
        """T._from_buffer(buf, off): a view object of class T at (buf, off) (TypeContract TC3: HandleInv of the result)"""

        def call(self, interp, st, args, kwargs, node):
            b, off = args[0], (args[1] if len(args) > 1 else kwargs.get("offset", 0))
            v = SymObj("instance", {"__class__": T, "_buffer": b, "_offset": off, "_size": fresh_int("tsize")})
            v.closed = True
            v.origin = ("from_buffer", name, getattr(b, "uid", None), off)
            st.ghost[f"__new{v.uid}"] = v
            yield st, v
    T.attrs["_from_buffer"] = FromBuffer()

    class Ctor:
        def call(self, interp, st, args, kwargs, node):
            b = interp._relocate(st, kwargs["_buffer"])
            size = fresh_int("new_size")
            st.assume(size >= 8)
            off = b.m_allocate(interp, st, [size], {}, node)
            new = SymObj("instance", {"__class__": T, "_buffer": b, "_offset": off, "_size": size})
            new.closed = True
            st.recorded = getattr(st, "recorded", []) + [("construct", name, args, off, size)]
            st.ghost[f"__new{new.uid}"] = new
            yield st, new
    T.call = Ctor().call
    return T


def ref_env():
    it = new_interp()
    it.class_home.update({"Ref": REF, "MetaUnionRef": REF, "NumpyScalar": "xobjects/scalar.py"})
    i64 = int64_scalar()
    it.extern_names = {"Int64": i64}
    XB.install_int64(it, i64)
    return it


def vc_ref():
    """Ref._to_buffer/_from_buffer and MetaUnionRef._to_buffer/_from_buffer: alias / new object / null encodings, decode o encode (C08)"""
    obs = []
    its = []
    NULL = XB.NULLVALUE
    # ---------------- Ref
    for form in ("none", "same_class_same_buffer", "same_class_other_buffer", "other_class_same_buffer", "plain_data", "regenerated_class_same_buffer"):
      it = ref_env()
      its.append(it)
      try:
          buf = XB.XBuf("buf")
          T = target_class("T", it)
          ref = SymObj("Ref", {"_reftype": T, "_size": 8, "__name__": "RefT"})
          ref.closed = True
          o = fresh_int("slot")
          live_o, live_n = fresh_int("live_o"), fresh_int("live_n")
          pre = [o >= 0, o + 8 <= buf.cap, o < 2 ** 62, buf.cap < 2 ** 62]
          vo = fresh_int("value_offset")
          if form == "none":
              val = None
          elif form == "plain_data":
              val = SymObj("dict-like", {"__class__": SymObj("dict", {"__name__": DistinctName("dict")})})
          else:
              vcls = T if form.startswith("same_class") else target_class("Other", it)
              if form.startswith("regenerated_class"):
                  # every subscription expression (`Float64[:][:]`, `Ref[S][:]`) makes new class objects: the value's class is another
                  # class object of the same name and the same layout whose item type is itself a regenerated (equivalent, not identical) class
                  vcls = target_class("T", it)
                  vcls.attrs["_has_refs"] = T.attrs["_has_refs"]
                  for c_ in (T, vcls):
                      ity = SymObj("MetaArray", {"__name__": DistinctName("Item")})
                      ity.closed = True
                      c_.attrs.update({"_itemtype": ity, "_shape": (None,), "_order": "C"})
              vbuf = buf if form.endswith("same_buffer") else XB.XBuf("otherbuf")
              vsize = fresh_int("vsize")
              val = SymObj("instance", {"__class__": vcls, "_buffer": vbuf, "_offset": vo, "_size": vsize, "_has_refs": vcls.attrs["_has_refs"],
                                        "_get_size": XB._M(lambda i, s, a, k, n, vsize=vsize: vsize)})
              val.closed = True
              pre += [vo >= 0, vo < 2 ** 62, vsize >= 8, vsize < 2 ** 62, vo + vsize <= vbuf.cap, vbuf.cap < 2 ** 62]
          m0 = buf.mem
          buf.live = [(o, 8)]  # the slot itself is live: a new object may not be placed over it
          con = _contract(REF, "Ref._to_buffer", [])
          for st, out in it.exec_function(con, {"self": ref, "buffer": buf, "offset": o, "value": val, "info": None}, pre=pre):
              if out is not None and out[0] == "raise":
                  it.oblige(st, "raises", f"never[{form}]", False, out[2])
                  continue
              b = it._relocate(st, buf)
              rec = [r for r in getattr(st, "recorded", []) if r[0] == "construct"]
              ob = lambda c, g: it.oblige(st, "post", f"{c}[{form}]", g if not isinstance(g, bool) else z3.BoolVal(g))
              if form == "none":
                  ob("null_encoding", XB.W8(b.mem, o) == NULL)
                  ob("no_new_object", len(rec) == 0)
                  target = None
              elif form in ("same_class_same_buffer", "regenerated_class_same_buffer"):
                  ob("alias_encoding", XB.W8(b.mem, o) == vo - o)
                  ob("no_new_object", len(rec) == 0)
                  target = vo
              else:
                  if not rec and form == "same_class_other_buffer" and len(b.allocs) == 1:
                      # no construction through the referent type but a region allocated in the holder's buffer: a duplicate made by
                      # copying the image -- sound only for a reference-free referent (relative offsets inside the image would point
                      # from their new places)
                      ob("image_copy_only_of_a_reference_free_referent", z3.Not(T.attrs["_has_refs"]))
                      ob("new_object_encoding", XB.W8(b.mem, o) == b.allocs[0][0] - o)
                      ob("frame_slot_and_new_region", forall_x(lambda x: z3.Implies(z3.And(z3.Or(x < o, x >= o + 8), z3.Or(x < b.allocs[0][0], x >= b.allocs[0][0] + b.allocs[0][1])), b.mem[x] == m0[x])))
                      continue
                  ob("one_new_object_in_holder_buffer", len(rec) == 1 and rec[0][1] == "T")
                  target = rec[0][3] if rec else None
                  if rec:
                      ob("new_object_encoding", XB.W8(b.mem, o) == rec[0][3] - o)
                      ob("constructed_from_value", rec[0][2][0] is val or getattr(rec[0][2][0], "uid", 0) == getattr(val, "uid", 1))
              ob("frame_slot_only", forall_x(lambda x: z3.Implies(z3.Or(x < o, x >= o + 8), b.mem[x] == m0[x])))
              # decode o encode
              it.contract = _contract(REF, "Ref._from_buffer", [])
              for st2, res in it.call_function(st.clone(), FuncVal(REF, "Ref._from_buffer", ref), [b, o], {}, None):
                  if target is None:
                      it.oblige(st2, "post", f"reads_back_none[{form}]", z3.BoolVal(res is None))
                  else:
                      org = getattr(res, "origin", None)
                      ok = org is not None and org[0] == "from_buffer" and org[1] == "T"
                      it.oblige(st2, "post", f"resolves_with_target_type[{form}]", z3.BoolVal(ok))
                      if ok:
                          it.oblige(st2, "post", f"resolves_to_target_offset[{form}]", org[3] == target)
                          it.oblige(st2, "post", f"resolves_in_own_buffer[{form}]", z3.BoolVal(org[2] == buf.uid))
              it.contract = con
          obs += it.obligations
      except HARNESS_ERRORS as e:
          vc_ref.undecided.append((form, str(e)[:120]))
          obs += it.obligations
    vc_ref.interps = its
    return obs


group("ref", vc_ref, [(REF, "Ref._to_buffer"), (REF, "Ref._from_buffer")], ["C08", "C01", "C05", "C03", "C09"])


def vc_unionref():
    """MetaUnionRef._to_buffer / _from_buffer: encodings of null, member instances (same / other buffer), (name, data), and
    rejection of non-members before any write (C08, C11)"""
    obs = []
    its = []
    NULL = XB.NULLVALUE
    forms = ["none", "empty_tuple", "tuple_none", "member_same_buffer", "member_other_buffer", "tuple_member_same_buffer",
             "tuple_member_other_buffer", "name_and_data", "non_member", "unionref_object", "null_unionref_object"]
    for form in forms:
        for which in (0, 1):
            if form in ("none", "empty_tuple", "tuple_none", "non_member", "null_unionref_object") and which == 1:
                continue
            it = ref_env()
            its.append(it)
            buf = XB.XBuf("buf")
            T = [target_class("T0", it), target_class("T1", it)]
            U = SymObj("MetaUnionRef", {"_reftypes": PList(T), "_size": 16, "__name__": DistinctName("U")})
            U.closed = True
            U.instance_class = "UnionRef"
            it.class_home["UnionRef"] = REF
            o = fresh_int("slot")
            pre = [o >= 0, o + 16 <= buf.cap, buf.cap < 2 ** 62]
            vo = fresh_int("value_offset")
            buf.live = [(o, 16)]

            def inst(c, b):
                v = SymObj("instance", {"__class__": c, "_buffer": b, "_offset": vo, "_size": fresh_int("vsize")})
                v.closed = True
                return v
            other = XB.XBuf("otherbuf")
            pre += [vo >= 0, vo < 2 ** 62]
            if form == "none":
                val = None
            elif form == "empty_tuple":
                val = ()
            elif form == "tuple_none":
                val = (None,)
            elif form == "member_same_buffer":
                val = inst(T[which], buf)
            elif form == "member_other_buffer":
                val = inst(T[which], other)
            elif form == "tuple_member_same_buffer":
                val = (inst(T[which], buf),)
            elif form == "tuple_member_other_buffer":
                val = (inst(T[which], other),)
            elif form == "name_and_data":
                val = (T[which].attrs["__name__"], SymObj("data", {}))
            elif form in ("unionref_object", "null_unionref_object"):
                # a standalone union reference living elsewhere in the same buffer, denoting an object of member `which` at vo (or null)
                uo = fresh_int("uref_offset")
                val = SymObj("instance", {"__class__": U, "_buffer": buf, "_offset": uo, "_size": 16})
                val.closed = True
                pre += [uo >= 0, uo + 16 <= buf.cap, z3.Or(uo + 16 <= o, o + 16 <= uo)]
                if form == "unionref_object":
                    pre += [XB.W8(buf.mem, uo) == vo - uo, XB.W8(buf.mem, uo + 8) == which]
                else:
                    pre += [XB.W8(buf.mem, uo) == NULL, XB.W8(buf.mem, uo + 8) == -1]
            else:
                val = inst(target_class("NotAMember", it), buf)
            lab = f"{form}{which if form not in ('none', 'empty_tuple', 'tuple_none', 'non_member', 'null_unionref_object') else ''}"
            m0 = buf.mem
            con = _contract(REF, "MetaUnionRef._to_buffer", [])
            for st, out in it.exec_function(con, {"cls": U, "buffer": buf, "offset": o, "value": val, "info": None}, pre=pre):
                b = it._relocate(st, buf)
                ob = lambda c, g: it.oblige(st, "post", f"{c}[{lab}]", g if not isinstance(g, bool) else z3.BoolVal(g))
                if out is not None and out[0] == "raise":
                    if form == "non_member":
                        it.oblige(st, "raises", f"error.allowed[{lab}]", z3.BoolVal(True), out[2])  # a non-member is refused (any error class)
                        it.oblige(st, "rpost", f"no_side_effect[{lab}]", z3.BoolVal(z3.eq(b.mem, m0) and not getattr(st, "recorded", [])))
                    else:
                        it.oblige(st, "raises", f"never[{lab}]", False, out[2])
                    continue
                if form == "non_member":
                    ob("non_member_rejected", False)
                    continue
                for (old, new, at) in getattr(st, "word_writes", []):
                    XB.same_word(st, new, b.mem, at)
                rec = [r for r in getattr(st, "recorded", []) if r[0] == "construct"]
                if form in ("none", "empty_tuple", "tuple_none", "null_unionref_object"):
                    ob("null_encoding", z3.And(XB.W8(b.mem, o) == NULL, XB.W8(b.mem, o + 8) == -1))
                    target = None
                elif form in ("member_same_buffer", "tuple_member_same_buffer", "unionref_object"):
                    ob("alias_encoding", z3.And(XB.W8(b.mem, o) == vo - o, XB.W8(b.mem, o + 8) == which))
                    ob("no_new_object", len(rec) == 0)
                    target = vo
                else:
                    ob("one_new_object_of_member_type", len(rec) == 1 and rec[0][1] == f"T{which}")
                    target = rec[0][3] if rec else None
                    if rec:
                        ob("new_object_encoding", z3.And(XB.W8(b.mem, o) == rec[0][3] - o, XB.W8(b.mem, o + 8) == which))
                ob("frame_slot_only", forall_x(lambda x: z3.Implies(z3.Or(x < o, x >= o + 16), b.mem[x] == m0[x])))
                it.contract = _contract(REF, "MetaUnionRef._from_buffer", [])
                for st2, res in it.call_function(st.clone(), FuncVal(REF, "MetaUnionRef._from_buffer", U), [b, o], {}, None):
                    if getattr(res, "__class__", None).__name__ == "_NoReturn":
                        it.oblige(st2, "raises", f"decode_never_raises[{lab}]", False)
                        continue
                    if target is None:
                        it.oblige(st2, "post", f"reads_back_none[{lab}]", z3.BoolVal(res is None))
                    else:
                        org = getattr(res, "origin", None)
                        ok = org is not None and org[0] == "from_buffer" and org[1] == f"T{which}"
                        it.oblige(st2, "post", f"resolves_with_recorded_member_type[{lab}]", z3.BoolVal(ok))
                        if ok:
                            it.oblige(st2, "post", f"resolves_to_target_offset[{lab}]", org[3] == target)
                            it.oblige(st2, "post", f"resolves_in_own_buffer[{lab}]", z3.BoolVal(org[2] == buf.uid))
                it.contract = con
            obs += it.obligations
    vc_unionref.interps = its
    return obs


group("unionref", vc_unionref, [(REF, "MetaUnionRef._to_buffer"), (REF, "MetaUnionRef._from_buffer"), (REF, "MetaUnionRef._typeid_from_type"),
                               (REF, "MetaUnionRef._typeid_from_name"), (REF, "MetaUnionRef._type_from_name"), (REF, "MetaUnionRef._type_from_typeid"),
                               (REF, "MetaUnionRef._is_member")], ["C08", "C11", "C01", "C05"])


# ------------------------------------------------------------------------------------------------ group 7: StructLayout
STRUCT = "xobjects/struct.py"


def zb(v):
    return z3.BoolVal(v) if isinstance(v, bool) else v


def field_type(st, dynamic, k):
    sz = None
    if not dynamic:
        sz = fresh_int(f"size{k}")
        st.assume(sz >= 0)
    t = SymObj("FieldType", {"_size": sz, "_inspect_args": "present", "__name__": f"T{k}", "_has_refs": fresh_bool(f"has_refs{k}")})
    t.closed = True
    t.absent = {"_update"}
    return t, sz


def struct_env():
    it = new_interp()
    it.class_home.update({"Field": STRUCT, "MetaStruct": STRUCT})
    it.overrides[(TU, "_to_slot_size")] = ov_slot
    it.extern_names = {"type": _TypeNew()}
    return it


def vc_struct_layout_small():
    """MetaStruct.__new__ run as a whole for every static/dynamic pattern of up to 3 fields (symbolic sizes): StructLayout.
    Bounded in the number of fields -- the unbounded argument is group struct_layout_loops."""
    obs = []
    its = []
    con = _contract(STRUCT, "MetaStruct.__new__", [])
    # declaration forms of a class body: `f = T` (wrapped by the metaclass) and `f = Field(T, ...)` (wrapped by the author); both must
    # give the same layout facts, _has_refs included
    FORMS = {"bare": lambda k: False, "Field()": lambda k: True, "mixed": lambda k: k % 2 == 0}
    for n in range(0, 4):
      for form, wrapped in FORMS.items():
        if form != "bare" and not (1 <= n <= 2) or n == 1 and form == "mixed":
            continue  # the author-wrapped forms: classes of 1 and 2 fields (generation time; the layout loops do not look at the form)
        for pattern in itertools.product((False, True), repeat=n):
            it = struct_env()
            its.append(it)
            st0 = State()
            types = [field_type(st0, dyn, k) for k, dyn in enumerate(pattern)]
            lab = ("".join("d" if d else "s" for d in pattern) or "empty") + ("" if form == "bare" else ":" + form)
            try:
                decl = {}
                for k, (t, _) in enumerate(types):
                    if wrapped(k):
                        made = list(it.call_class(st0, ClassVal("Field", STRUCT), [t], {}, None))
                        if len(made) != 1:
                            raise Unsupported("Field(T) did not construct on a single path")
                        st0, decl[f"f{k}"] = made[0]
                    else:
                        decl[f"f{k}"] = t
                data = PDict(decl)
                data.items["not_a_field"] = 17
                for st, out in it.exec_function(con, {"cls": ClassVal("MetaStruct", STRUCT), "name": "S", "bases": (), "data": data}, pre=list(st0.pc)):
                    if out is None or out[0] != "return" or not isinstance(out[1], PDict):
                        it.oblige(st, "raises", f"never[{lab}]", False)
                        continue
                    d = out[1].items
                    ob = lambda c, g: it.oblige(st, "post", f"{c}[{lab}]", g if not isinstance(g, bool) else z3.BoolVal(g))
                    fl = d.get("_fields")
                    ok = isinstance(fl, PList) and len(fl.items) == n and all(isinstance(f, SymObj) and f.cls == "Field" for f in fl.items)
                    ob("fields_in_declaration_order", ok and all(f.attrs.get("name") == f"f{k}" and f.attrs.get("index") == k for k, f in enumerate(fl.items)))
                    if not ok:
                        continue
                    F = fl.items
                    sizes = [s for _, s in types]
                    if not any(pattern):
                        cur = z3.IntVal(0)
                        for k in range(n):
                            ob(f"offset{k}", F[k].attrs["offset"] == cur)
                            ob(f"not_reference{k}", same_value(F[k].attrs["is_reference"], False))
                            cur = cur + slot_int(sizes[k])
                        ob("size", d.get("_size") == cur)
                    else:
                        cur = z3.IntVal(8)
                        for k in range(n):
                            if not pattern[k]:
                                ob(f"offset{k}", F[k].attrs["offset"] == cur)
                                ob(f"not_reference{k}", same_value(F[k].attrs["is_reference"], False))
                                cur = cur + slot_int(sizes[k])
                        dyn = [k for k in range(n) if pattern[k]]
                        for k in dyn[1:]:
                            ob(f"offset_word_slot{k}", F[k].attrs["offset"] == cur)
                            ob(f"is_reference{k}", same_value(F[k].attrs["is_reference"], True))
                            cur = cur + 8
                        ob(f"first_dynamic_offset{dyn[0]}", F[dyn[0]].attrs["offset"] == cur)
                        ob(f"first_dynamic_not_reference{dyn[0]}", same_value(F[dyn[0]].attrs["is_reference"], False))
                        ob("size_is_dynamic", d.get("_size") is None)
                    hr = d.get("_has_refs")
                    want_hr = z3.Or(*[t.attrs["_has_refs"] for t, _ in types]) if n else z3.BoolVal(False)
                    ob("has_refs", want_hr == (z3.BoolVal(hr) if isinstance(hr, bool) else hr) if isinstance(hr, bool) or z3.is_bool(hr) else False)
                    ob("static_and_dynamic_field_lists", [f.attrs["index"] for f in d["_s_fields"].items] == [k for k in range(n) if not pattern[k]]
                       and [f.attrs["index"] for f in d["_d_fields"].items] == [k for k in range(n) if pattern[k]])
            except HARNESS_ERRORS as e:
                vc_struct_layout_small.undecided.append((lab, str(e)[:150]))
            obs += it.obligations
    vc_struct_layout_small.interps = its
    return obs


group("struct_layout_small", vc_struct_layout_small, [(STRUCT, "MetaStruct.__new__"), (STRUCT, "Field.__init__")], ["C05", "C03", "C02"])


class FieldList:
    """an abstract list of Field objects of unknown length (all static / all dynamic), iterated under a LoopSpec"""

    def __init__(self, name, loops, first=None):
        self.name = name
        self.loops = loops  # function(list_name) -> LoopSpec, chosen by the harness per use site
        self.first = first

    def iterate(self, interp, st, s):
        yield from self.loops(self.name).run(interp, st, s, self)

    def getitem(self, interp, st, i, node):
        if i == 0 and self.first is not None:
            return interp._relocate(st, self.first)
        raise Unsupported("abstract field list: only [0] is available")

    def getslice(self, interp, st, lo, hi, node):
        if lo == 1 and hi is None:
            return FieldList(self.name + "[1:]", self.loops)
        raise Unsupported("abstract field list slice")


def abstract_field(st, dynamic, tag):
    t, sz = field_type(st, dynamic, tag)
    f = SymObj("Field", {"ftype": t, "offset": None, "is_reference": None, "index": fresh_int("index"), "name": f"field_{tag}"})
    f.closed = True
    return f, sz


def vc_struct_layout_loops():
    """The layout loops of MetaStruct.__new__ for any number of fields.  Execution starts at the statement `if is_static:` of the
    current source (the classification loops before it are covered by struct_layout_small); `fields`, `s_fields`, `d_fields` are
    abstract lists.  Invariant of every layout loop: the running offset is non-negative and a multiple of 8; each iteration
    places its field AT the running offset and advances it by the slot-rounded size (8 for an offset word), so offsets are
    the prefix sums of StructLayout and consecutive parts never overlap."""
    fnode = src.func_node(STRUCT, "MetaStruct.__new__")
    body = src.body_of(fnode)
    k0 = None
    for k, stmt in enumerate(body):
        if isinstance(stmt, ast.If) and isinstance(stmt.test, ast.Name) and stmt.test.id == "is_static":
            k0 = k
    if k0 is None:
        raise Unsupported("MetaStruct.__new__: statement `if is_static:` not found")
    con = _contract(STRUCT, "MetaStruct.__new__", [])
    obs = []
    its = []
    for static in (True, False):
        it = struct_env()
        its.append(it)
        it.contract = con
        lab = "static" if static else "dynamic"

        def make_loop(list_name, it=it, lab=lab):
            dyn_elems = list_name.startswith("d_fields")
            is_outer = (list_name == "fields" and lab == "dynamic")

            LB = 0 if lab == "static" else 8  # a dynamic struct starts with its size word

            def init(interp, st, k, node):
                off = st.locals["offset"]
                if not is_outer:
                    interp.oblige(st, f"inv{k}.init", f"offset_after_header_multiple_of_8[{lab}:{list_name}]", z3.And(off >= LB, off % 8 == 0) if not isinstance(off, int) else z3.BoolVal(off >= LB and off % 8 == 0), node.lineno)

            def head(interp, st):
                OFF = fresh_int("OFF")
                st.locals["offset"] = OFF
                st.assume(z3.And(OFF >= LB, OFF % 8 == 0) if not is_outer else z3.And(OFF >= 0, OFF % 8 == 0))
                return {"OFF": OFF}

            def alts():
                def mk(st):
                    f, sz = abstract_field(st, dyn_elems, list_name)
                    f.spec_size = sz
                    return f
                yield ("dynamic_field" if dyn_elems else "static_field"), mk

            def preserve(interp, st, g, label, elem, k, node):
                off2 = st.locals["offset"]
                if is_outer:
                    # one pass of the outer loop recomputes the whole dynamic layout; nothing is carried between passes
                    interp.oblige(st, f"inv{k}.preserve", f"offset_nonneg_multiple_of_8[{lab}:{list_name}]", z3.And(off2 >= 0, off2 % 8 == 0), node.lineno)
                    # after every pass (there is at least one: a dynamic struct has a field) the first dynamic field sits after the
                    # header: static fields, then one offset word per later dynamic field
                    fd = st.ghost["__first"]
                    off = fd.attrs["offset"]
                    interp.oblige(st, f"inv{k}.preserve", f"first_dynamic_field_placed_after_the_header[{lab}]",
                                  z3.And(off >= 8, off % 8 == 0, off == off2) if off is not None else z3.BoolVal(False), node.lineno)
                    interp.oblige(st, f"inv{k}.preserve", f"first_dynamic_field_not_reference[{lab}]", zb(same_value(fd.attrs["is_reference"], False)), node.lineno)
                    return
                e = interp._relocate(st, elem)
                OFF = g["OFF"]
                ob = lambda c, gl: interp.oblige(st, f"inv{k}.preserve", f"{c}[{lab}:{list_name}]", gl if not isinstance(gl, bool) else z3.BoolVal(gl), node.lineno)
                ob("field_placed_at_running_offset", e.attrs["offset"] == OFF)
                if list_name == "d_fields[1:]":
                    ob("is_reference", same_value(e.attrs["is_reference"], True))
                    ob("advance_by_one_slot", off2 == OFF + 8)
                else:
                    ob("not_reference", same_value(e.attrs["is_reference"], False))
                    ob("advance_by_slot_size", off2 == OFF + slot_int(elem.spec_size))
                    ob("next_part_after_this_one", off2 >= OFF + elem.spec_size)
                ob("offset_after_header_multiple_of_8", z3.And(off2 >= LB, off2 % 8 == 0))
            from pyvc.interp_ext import LoopSpec

            return LoopSpec(init, head, alts, preserve)

        st0 = State()
        first_dyn, _ = abstract_field(st0, True, "first_dynamic")
        fields = FieldList("fields", make_loop)
        s_fields = FieldList("s_fields", make_loop)
        d_fields = FieldList("d_fields", make_loop, first=first_dyn)
        data = PDict({"_fields": fields})
        local_vars = {"cls": ClassVal("MetaStruct", STRUCT), "name": "S", "bases": (), "data": data, "offset": 0, "fields": fields,
                      "s_fields": s_fields, "d_fields": d_fields, "is_static": static, "findex": fresh_int("findex")}
        from pyvc.core import Frame
        from pyvc.interp import background_axioms

        st = State()
        st.heap_sorts = it.heap_sorts()
        for ax in background_axioms():
            st.assume(ax)
        for f in st0.pc:
            st.assume(f)
        fr = Frame(con.qualname, local_vars)
        fr.module = STRUCT
        fr.fnode = fnode
        st.frames.append(fr)
        st.ghost["__first"] = first_dyn
        try:
            for st1, out in it.exec_block(st, [body[k0]]):
                if out is not None:
                    it.oblige(st1, "raises", f"never[{lab}]", False)
                    continue
                if not static:
                    it.oblige(st1, "post", f"size_is_dynamic[{lab}]", z3.BoolVal(st1.locals.get("size") is None))
                else:
                    sz = st1.locals.get("size")
                    it.oblige(st1, "post", f"size_is_final_offset[{lab}]", z3.And(sz >= 0, sz % 8 == 0) if sz is not None else z3.BoolVal(False))
        except HARNESS_ERRORS as e:
            vc_struct_layout_loops.undecided.append((lab, str(e)[:150]))
        obs += it.obligations
    vc_struct_layout_loops.interps = its
    return obs


group("struct_layout_loops", vc_struct_layout_loops, [(STRUCT, "MetaStruct.__new__")], ["C05", "C03", "C02", "C07"])


# ------------------------------------------------------------------------------------------------ group 8: Struct objects (<= 3 fields)
class TypeContractObj:
    """an abstract field type obeying TypeContract (DESIGN 4.3):
    TC1 _inspect_args(v) -> Info(size = SZ(v) >= 0);  TC2 _to_buffer(buf, off, v, info) changes only bytes of [off, off+size)
    (size = info.size, or SZ(v) when info is None) and needs that extent inside the buffer;  TC3 _from_buffer(buf, off) -> view"""

    def __init__(self, name, static_size, st):
        self.name = name
        self.static_size = static_size
        self.SZ = z3.Function(f"SZ_{name}", z3.IntSort(), z3.IntSort())  # size of a value (by value id)
        self.writes = []

    def size_of(self, st, v):
        if self.static_size is not None:
            return self.static_size
        s = self.SZ(z3.IntVal(getattr(v, "uid", 0)))
        st.assume(s >= 8)  # TC1: a dynamically sized object starts with its 8-byte size word
        return s

    def as_symobj(self):
        T = SymObj("FieldType", {"_size": self.static_size, "__name__": self.name, "_has_refs": False})
        T.closed = True
        T.absent = {"_update"}
        tc = self

        class InspectArgs:
            def call(self, interp, st, args, kwargs, node):
                v = args[0] if args else None
                o = SymObj("Info", {"size": tc.size_of(st, v)})
                o.closed = True
                yield st, o

        class ToBuffer:
            def call(self, interp, st, args, kwargs, node):
                buf, off, v = args[0], args[1], args[2]
                info = args[3] if len(args) > 3 else kwargs.get("info")
                size = info.attrs["size"] if isinstance(info, SymObj) else tc.size_of(st, v)
                b = interp._relocate(st, buf)
                any_bytes = z3.Array(fresh_name("written"), z3.IntSort(), z3.IntSort())
                b.write_bytes(interp, st, off, size, lambda x: any_bytes[x], node, f"{tc.name}._to_buffer")
                st.recorded = getattr(st, "recorded", []) + [("write", tc.name, off, size, v, any_bytes)]
                yield st, None

        class FromBuffer:
            def call(self, interp, st, args, kwargs, node):
                st.recorded = getattr(st, "recorded", []) + [("read", tc.name, args[0], args[1])]
                yield st, ("view-of", tc.name, getattr(args[0], "uid", None), args[1])
        T.attrs["_inspect_args"] = InspectArgs()
        T.attrs["_to_buffer"] = ToBuffer()
        T.attrs["_from_buffer"] = FromBuffer()
        return T


def build_struct_class(it, pattern):
    """run the real MetaStruct.__new__ on a class body with len(pattern) fields; returns (cls, fields, types, pc)"""
    con = _contract(STRUCT, "MetaStruct.__new__", [])
    st0 = State()
    tcs = []
    data = PDict({})
    for k, dyn in enumerate(pattern):
        sz = None
        if not dyn:
            sz = fresh_int(f"size{k}")
            st0.assume(sz >= 0)
        tc = TypeContractObj(f"T{k}", sz, st0)
        tcs.append(tc)
        data.items[f"f{k}"] = tc.as_symobj()
    outs = list(it.exec_function(con, {"cls": ClassVal("MetaStruct", STRUCT), "name": "S", "bases": (), "data": data}, pre=list(st0.pc)))
    if len(outs) != 1 or outs[0][1] is None or outs[0][1][0] != "return":
        raise Unsupported("MetaStruct.__new__ did not return on a single path")
    st, out = outs[0]
    d = out[1].items
    cls = SymObj("MetaStruct", dict(d))
    cls.attrs["__name__"] = "S"
    cls.closed = True
    cls.instance_class = "Struct"
    return cls, d["_fields"].items, tcs, list(st.pc)


def vc_struct_small():
    """Struct._from_buffer (HandleInv), Field.get_offset/__get__ (documented field address), Struct._to_buffer for dict values
    (size word, offset words, every field written inside its own slot-rounded extent, extents disjoint and inside the object):
    classes of up to 3 fields built by the real MetaStruct.__new__; field types are abstract (TypeContract)."""
    obs = []
    its = []
    for n in range(1, 4):
        for pattern in itertools.product((False, True), repeat=n):
            lab = "".join("d" if d else "s" for d in pattern)
            it = struct_env()
            its.append(it)
            it.class_home.update({"Struct": STRUCT, "NumpyScalar": "xobjects/scalar.py"})
            i64 = int64_scalar()
            it.extern_names.update({"Int64": i64, "object": ObjectBuiltin()})
            XB.install_int64(it, i64)

            def construct_Info(st, args, kwargs, node):
                o = SymObj("Info", dict(kwargs))
                o.closed = True
                yield st, o
            it.construct_Info = construct_Info
            try:
                cls, F, tcs, pc = build_struct_class(it, pattern)
                it.obligations = []  # the layout obligations belong to the struct_layout groups
                dyn = [k for k in range(n) if pattern[k]]
                buf = XB.XBuf("buf")
                o = fresh_int("offset")
                # ---------------- reader side: view + field addresses
                con = _contract(STRUCT, "Struct._from_buffer", [])
                it.contract = con
                hdr = F[dyn[0]].attrs["offset"] if dyn else None
                pre = pc + [o >= 0, buf.cap >= 0, buf.cap < 2 ** 62]
                if dyn:
                    pre += [o + hdr + 8 <= buf.cap]  # the header and the first word after it lie in the image (the view reads them)
                for st, out in it.exec_function(con, {"cls": cls, "buffer": buf, "offset": o}, pre=pre):
                    if out is None or out[0] != "return":
                        it.oblige(st, "raises", f"never[{lab}]", False)
                        continue
                    h = out[1]
                    ob = lambda c, g: it.oblige(st, "post", f"{c}[{lab}]", g if not isinstance(g, bool) else z3.BoolVal(g))
                    ob("buffer_and_offset", same_value(h.attrs.get("_offset"), o) if getattr(h.attrs.get("_buffer"), "uid", None) == buf.uid else False)
                    offs = h.attrs.get("_offsets")
                    ob("offsets_cached_for_dynamic_fields", isinstance(offs, PDict) and sorted(offs.items) == dyn)
                    if isinstance(offs, PDict):
                        for k in dyn[1:]:
                            ob(f"offset_word{k}", offs.items[k] == XB.W8(buf.mem, o + F[k].attrs["offset"]))
                    if dyn:
                        ob("size_word", h.attrs.get("_size") == XB.W8(buf.mem, o))
                    # Field.get_offset / __get__ for every field
                    for k in range(n):
                        want = o + F[k].attrs["offset"] if (k not in dyn[1:]) else o + XB.W8(buf.mem, o + F[k].attrs["offset"])
                        hq = it._relocate(st, h)
                        stq = st.clone()
                        fobj = F[k]
                        fobj.attrs.setdefault("is_union", None)
                        for st2, res in it.call_function(stq, FuncVal(STRUCT, "Field.get_offset", fobj), [it._relocate(stq, h)], {}, None):
                            ok = isinstance(res, tuple) and len(res) == 2
                            it.oblige(st2, "post", f"field{k}_address_is_documented[{lab}]", res[1] == want if ok else z3.BoolVal(False))
                        stq = st.clone()
                        for st2, res in it.call_function(stq, FuncVal(STRUCT, "Field.__get__", fobj), [it._relocate(stq, h)], {}, None):
                            ok = isinstance(res, tuple) and res[0] == "view-of" and res[1] == f"T{k}"
                            it.oblige(st2, "post", f"field{k}_read_through_its_type[{lab}]", z3.BoolVal(ok))
                            if ok:
                                it.oblige(st2, "post", f"field{k}_read_address[{lab}]", res[3] == want)
                obs += it.obligations
                it.obligations = []
                # ---------------- writer side: dict value, info computed by the class's own _inspect_args
                vals = {f"f{k}": SymObj("Value", {}) for k in range(n)}
                value = PDict(dict(vals))
                con2 = _contract(STRUCT, "Struct._to_buffer", [])
                it.contract = con2
                sizes = [tcs[k].size_of(State(), vals[f"f{k}"]) for k in range(n)]
                # extent reserved by the caller: the size _inspect_args reports (static: cls._size)
                if dyn:
                    total = hdr
                    for k in dyn:
                        total = total + slot_int(sizes[k])
                else:
                    total = cls.attrs["_size"]
                pre2 = pc + [o >= 0, buf.cap >= 0, buf.cap < 2 ** 62, o + total <= buf.cap] + [(s >= 8 if pattern[k] else s >= 0) for k, s in enumerate(sizes) if not isinstance(s, int)]
                m0 = buf.mem
                for st, out in it.exec_function(con2, {"cls": cls, "buffer": buf, "offset": o, "value": value, "info": None}, pre=pre2):
                    if out is not None and out[0] == "raise":
                        it.oblige(st, "raises", f"never[{lab}]", False, out[2])
                        continue
                    b = it._relocate(st, buf)
                    ob = lambda c, g: it.oblige(st, "post", f"{c}[{lab}]", g if not isinstance(g, bool) else z3.BoolVal(g))
                    ob("frame_whole_object", forall_x(lambda x: z3.Implies(z3.Or(x < o, x >= o + total), b.mem[x] == m0[x])))
                    wr = [r for r in getattr(st, "recorded", []) if r[0] == "write"]
                    ob("every_field_written_once", sorted(r[1] for r in wr) == [f"T{k}" for k in range(n)])
                    ext = {}
                    cur = hdr
                    for k in dyn:
                        ext[k] = (cur, slot_int(sizes[k]))
                        cur = cur + slot_int(sizes[k])
                    for k in range(n):
                        if k not in dyn:
                            ext[k] = (F[k].attrs["offset"], slot_int(sizes[k]))
                    for r in wr:
                        k = int(r[1][1:])
                        ob(f"field{k}_written_at_documented_offset", r[2] == o + ext[k][0])
                        ob(f"field{k}_value", r[4] is vals[f"f{k}"] or getattr(r[4], "uid", 0) == vals[f"f{k}"].uid)
                        ob(f"field{k}_extent_inside_object", z3.And(ext[k][0] >= 0, ext[k][0] + ext[k][1] <= total))
                        wb, wsz, woff = r[5], r[3], r[2]
                        ob(f"field{k}_bytes_survive_later_writes", forall_x(lambda x: z3.Implies(z3.And(0 <= x, x < wsz), b.mem[woff + x] == wb[x])))
                    # header words survive the field writes: size word and one offset word per later dynamic field (C05), which is what a
                    # view rebuilt from (buffer, offset) reads back (C06: constructor handle == view)
                    for (old, new, at) in getattr(st, "word_writes", []):
                        XB.same_word(st, new, b.mem, at)
                    if dyn:
                        ob("size_word_after_all_writes", XB.W8(b.mem, o) == total)
                        for k in dyn[1:]:
                            ob(f"offset_word{k}_after_all_writes", XB.W8(b.mem, o + F[k].attrs["offset"]) == ext[k][0])
                    for a in range(n):
                        for c in range(a + 1, n):
                            ob(f"fields{a}{c}_disjoint", z3.Or(ext[a][0] + ext[a][1] <= ext[c][0], ext[c][0] + ext[c][1] <= ext[a][0]))
                    for k in range(n):
                        ob(f"field{k}_slot_aligned", ext[k][0] % 8 == 0)
                obs += it.obligations
            except HARNESS_ERRORS as e:
                vc_struct_small.undecided.append((lab, str(e)[:160]))
                obs += it.obligations
    vc_struct_small.interps = its
    return obs


group("struct_small", vc_struct_small, [(STRUCT, "Struct._from_buffer"), (STRUCT, "Field.get_offset"), (STRUCT, "Field.__get__"), (STRUCT, "Struct._to_buffer"),
                                       (STRUCT, "Struct._set_offsets"), (STRUCT, "MetaStruct.__new__.<locals>._inspect_args"), (STRUCT, "Field.value_from_args"),
                                       ("xobjects/typeutils.py", "dispatch_arg")], ["C03", "C05", "C06", "C02", "C01"])


# ------------------------------------------------------------------------------------------------ group 9: scalar codec
SCAL = "xobjects/scalar.py"


class _DType:
    def __init__(self, isz):
        self.isz = isz
        self.enc_mem = None

    def getattr(self, interp, st, attr, node):
        if attr == "type":
            yield st, XB._M(lambda i, s, a, k, n: _NpScalar(self, a[0]))
            return
        if attr == "itemsize":
            yield st, self.isz
            return
        raise Unsupported(f"dtype.{attr}")


class _NpScalar:
    """dtype.type(value): AX-scalar-codec: tobytes() has exactly itemsize bytes ENC(value); frombuffer(ENC(v), dtype)[0] == dtype.type(v)"""

    def __init__(self, dt, value):
        self.dt, self.value = dt, value

    def getattr(self, interp, st, attr, node):
        if attr == "tobytes":
            def mk(i, s, a, k, n):
                m = z3.Array(fresh_name("enc"), z3.IntSort(), z3.IntSort())
                return XB.ByteStr(self.dt.isz, m, ("enc", self.value))
            yield st, XB._M(mk)
            return
        raise Unsupported(f"numpy scalar .{attr}")


class _DecodedArray:
    def __init__(self, data, dt):
        self.data, self.dt = data, dt

    def getitem(self, interp, st, i, node):
        if i != 0:
            raise Unsupported("frombuffer(...)[k], k != 0")
        return ("decoded", self.data, self.dt)


def vc_scalar_codec():
    """NumpyScalar._to_buffer writes exactly its itemsize bytes (the encoding of the value) at the offset; _from_buffer decodes
    exactly those bytes; so read-after-write returns dtype.type(value) by the numpy codec axiom (C01, C03, C13)"""
    obs = []
    it = new_interp()
    it.class_home["NumpyScalar"] = SCAL
    isz = fresh_int("itemsize")
    dt = _DType(isz)
    sc = SymObj("NumpyScalar", {"_size": isz, "_dtype": dt, "__name__": "Scalar"})
    sc.closed = True

    def bi_np_frombuffer(st, f, args, kw, node):
        data = args[0]
        if not isinstance(data, XB.ByteStr) or kw.get("dtype") is not dt:
            raise Unsupported("np.frombuffer arguments")
        it.safety(st, "ValueError", XB.to_z3(data.n) == isz, node)  # buffer size must be a multiple of the item size; [0] needs one item
        return _DecodedArray(data, dt)
    it.bi_np_frombuffer = bi_np_frombuffer
    buf = XB.XBuf("buf")
    o = fresh_int("offset")
    val = SymObj("Value", {})
    pre = [isz >= 1, isz <= 16, o >= 0, o + isz <= buf.cap, buf.cap >= 0]
    m0 = buf.mem
    con = _contract(SCAL, "NumpyScalar._to_buffer", [])
    for st, out in it.exec_function(con, {"self": sc, "buffer": buf, "offset": o, "value": val, "info": None}, pre=pre):
        if out is not None and out[0] == "raise":
            it.oblige(st, "raises", "never", False, out[2])
            continue
        b = it._relocate(st, buf)
        it.oblige(st, "post", "frame_exactly_itemsize_bytes", forall_x(lambda x: z3.Implies(z3.Or(x < o, x >= o + isz), b.mem[x] == m0[x])))
        it.contract = _contract(SCAL, "NumpyScalar._from_buffer", [])
        for st2, res in it.call_function(st.clone(), FuncVal(SCAL, "NumpyScalar._from_buffer", sc), [b, o], {}, None):
            ok = isinstance(res, tuple) and res[0] == "decoded" and isinstance(res[1].tag, tuple) and res[1].tag[0] == "slice"
            it.oblige(st2, "post", "decodes_a_slice_of_the_buffer", z3.BoolVal(ok))
            if ok:
                it.oblige(st2, "post", "reads_exactly_the_written_bytes", z3.And(XB.to_z3(res[1].tag[2]) == o, XB.to_z3(res[1].n) == isz))
                # the bytes read are the bytes written: hypotheses of AX-scalar-codec
                wr = [r for r in getattr(st2, "recorded", [])]
                it.oblige(st2, "post", "read_bytes_equal_written_encoding", forall_x(lambda x: z3.Implies(z3.And(0 <= x, x < isz), res[1].mem[x] == b.mem[o + x])))
        it.contract = con
    obs += it.obligations
    vc_scalar_codec.interps = [it]
    return obs


group("scalar_codec", vc_scalar_codec, [(SCAL, "NumpyScalar._to_buffer"), (SCAL, "NumpyScalar._from_buffer")], ["C01", "C03", "C13", "C10"])


from . import types2_vc  # noqa: E402,F401  (registers more groups)
from . import types3_vc  # noqa: E402,F401  (C19/C20 struct groups)
from . import types4_vc  # noqa: E402,F401  (session 5: Struct._update, constructors, size accessors)
from . import types5_vc  # noqa: E402,F401  (session 5: Array._to_buffer without a value / from a same-class object)
