import argparse
import json
import os
import sys
import traceback

from . import common


def get_check(prop):
    if prop in ("C04", "C12"):
        from .alloc import AllocCheck

        return AllocCheck(prop)
    if prop in ("C02", "C07", "C15"):
        from .capi import CapiCheck

        return CapiCheck(prop)
    if prop == "C16":
        from .specsrc import SpecSrcCheck

        return SpecSrcCheck()
    if prop == "C13":
        from .buffers import BuffersCheck

        return BuffersCheck()
    if prop == "C14":
        from .toposort import TopoCheck

        return TopoCheck()
    if prop in ("C01", "C03", "C05", "C06", "C08", "C09", "C10", "C11"):
        from .objects import ObjectsCheck

        return ObjectsCheck(prop)
    if prop in ("C17", "C18", "C19", "C20"):
        from .misc import NativeCheck

        return NativeCheck(prop)
    raise SystemExit(f"no check for {prop}")


def main():
    ap = argparse.ArgumentParser()
    ap.add_argument("cmd")
    ap.add_argument("arg", nargs="?")
    ap.add_argument("--tier", default=os.environ.get("VERIF_TIER", "quick"))
    a = ap.parse_args()
    seed = int(os.environ.get("VERIF_SEED", "0"))
    if a.cmd == "lock":
        n, tot = common.write_lock(get_check(a.arg))
        print(f"lock written: {n} discharged bases of {tot} obligations")
        return 0
    if a.cmd == "replay":
        with open(a.arg) as fh:
            d = json.load(fh)
        print(json.dumps({k: v for k, v in d.items() if k != "counterexample"}, indent=1)[:3000])
        cex = d.get("counterexample") or d
        script = cex.get("script") if isinstance(cex, dict) else None
        if script:
            print("--- replaying on", common.REPO)
            sys.path.insert(0, common.REPO)
            try:
                exec(script, {})
            except Exception:
                traceback.print_exc()
        return 0
    prop = a.cmd
    try:
        return common.run_check(get_check(prop), a.tier, seed)
    except Exception:
        traceback.print_exc()
        print("CHECKER-FAULT: crash")
        return 3


if __name__ == "__main__":
    sys.exit(main())
