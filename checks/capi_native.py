"""Bounded native cross-check for C02/C07 (never counted as proved): the C accessors emitted by the real generator are
compiled through the library's own cffi path and called for every path of every class of the grammar slice, with every
in-range index tuple, on objects that do not sit at offset 0 of their buffer; results are compared with the Python
accessors (value, address, length, union member id/address).  Also the cross-check of pyvc/minic.py's reading of the
emitted text.
"""
import itertools
import random
import numpy as np

from . import grammar


_FFI = []


def ptr_int(p):
    import cffi

    if not _FFI:
        _FFI.append(cffi.FFI())
    return int(_FFI[0].cast("uintptr_t", p))


def base_address(obj):
    buf = np.frombuffer(obj._buffer.buffer, dtype="int8")
    return buf.ctypes.data


def walk(X, obj, path, indices):
    """follow `path` from obj with the Python accessors.
    returns dict(value=..., offset=absolute offset in the buffer or None, null=bool)"""
    cur = obj
    off = obj._offset
    it = iter(indices)
    for part in path[1:]:
        if X.struct.is_field(part):
            ftype, off = part.get_offset(cur)
            cur = part.__get__(cur)
        elif X.array.is_index(part):
            r = len(part.cls._shape)
            idx = tuple(next(it) for _ in range(r))
            off = cur._get_offset(idx if r > 1 else idx[0])
            cur = cur[idx if r > 1 else idx[0]]
        elif X.ref.is_ref(part):
            if cur is None:
                return {"null": True}
            off = cur._offset  # Field.__get__ already dereferenced
        else:
            continue
    return {"value": cur, "offset": off, "null": False}


def index_ranges(X, obj, path):
    """every in-range index tuple along the path (cartesian over the arrays met on the way; shapes may depend on indices
    only through nested dynamic arrays, handled by recursion)"""
    def rec(cur, parts):
        if not parts:
            yield ()
            return
        part = parts[0]
        if X.struct.is_field(part):
            yield from rec(part.__get__(cur), parts[1:])
        elif X.array.is_index(part):
            r = len(part.cls._shape)
            for idx in itertools.product(*[range(n) for n in cur._shape]):
                for rest in rec(cur[idx if r > 1 else idx[0]], parts[1:]):
                    yield idx + rest
        elif X.ref.is_ref(part):
            if cur is None:
                return
            yield from rec(cur, parts[1:])
        else:
            yield from rec(cur, parts[1:])
    yield from rec(obj, list(path[1:]))


def run(tier, seed, want_first=False, max_idx=40):
    X = grammar.xo()
    from xobjects import capi
    from xobjects.typeutils import default_conf

    rnd = random.Random(seed)
    sl = grammar.Slice(tier)
    evals = 0
    distinct = set()
    violations = []
    samples = []
    # twins: classes of equal name (C type names are class names) and different layout, built one after the other in this process --
    # each build must address its own classes' layout, whatever was generated before it
    tw = grammar.uniq("Tw")
    twinsA = [X.Float64[3, 4], X.Int32[2, 3, 2], grammar.mkstruct(f"{tw}P", {"x": X.Int64, "y": X.Float64, "s": X.Float64[:]}),
              grammar.mkstruct(f"{tw}H", {"n": X.Int64, "m": X.Int16[3, 2]})]
    twinsB = [X.Float64[3:1, 4:0], X.Int32[2:1, 3:2, 2:0], grammar.mkstruct(f"{tw}P", {"k": X.Int8, "x": X.Int64, "s": X.Float64[:], "y": X.Float64, "t": X.Int32[:]}),
              grammar.mkstruct(f"{tw}H", {"n": X.Int64, "m": X.Int16[3:0, 2:1]})]
    for roots in (sl.roots, twinsA, twinsB):
        r = _one_build(X, capi, default_conf, sl, roots, rnd, tier, want_first, max_idx, distinct, violations, samples)
        evals += r
        if violations and want_first:
            break
    return evals, distinct, violations, samples


def _one_build(X, capi, default_conf, sl, roots, rnd, tier, want_first, max_idx, distinct, violations, samples):
    ctx = X.ContextCpu()
    kernels = {}
    per_cls = []
    evals = 0
    for cls in roots:
        paths = cls._gen_data_paths()
        plist = []
        for path in paths:
            ms = capi.methods_from_path(cls, path, default_conf)
            for src, k in ms:
                if k is not None:
                    kernels[k.c_name] = k
            plist.append((path, ms))
        per_cls.append((cls, plist))
    ctx.add_kernels(kernels=kernels, extra_classes=roots)

    def bad(cls, path, what, idx, got, want, text):
        v = {"class": cls.__name__, "path": path_str(X, path), "accessor": what, "indices": list(idx), "c_result": repr(got),
             "python_result": repr(want), "emitted": text,
             "case_key": f"{what}:{shape_key(X, path)}"}
        violations.append(v)

    for cls, plist in per_cls:
        for rep in range(2 if tier == "quick" else 4):
            val = sl.value(cls, rnd)
            obj = None
            if rep % 2 == 0 and X.struct.is_struct(cls) and any(X.ref.is_ref(f.ftype) or X.ref.is_unionref(f.ftype) for f in cls._fields):
                # history: the referents exist in the buffer before the holder is built, so the stored (slot-relative) offsets are negative
                try:
                    buf0 = X.ContextCpu().new_buffer(capacity=rnd.choice([64, 256]))
                    buf0.allocate(rnd.choice([8, 24]))
                    v2 = dict(val)
                    for f in cls._fields:
                        fv = v2.get(f.name)
                        if fv is None:
                            continue
                        if X.ref.is_ref(f.ftype):
                            T_ = f.ftype._reftype
                            v2[f.name] = T_(**fv, _buffer=buf0) if isinstance(fv, dict) else T_(fv, _buffer=buf0)
                        elif X.ref.is_unionref(f.ftype):
                            M_ = [m for m in f.ftype._reftypes if m.__name__ == fv[0]][0]
                            v2[f.name] = M_(**fv[1], _buffer=buf0) if isinstance(fv[1], dict) else M_(fv[1], _buffer=buf0)
                    obj = cls(**v2, _buffer=buf0)
                except Exception:  # noqa  (this way of building the object is not what is tested here)
                    obj = None
            if obj is None:
                obj = grammar.place(cls, val, rnd)
            if rep % 2 == 1 and plist and plist[0][1]:
                # history: a kernel call, then allocations that enlarge (and relocate) the buffer, then more calls
                k0 = [k for _, k in plist[0][1] if k is not None and "getp" in k.c_name]
                if k0:
                    getattr(ctx.kernels, k0[0].c_name)(obj=obj)
                obj._buffer.allocate(obj._buffer.capacity + 64)
            base = base_address(obj)
            for path, ms in plist:
                last = path[-1]
                for n_idx, idx in enumerate(index_ranges(X, obj, path)):
                    if n_idx >= max_idx:
                        break
                    w = walk(X, obj, path, idx)
                    if w.get("null"):
                        continue
                    ikw = {f"i{k}": int(v) for k, v in enumerate(idx)}
                    for src, k in ms:
                        if k is None:
                            continue
                        name = k.c_name
                        action = name[len(cls._c_type) + 1:].split("_")[0].rstrip("0123456789")
                        fn = getattr(ctx.kernels, name)
                        evals += 1
                        distinct.add((cls.__name__, name, idx))
                        try:
                            if action == "get":
                                got = fn(obj=obj, **ikw)
                                want = w["value"]
                                if not same_scalar(got, want):
                                    bad(cls, path, name, idx, got, want, src)
                            elif action == "set":
                                newv = grammar.scalar_value(last, rnd)
                                before = bytes(obj._buffer.buffer[:])
                                fn(obj=obj, value=newv, **ikw)
                                after = bytes(obj._buffer.buffer[:])
                                w2 = walk(X, obj, path, idx)
                                lo = w["offset"]
                                hi = lo + last._size
                                if not same_scalar(w2["value"], last(newv)) or before[:lo] != after[:lo] or before[hi:] != after[hi:]:
                                    bad(cls, path, name, idx, (w2["value"], "bytes outside element changed" if before[:lo] != after[:lo] or before[hi:] != after[hi:] else ""), newv, src)
                            elif action == "getp":
                                got = fn(obj=obj, **ikw)
                                addr = ptr_int(got)
                                if addr - base != w["offset"]:
                                    bad(cls, path, name, idx, addr - base, w["offset"], src)
                            elif action == "len":
                                got = fn(obj=obj, **ikw)
                                want = len(w["value"])
                                if int(got) != want:
                                    bad(cls, path, name, idx, got, want, src)
                            elif action == "typeid":
                                got = fn(obj=obj, **ikw)
                                m = w["value"]
                                want = -1 if m is None else last._typeid_from_type(type(m))
                                if int(got) != want:
                                    bad(cls, path, name, idx, got, want, src)
                            elif action == "member":
                                m = w["value"]
                                if m is not None:
                                    got = fn(obj=obj, **ikw)
                                    addr = ptr_int(got)
                                    if addr - base != m._offset:
                                        bad(cls, path, name, idx, addr - base, m._offset, src)
                            else:
                                evals -= 1
                        except Exception as e:  # noqa
                            bad(cls, path, name, idx, f"raised {type(e).__name__}: {e}", "no exception", src)
                        if violations and want_first:
                            return evals
                    if len(samples) < 3 and n_idx == 1 and len(path) > 3:
                        samples.append({"class": cls.__name__, "path": path_str(X, path), "indices": list(idx),
                                        "python_offset": w["offset"] - obj._offset, "object_offset_in_buffer": obj._offset})
    return evals


def same_scalar(a, b):
    try:
        if a != a and b != b:
            return True
        return a == b
    except Exception:
        return False


def path_str(X, path):
    out = []
    for p in path:
        if X.struct.is_field(p):
            out.append("." + p.name)
        elif X.array.is_index(p):
            out.append("[" + ",".join("i" for _ in p.cls._shape) + "]")
        elif X.ref.is_ref(p):
            out.append("->")
        else:
            out.append(f"<{getattr(p, '__name__', p)}>")
    return "".join(out)


def shape_key(X, path):
    out = []
    for p in path[1:]:
        if X.struct.is_field(p):
            out.append("fr" if p.is_reference else "f")
        elif X.array.is_index(p):
            out.append("i" + ("d" if not p.cls._is_static_type else "s"))
        elif X.ref.is_ref(p):
            out.append("r")
    return ".".join(out)[:60]


def run_first(seed):
    ev, d, viol, _ = run("thorough", seed, want_first=True)
    return viol[:1]
