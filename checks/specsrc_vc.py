"""Deductive part for xobjects/specialize_source.py (C15, C16) and the GPU launch arithmetic (C16).

specialize_source is executed symbolically on an *abstract source*: a list of unknown length of abstract lines.  Both
loops are cut at invariants (LoopSpec); one `preserve` obligation per shape of line:
    loop 0 (include pass):   plain line | include line naming other contexts          (include line naming this context:
                             file access, not in the deductive subset -> bounded native part)
    loop 1 (transducer):     vectorize_over v lim | end_vectorize | only_for_context (listing / not listing the target) | plain
Invariant: the output list equals PREFIX ++ expand_t(line) (spec written from the property statement), and the one bit of
state `inside_vect_block` equals the spec state.  After the loops the result must be
    R(R(R(R(join(lines'), "/*gpukern*/", K_t), "/*gpufun*/", F_t), "/*gpuglmem*/", G_t), "/*restrict*/", Q_t)
with str.replace uninterpreted (R) and only the four constants depending on the target.

String axioms assumed (trusted, listed in the evidence): a line produced by str.splitlines contains no newline, so
ll.split("\\n") == [ll]; tokens produced by str.split() contain no blanks, so tok.strip() == tok; `marker in line`,
`line.split(marker)[-1].split()` are uninterpreted observations of the abstract line fixed by its shape.
"""
import ast
import re
import z3

from pyvc.registry import reg
from pyvc.interp import Interp
from pyvc.interp_ext import LoopSpec
from pyvc.core import PList, Unsupported, PyvcError, fresh_bool, BuiltinVal, is_sym, _Mut, same_value
from pyvc.tmpl import Tmpl, Atom
from pyvc import source as src

SPEC = "xobjects/specialize_source.py"
TARGETS = ["cpu_serial", "cpu_openmp", "opencl", "cuda"]


# ------------------------------------------------------------------------------------------ abstract strings
class AbsLine:
    """an unknown source line; `facts`: marker -> bool answers of `marker in line`"""

    def __init__(self, name, facts, tokens=None, listed=None):
        self.name = name
        self.facts = facts
        self.tokens = tokens  # for vectorize lines: (varname, limname)
        self.listed = listed  # for context-restricted lines: does the list name the target

    def __repr__(self):
        return f"<line {self.name}>"

    def contains(self, interp, st, x):
        if x in self.facts:
            return self.facts[x]
        raise Unsupported(f"abstract line {self.name}: `{x!r} in line` not fixed by the line shape")

    def getattr(self, interp, st, attr, node):
        if attr in ("split", "strip", "rstrip"):
            yield st, _Method(self, attr)
            return
        raise Unsupported(f"abstract line .{attr}")

    def binop(self, interp, st, op, other, reflected):
        if isinstance(op, ast.Add) and isinstance(other, str):
            return Concat([other, self] if reflected else [self, other])
        return NotImplemented

    def equal(self, other):
        return other is self


class Concat:
    def __init__(self, parts):
        self.parts = parts

    def __repr__(self):
        return "<" + "+".join(map(repr, self.parts)) + ">"

    def key(self):
        return tuple(p if isinstance(p, str) else id(p) for p in self.parts)


class _Method:
    def __init__(self, obj, name):
        self.obj, self.name = obj, name

    def call(self, interp, st, args, kwargs, node):
        o = self.obj
        if isinstance(o, AbsLine) and self.name == "split":
            if args == ["\n"]:
                yield st, PList([o])  # axiom: no newline inside a line
                return
            if len(args) == 1 and isinstance(args[0], str):
                yield st, _SplitAt(o, args[0])
                return
        if isinstance(o, _Tail) and self.name == "split" and not args:
            yield st, o.tokens()
            return
        if isinstance(o, _Tail) and self.name == "split" and len(args) == 1 and isinstance(args[0], str):
            yield st, _SplitAt(o.line, args[0])
            return
        if isinstance(o, _Tail) and self.name == "strip" and not args:
            yield st, o
            return
        if isinstance(o, _Tok) and self.name == "strip" and not args:
            yield st, o  # axiom: tokens of split() carry no blanks
            return
        raise Unsupported(f"abstract string method {self.name}{args}")


class _SplitAt:
    def __init__(self, line, marker):
        self.line, self.marker = line, marker

    def getitem(self, interp, st, i, node):
        if i == -1:
            return _Tail(self.line, self.marker)
        if i == 0:
            return _Tail(self.line, self.marker, head=True)
        raise Unsupported("abstract split index")


class _Tail:
    def __init__(self, line, marker, head=False):
        self.line, self.marker, self.head = line, marker, head

    def getattr(self, interp, st, attr, node):
        if attr in ("split", "strip"):
            yield st, _Method(self, attr)
            return
        raise Unsupported(f"abstract tail .{attr}")

    def tokens(self):
        if self.marker == "//vectorize_over" and self.line.tokens is not None:
            return self.line.tokens
        if self.marker in ("//only_for_context", "for_context") and self.line.listed is not None:
            return PList([_Tok(self.line)])
        raise Unsupported(f"tokens after {self.marker} not fixed by the line shape")


class _Tok:
    """stands for all context names listed on the line; == target answers the shape's `listed`"""

    def __init__(self, line):
        self.line = line

    def getattr(self, interp, st, attr, node):
        if attr == "strip":
            yield st, _Method(self, attr)
            return
        raise Unsupported(f"token .{attr}")

    def equal(self, other):
        if isinstance(other, str):
            return self.line.listed
        raise Unsupported("token ==")


class AbsList(_Mut):
    """list value = opaque prefix segment ++ concrete items"""

    def __init__(self, prefix):
        super().__init__()
        self.prefix = prefix
        self.items = []

    def clone_mut(self, cp):
        n = AbsList.__new__(AbsList)
        n.prefix = self.prefix
        n.items = list(self.items)
        return n

    def getattr(self, interp, st, attr, node):
        if attr in ("append", "extend"):
            yield st, _ListMethod(self, attr)
            return
        raise Unsupported(f"abstract list .{attr}")

    def binop(self, interp, st, op, other, reflected):
        if isinstance(op, ast.Add) and isinstance(other, PList) and not reflected:
            n = AbsList(self.prefix)
            n.items = self.items + list(other.items)
            return n
        return NotImplemented

    def __repr__(self):
        return f"<abslist {self.prefix}+{self.items}>"


class _ListMethod:
    def __init__(self, lst, name):
        self.lst, self.name = lst, name

    def call(self, interp, st, args, kwargs, node):
        if self.name == "append":
            self.lst.items.append(args[0])
        else:
            self.lst.items.extend(interp.concrete_items(st, args[0]))
        yield st, None


class AbsText:
    """text value: ('join', prefix-id) | ('R', inner, marker, replacement)"""

    def __init__(self, term):
        self.term = term

    def getattr(self, interp, st, attr, node):
        if attr == "replace":
            yield st, _Replace(self)
            return
        if attr == "splitlines":
            yield st, _Splitlines(self)
            return
        raise Unsupported(f"abstract text .{attr}")


class _Replace:
    def __init__(self, t):
        self.t = t

    def call(self, interp, st, args, kwargs, node):
        a, b = args
        if not isinstance(a, str) or not isinstance(b, str):
            raise Unsupported("replace with non-literal arguments")
        yield st, AbsText(("R", self.t.term, a, b))


class _Splitlines:
    def __init__(self, t):
        self.t = t

    def call(self, interp, st, args, kwargs, node):
        yield st, self.t.lines


class AbsSeq:
    def __init__(self, name):
        self.name = name
        self.loop = None

    def iterate(self, interp, st, s):
        yield from self.loop.run(interp, st, s, self)


class _Enum:
    def __init__(self, seq):
        self.seq = seq

    def iterate(self, interp, st, s):
        yield from self.seq.loop.run(interp, st, s, self.seq)


class _JoinNL:
    pass


# ------------------------------------------------------------------------------------------ spec (from the statement)
def norm_tokens(v):
    """token stream of emitted C text without // comments and whitespace; atoms stay atoms"""
    parts = v.parts if isinstance(v, Tmpl) else [v]
    out = []
    text = []
    for p in parts:
        if isinstance(p, str):
            text.append(p)
        else:
            text.append(f"\x00{p.name}\x00")
    s = "".join(text)
    s = "\n".join(l.split("//")[0] for l in s.split("\n"))
    return re.findall(r"\x00[^\x00]+\x00|[A-Za-z_][A-Za-z_0-9.]*|\d+|\+\+|[^\sA-Za-z_0-9]", s)


def spec_vectorize(target, var, lim):
    V, L = f"\x00{var.name}\x00", f"\x00{lim.name}\x00"
    if target.startswith("cpu"):
        return ["for", "(", "int", V, "=", "0", ";", V, "<", L, ";", V, "++", ")", "{"]
    if target == "opencl":
        return ["int", V, ";", V, "=", "get_global_id", "(", "0", ")", ";"]
    return ["int", V, ";", V, "=", "blockDim.x", "*", "blockIdx.x", "+", "threadIdx.x", ";", "if", "(", V, "<", L, ")", "{"]


def spec_end(target):
    return [] if target == "opencl" else ["}"]


def match_vectorize(target, toks, var, lim):
    """semantic reading of the text a `//vectorize_over V L` line expands to (from the property statement, not from the code):
    CPU: a C `for` header that runs V over 0 .. L-1 in steps of one;  OpenCL / CUDA: V is the work-item index of the contexts'
    launch geometry, followed by the guard `if (V < L) {` (mandatory on CUDA, whose grid is rounded up; allowed on OpenCL).
    Redundant parentheses around the limit, `++V`, an initialised declaration and a 64-bit counter type are accepted spellings.
    Returns the number of braces the expansion leaves open, or None when the text is none of these forms."""
    if toks is None:
        return None
    V, L = f"\x00{var.name}\x00", f"\x00{lim.name}\x00"
    t = []
    k = 0
    while k < len(toks):  # ( L ) -> L
        if toks[k] == "(" and k + 2 < len(toks) and toks[k + 1] == L and toks[k + 2] == ")" and not (k > 0 and re.match(r"[A-Za-z_]", toks[k - 1]) and toks[k - 1] not in ("if", "for")):
            t.append(L)
            k += 3
        else:
            t.append(toks[k])
            k += 1
    types = ("int", "int64_t", "long")
    if target.startswith("cpu"):
        for step in ([V, "++"], ["++", V]):
            for ty in types:
                if t == ["for", "(", ty, V, "=", "0", ";", V, "<", L, ";"] + step + [")", "{"]:
                    return 1
        return None
    idx = ["get_global_id", "(", "0", ")"] if target == "opencl" else ["blockDim.x", "*", "blockIdx.x", "+", "threadIdx.x"]
    guard = ["if", "(", V, "<", L, ")", "{"]
    for ty in types:
        for decl in ([ty, V, ";", V, "="] + idx + [";"], [ty, V, "="] + idx + [";"]):
            if t == decl + guard:
                return 1
            if t == decl and target == "opencl":
                return 0
    return None


QUAL_SPEC = {
    # marker: target -> predicate on the replacement text (from the property statement: CPU targets carry no GPU
    # keyword; OpenCL pointers into object memory carry the global address-space qualifier; CUDA kernels/functions
    # carry __global__/__device__)
    "/*gpukern*/": {"cpu_serial": "", "cpu_openmp": "", "opencl": "__kernel", "cuda": "__global__"},
    "/*gpufun*/": {"cpu_serial": "static inline", "cpu_openmp": "static inline", "opencl": "", "cuda": "__device__"},
    "/*gpuglmem*/": {"cpu_serial": "", "cpu_openmp": "", "opencl": "__global", "cuda": ""},
    "/*restrict*/": {"cpu_serial": ("restrict", ""), "cpu_openmp": ("restrict", ""), "opencl": "", "cuda": ""},
}


# ------------------------------------------------------------------------------------------ harness
def _contract(qualname, relpath=SPEC):
    key = (relpath, qualname)
    if key not in reg.contracts:
        sp = type("spec_" + qualname.replace(".", "_"), (), {"params": {}, "properties": ["C15", "C16"]})
        reg.contract(relpath, qualname)(sp)
    return reg.contracts[key]


def vc_specialize(target):
    con = _contract("specialize_source")
    it = Interp(reg)
    it.obligations = []
    it.path_counter = {}
    T = target

    def ob(st, kind, clause, goal, line=None, props=("C16",)):
        o = it.oblige(st, kind, f"{clause}[{T}]", z3.BoolVal(bool(goal)) if isinstance(goal, bool) else goal, line)
        o.properties = list(props)
        return o

    # ---- loop 0: include pass
    def init0(interp, st, k, node):
        lines = st.locals["lines"]
        ob(st, f"inv{k}.init", "empty_output", isinstance(lines, PList) and len(lines.items) == 0, node.lineno, ("C15", "C16"))

    def head0(interp, st):
        st.locals["lines"] = AbsList("L0")
        return {}

    def alts0():
        yield "plain", lambda st: AbsLine("plain", {"//include_file": False})
        yield "include_other_context", lambda st: AbsLine("inc", {"//include_file": True, " for_context ": True}, listed=False)

    def preserve0(interp, st, g, label, line, k, node):
        lines = st.locals["lines"]
        ok = isinstance(lines, AbsList) and lines.prefix == "L0"
        if label == "plain":
            ob(st, f"inv{k}.preserve", "plain_line_unchanged", ok and len(lines.items) == 1 and lines.items[0] is line, node.lineno, ("C15", "C16"))
        else:
            ob(st, f"inv{k}.preserve", "include_for_other_context_adds_nothing", ok and len(lines.items) == 0, node.lineno)

    # ---- loop 1: transducer
    def init1(interp, st, k, node):
        nl = st.locals["new_lines"]
        ob(st, f"inv{k}.init", "empty_output", isinstance(nl, PList) and len(nl.items) == 0, node.lineno, ("C15", "C16"))
        ob(st, f"inv{k}.init", "outside_block", st.locals["inside_vect_block"] is False, node.lineno)
        ob(st, f"inv{k}.init", "no_indent", st.locals["indent"] is False, node.lineno, ("C15", "C16"))

    def head1(interp, st):
        inside = fresh_bool("inside")
        st.locals["new_lines"] = AbsList("N0")
        st.locals["inside_vect_block"] = inside
        return {"inside": inside}

    def alts1():
        def vec(st):
            return AbsLine("vec", {"//vectorize_over": True}, tokens=(Atom("varname", role="name"), Atom("limname", role="name")))
        yield "vectorize_over", vec
        yield "end_vectorize", lambda st: AbsLine("end", {"//vectorize_over": False, "//end_vectorize": True})
        yield "only_for_listed", lambda st: AbsLine("only+", {"//vectorize_over": False, "//end_vectorize": False, "//only_for_context": True}, listed=True)
        yield "only_for_other", lambda st: AbsLine("only-", {"//vectorize_over": False, "//end_vectorize": False, "//only_for_context": True}, listed=False)
        yield "plain", lambda st: AbsLine("plain", {"//vectorize_over": False, "//end_vectorize": False, "//only_for_context": False})

    braces = {}

    def preserve1(interp, st, g, label, line, k, node):
        nl = st.locals["new_lines"]
        inside2 = st.locals["inside_vect_block"]
        ok = isinstance(nl, AbsList) and nl.prefix == "N0"
        items = nl.items if ok else []
        if label == "vectorize_over":
            toks = [t for it_ in items for t in norm_tokens(it_)] if all(isinstance(x, (str, Tmpl)) for x in items) else None
            opened = match_vectorize(T, toks, *line.tokens) if ok else None
            braces["open"] = opened
            ob(st, f"inv{k}.preserve", "vectorize_expansion", opened is not None, node.lineno)
            ob(st, f"inv{k}.preserve", "vectorize_enters_block", inside2 is True, node.lineno)
        elif label == "end_vectorize":
            toks = [t for it_ in items for t in norm_tokens(it_)] if all(isinstance(x, (str, Tmpl)) for x in items) else None
            closes = ok and toks is not None and all(x == "}" for x in toks)
            braces["close"] = len(toks) if closes else None
            braces["line"] = node.lineno
            ob(st, f"inv{k}.preserve", "end_expansion", closes, node.lineno)
            ob(st, f"inv{k}.preserve", "end_leaves_block", inside2 is False, node.lineno)
        elif label == "only_for_listed":
            ob(st, f"inv{k}.preserve", "listed_line_active", ok and len(items) == 1 and items[0] is line, node.lineno)
            ob(st, f"inv{k}.preserve", "state_kept", same_value(inside2, g["inside"]), node.lineno)
        elif label == "only_for_other":
            good = ok and len(items) == 1 and isinstance(items[0], Concat) and items[0].parts[0] == "//" and items[0].parts[1] is line and len(items[0].parts) == 2
            ob(st, f"inv{k}.preserve", "unlisted_line_commented_out", good, node.lineno)
            ob(st, f"inv{k}.preserve", "state_kept", same_value(inside2, g["inside"]), node.lineno)
        else:
            ob(st, f"inv{k}.preserve", "plain_line_unchanged", ok and len(items) == 1 and items[0] is line, node.lineno, ("C15", "C16"))
            ob(st, f"inv{k}.preserve", "state_kept", same_value(inside2, g["inside"]), node.lineno, ("C15", "C16"))

    src_lines = AbsSeq("source_lines")
    src_lines.loop = LoopSpec(init0, head0, alts0, preserve0)
    source = AbsText(("source",))
    source.lines = src_lines

    # the second loop iterates over `lines` = the AbsList built by loop 0: give it the transducer loop spec
    loop1 = LoopSpec(init1, head1, alts1, preserve1)
    AbsList.iterate = lambda self, interp, st, s: loop1.run(interp, st, s, self)

    def bi_enumerate(st, f, args, kw, node):
        (x,) = args
        if isinstance(x, AbsList):
            return _EnumAbs(x, loop1)
        return Interp.bi_enumerate(it, st, f, args, kw, node)

    it.bi_enumerate = bi_enumerate

    def bi_str_join(st, f, args, kw, node):
        (x,) = args
        if isinstance(x, AbsList) and f.bound == "\n" and not x.items:
            return AbsText(("join", x.prefix))
        return Interp.bi_str_join(it, st, f, args, kw, node)

    it.bi_str_join = bi_str_join
    it.extern_names = {"os": _OsModule()}

    n = 0
    for st, out in it.exec_function(con, {"source": source, "specialize_for": T, "search_in_folders": PList([])}):
        n += 1
        if out is not None and out[0] == "raise":
            # allowed: ValueError for a vectorize_over inside an open block (reported by the preserve obligations as a
            # path that never reaches them); everything else must not raise
            if getattr(st, "last_shape", None) == "vectorize_over" or out[1] == "ValueError":
                # the raise happens inside the body of loop 1 for the vectorize shape with inside == True
                inside = st.ghost.get("__loop_ghost", {}).get("inside")
                ob(st, "raises", "error.only_if_block_open", inside if inside is not None else False, out[2])
            else:
                ob(st, "raises", f"{out[1]}.never", False, out[2], ("C15", "C16"))
            continue
        res = out[1] if out else None
        term = res.term if isinstance(res, AbsText) else None
        # expected: R(R(R(R(join N0, kern), fun), glmem), restrict)
        chain = []
        t = term
        while isinstance(t, tuple) and t and t[0] == "R":
            chain.append((t[2], t[3]))
            t = t[1]
        chain.reverse()
        ob(st, "post", "result_is_replace_chain_of_joined_lines", t == ("join", "N0"), None, ("C15", "C16"))
        ob(st, "post", "four_placeholders_in_order", [c[0] for c in chain] == list(QUAL_SPEC.keys()), None, ("C15", "C16"))
        for marker, repl in chain:
            want = QUAL_SPEC.get(marker, {}).get(T)
            if want is None:
                continue
            wants = want if isinstance(want, tuple) else (want,)
            ob(st, "post", f"qualifier{marker.strip('/*')}", repl.strip() in wants, None, ("C15", "C16"))
    if braces.get("open") is not None and braces.get("close") is not None:
        # the block is closed by exactly the braces its header opened (loop / guard body = the lines between the two markers)
        from pyvc.core import State as _State

        ob(_State(), "post", "braces_balanced", braces["open"] == braces["close"], braces.get("line"))
    it.n_paths = n
    return it.obligations, it


class _EnumAbs:
    def __init__(self, lst, loop):
        self.lst, self.loop = lst, loop

    def iterate(self, interp, st, s):
        # for ii, ll in enumerate(lines): the index is only used in an error message
        inner = self.loop

        class _Pair:
            pass

        def alts():
            for label, ctor in inner.alternatives():
                yield label, (lambda st_, ctor=ctor: (z3.Int("ii"), ctor(st_)))

        def preserve(interp_, st_, g, label, elem, k, node):
            inner.preserve(interp_, st_, g, label, elem[1], k, node)

        yield from LoopSpec(inner.init, inner.head, alts, preserve).run(interp, st, s, self.lst)


class _OsModule:
    def getattr(self, interp, st, attr, node):
        if attr == "name":
            yield st, _OsName()
            return
        raise Unsupported(f"os.{attr}")


class _OsName:
    def equal(self, other):
        return fresh_bool("os_is_" + str(other))


def vc_launch():
    """C16 launch arithmetic: the CUDA grid computed by KernelCupy.__call__ covers [0, n) (with the guard v < lim each
    index runs exactly once); the OpenCL global size is exactly n.  The expression is taken from the current source."""
    from pyvc.core import Obligation

    obs = []
    rel = "xobjects/context_cupy.py"
    fn = src.func_node(rel, "KernelCupy.__call__")
    grid_expr = None
    call = None
    for node in ast.walk(fn):
        if isinstance(node, ast.Assign) and len(node.targets) == 1 and isinstance(node.targets[0], ast.Name) and node.targets[0].id == "grid_size":
            grid_expr = node.value
        if isinstance(node, ast.Call) and isinstance(node.func, ast.Attribute) and node.func.attr == "function":
            call = node
    n, B = z3.Ints("n_threads block_size")
    pre = [n >= 0, B >= 1]

    def mk(name, goal, line, pc=pre):
        o = Obligation(f"{rel}:KernelCupy.__call__#post.{name}", pc, goal, "post", line)
        o.base = o.name
        o.properties = ["C16"]
        obs.append(o)

    if grid_expr is None or call is None:
        mk("grid_size_expression_found", z3.BoolVal(False), fn.lineno)
        return obs
    g = _eval_real(grid_expr, {"n_threads": n, "self.block_size": B})
    t, b, t2, b2, i = z3.Ints("t b t2 b2 i")
    # every index i in [0, n) is executed by block i div B, thread i mod B, and that block is launched
    mk("grid_covers_every_index", z3.Implies(z3.And(0 <= i, i < n), z3.And(i / B < g, i % B < B, (i / B) * B + i % B == i)), grid_expr.lineno)
    mk("each_index_once", z3.Implies(z3.And(0 <= t, t < B, 0 <= t2, t2 < B, 0 <= b, 0 <= b2, b * B + t == b2 * B + t2), z3.And(b == b2, t == t2)), grid_expr.lineno)
    mk("no_work_for_n_0", z3.Implies(n == 0, g == 0), grid_expr.lineno)
    mk("grid_minimal", z3.Implies(n > 0, (g - 1) * B < n), grid_expr.lineno)
    # launch geometry passed to the runtime: (grid_size,), (self.block_size,)
    a = call.args
    ok = (len(a) >= 2 and isinstance(a[0], ast.Tuple) and len(a[0].elts) == 1 and isinstance(a[0].elts[0], ast.Name) and a[0].elts[0].id == "grid_size"
          and isinstance(a[1], ast.Tuple) and len(a[1].elts) == 1 and ast.unparse(a[1].elts[0]) == "self.block_size")
    mk("launch_uses_grid_and_block", z3.BoolVal(ok), call.lineno)
    # opencl
    rel2 = "xobjects/context_pyopencl.py"
    fn2 = src.func_node(rel2, "KernelPyopencl.__call__")
    ok2 = False
    line2 = fn2.lineno
    for node in ast.walk(fn2):
        if isinstance(node, ast.Call) and isinstance(node.func, ast.Attribute) and node.func.attr == "function":
            a = node.args
            line2 = node.lineno
            ok2 = len(a) >= 3 and isinstance(a[1], ast.Tuple) and len(a[1].elts) == 1 and isinstance(a[1].elts[0], ast.Name) and a[1].elts[0].id == "n_threads" and isinstance(a[2], ast.Constant) and a[2].value is None
    o = Obligation(f"{rel2}:KernelPyopencl.__call__#post.global_size_is_n_threads", [], z3.BoolVal(ok2), "post", line2)
    o.base = o.name
    o.properties = ["C16"]
    obs.append(o)
    return obs


def _eval_real(node, env):
    """int(np.ceil(a / b)) and friends over z3 reals; true division of ints is exact rational division (assumes the
    float quotient is exact enough for ceil, i.e. n < 2^53 -- stated assumption)"""
    key = ast.unparse(node)
    if key in env:
        return env[key]
    if isinstance(node, ast.Constant) and isinstance(node.value, int):
        return z3.IntVal(node.value)
    if isinstance(node, ast.Call):
        f = ast.unparse(node.func)
        if f == "int" and len(node.args) == 1:
            v = _eval_real(node.args[0], env)
            return z3.ToInt(v) if v.is_real() else v  # value is >= 0 here: trunc == floor
        if f in ("np.ceil", "math.ceil") and len(node.args) == 1:
            v = _eval_real(node.args[0], env)
            if v.is_int():
                return v
            fl = z3.ToInt(v)
            return z3.ToReal(z3.If(z3.ToReal(fl) == v, fl, fl + 1))
    if isinstance(node, ast.BinOp):
        a, b = _eval_real(node.left, env), _eval_real(node.right, env)
        if isinstance(node.op, ast.Div):
            return z3.ToReal(a) / z3.ToReal(b) if a.is_int() or b.is_int() else a / b
        if isinstance(node.op, ast.FloorDiv):
            return a / b
        if isinstance(node.op, ast.Add):
            return a + b
        if isinstance(node.op, ast.Sub):
            return a - b
        if isinstance(node.op, ast.Mult):
            return a * b
    raise Unsupported(f"launch arithmetic: unsupported expression {key}")


def targets(prop):
    out = []
    for T in TARGETS:
        def g(T=T):
            obs, it = vc_specialize(T)
            g.interp = it
            return obs
        g = _bind(g, f"specialize_source[{T}]")
        out.append(("<gen>", g))
    if prop == "C16":
        def l():
            return vc_launch()
        l.__name__ = "launch_arithmetic"
        l.functions = [("xobjects/context_cupy.py", "KernelCupy.__call__"), ("xobjects/context_pyopencl.py", "KernelPyopencl.__call__")]
        out.append(("<gen>", l))
    return out


def _bind(g, name):
    def h():
        obs = g()
        h.interp = getattr(g, "interp", None)
        return obs
    h.__name__ = name
    h.functions = [(SPEC, "specialize_source")]
    return h


if __name__ == "__main__":
    import sys
    from pyvc import solve

    for rel, gen in targets("C16"):
        try:
            obs = gen()
        except PyvcError as e:
            print(gen.__name__, "UNSUPPORTED", e)
            continue
        solve.discharge_all(obs, solve.QUICK)
        for o in obs:
            if o.status != "discharged" or "-v" in sys.argv:
                print(f"  {o.status:10s} {o.properties} {o.name}")
        print(gen.__name__, sum(o.status == "discharged" for o in obs), "/", len(obs))
