"""Deductive part of C17 [P/ax cffi, numpy]: KernelCpu.to_function_arg / __call__ and KernelDispatcher.__call__.

Assumed contracts on dependencies (named axioms, validated by the bounded part):
  AX-ffi-cast        ffi.cast(ctype, x) is a C value of type `ctype` holding x; a call through cffi refuses a pointer of another type
  AX-ffi-from_buffer ffi.from_buffer(b) is the address of the first byte of buffer object b
  AX-np-first        a[0:1, ..., 0:1].data starts at the first element of a (any layout)
  AX-np-ctypes       np.frombuffer(storage, 'int8').ctypes.data is the address of byte 0 of `storage` *as it is now*
  AX-storage-slice   storage[k:] of a numpy buffer starts at byte k of that storage
Obligations: the pointer passed for a compound xobject is base(current storage) + value._offset typed as the declared class; for an
xobject array argument it is base + _offset + _data_offset typed `<scalar ctype>*`; for numpy arrays the first element typed after the
array's own dtype (so cffi's type check refuses a wrong element type); scalars become dtype.type(value); wrong kinds raise ValueError;
__call__ refuses a wrong number of arguments and missing names; the dispatcher refuses positional arguments.
"""
import z3

from pyvc.registry import reg
from pyvc.interp import Interp
from pyvc.core import SymObj, PList, PDict, ClassVal, Unsupported, PyvcError, fresh_int, fresh_name, FuncVal, State, HARNESS_ERRORS
from pyvc.tmpl import Atom

CPU = "xobjects/context_cpu.py"
CTX = "xobjects/context.py"
BASE = z3.Function("base_address", z3.IntSort(), z3.IntSort())  # address of byte 0 of a storage object (by identity)


def _contract(relpath, qualname):
    key = (relpath, qualname)
    sp = type("spec_" + qualname.replace(".", "_"), (), {"params": {}, "properties": ["C17"]})
    saved = reg.contracts.get(key)
    reg.contract(relpath, qualname)(sp)
    c = reg.contracts[key]
    c.inline = True
    if saved is not None:
        reg.contracts[key] = saved
    return c


class _M:
    def __init__(self, fn):
        self.fn = fn

    def call(self, interp, st, args, kwargs, node):
        yield st, self.fn(interp, st, args, kwargs, node)


class Storage:
    """buffer.buffer: a storage object with identity"""

    def __init__(self, sid):
        self.sid = sid

    def getslice(self, interp, st, lo, hi, node):
        if hi is not None:
            raise Unsupported("storage slice with upper bound")
        return ("bytes-from", self.sid, lo)


class FFI:
    def getattr(self, interp, st, attr, node):
        if attr == "cast":
            yield st, _M(lambda i, s, a, k, n: ("cast", a[0], a[1]))
        elif attr == "from_buffer":
            yield st, _M(lambda i, s, a, k, n: ("addr", a[0]))
        else:
            raise Unsupported(f"ffi.{attr}")


class NpArr:
    def __init__(self, dtname):
        self.dtname = dtname
        self.ndim = fresh_int("ndim")
        self.aid = fresh_int("array_id")

    def has_attr(self, attr):
        return attr in ("dtype", "ndim", "data", "shape")

    def getattr(self, interp, st, attr, node):
        if attr == "dtype":
            o = SymObj("dtype", {"name": self.dtname})
            o.closed = True
            yield st, o
        elif attr == "ndim":
            yield st, self.ndim
        else:
            raise Unsupported(f"ndarray.{attr}")

    def getitem(self, interp, st, i, node):
        if isinstance(i, tuple) and i and i[0] == "first-of-each-axis":
            return _First(self)
        raise Unsupported("ndarray index")


class _First:
    def __init__(self, arr):
        self.arr = arr

    def getattr(self, interp, st, attr, node):
        if attr == "data":
            yield st, ("first-element-of", self.arr.aid)
        else:
            raise Unsupported(f"ndarray view .{attr}")


def env():
    it = Interp(reg)
    it.obligations = []
    it.path_counter = {}
    it.overrides = {}
    it.class_home = {"KernelCpu": CPU, "NumpyScalar": "xobjects/scalar.py"}

    def bi_slice(st, f, args, kw, node):
        return ("slice",) + tuple(args)

    def bi_tuple(st, f, args, kw, node):
        (x,) = args
        if isinstance(x, tuple) and x and x[0] == "repeat":
            return ("first-of-each-axis", x[1])
        return Interp.bi_tuple(it, st, f, args, kw, node)
    it.bi_slice = bi_slice
    it.bi_tuple = bi_tuple
    orig_binop = it.binop

    def binop(st, op, a, b, node):
        import ast

        if isinstance(op, ast.Mult) and isinstance(b, PList) and len(b.items) == 1 and isinstance(b.items[0], tuple) and b.items[0][:1] == ("slice",):
            return ("repeat", b.items[0])  # ndim * [slice(0, 1)]
        return orig_binop(st, op, a, b, node)
    it.binop = binop

    def bi_np_frombuffer(st, f, args, kw, node):
        s = args[0]
        if not isinstance(s, Storage) or kw.get("dtype") != "int8":
            raise Unsupported("np.frombuffer arguments")
        o = SymObj("ndarray-int8", {"ctypes": SymObj("ctypes", {"data": BASE(s.sid)})})
        o.closed = True
        return o
    it.bi_np_frombuffer = bi_np_frombuffer
    from pyvc.core import BuiltinVal

    it.extern_names = {"slice": BuiltinVal("slice")}
    return it


def scalar_type(name, cname):
    dt = SymObj("np.dtype", {"name": name, "type": _M(lambda i, s, a, k, n: ("dtype.type", name, a[0]))})
    dt.closed = True
    T = SymObj("NumpyScalar", {"_dtype": dt, "_c_type": cname, "_size": fresh_int("isz"), "__name__": name})
    T.closed = True
    return T


def vc_to_function_arg():
    obs = []
    its = []
    con = _contract(CPU, "KernelCpu.to_function_arg")
    cpuctx = SymObj("ContextCpu", {"openmp_enabled": False, "omp_num_threads": 0})
    cpuctx.closed = True

    def run(label, arg, value, check):
        it = env()
        its.append(it)
        it.extern_names["ContextCpu"] = ClassVal("ContextCpu", CPU)
        # every attribute KernelCpu.__init__ / Kernel.__init__ / Arg.__init__ set (a rewritten body may read any of them)
        selfo = SymObj("KernelCpu", {"ffi_interface": FFI(), "description": SymObj("Kernel", {"pyname": "k", "c_name": "k", "args": PList([]), "ret": None, "n_threads": None}),
                                     "context": cpuctx, "source": None, "specialized_source": None})
        selfo.closed = True
        try:
            for st, out in it.exec_function(con, {"self": selfo, "arg": arg, "value": value}):
                ob = lambda c, g: it.oblige(st, "post", f"{c}[{label}]", g if not isinstance(g, bool) else z3.BoolVal(g))
                check(st, out, ob)
        except HARNESS_ERRORS as e:
            vc_to_function_arg.undecided.append((label, str(e)[:150]))
        return it.obligations

    def mkarg(T, pointer):
        a = SymObj("Arg", {"atype": T, "pointer": pointer, "name": "x", "const": False, "factory": None})
        a.closed = True
        return a

    def buffer_of(sid):
        b = SymObj("BufferNumpy", {"buffer": Storage(sid), "context": cpuctx})
        b.closed = True
        return b

    sid = fresh_int("storage_id")
    off, doff = fresh_int("offset"), fresh_int("data_offset")
    F64 = scalar_type("float64", "double")
    I32 = scalar_type("int32", "int32_t")
    # ---- compound xobject by value (struct / array / unionref): pointer to its first byte at its current location
    S = SymObj("MetaStruct", {"_c_type": Atom("S", role="type"), "_size": None, "__name__": "S"})
    S.closed = True
    S.absent = {"_dtype"}
    xo_ = SymObj("instance", {"__class__": S, "_buffer": buffer_of(sid), "_offset": off})
    xo_.closed = True

    def chk_compound(st, out, ob):
        ok = out is not None and out[0] == "return" and isinstance(out[1], tuple) and out[1][0] == "cast"
        ob("returns_cast", ok)
        if ok:
            ob("declared_class_type", out[1][1] is S.attrs["_c_type"])
            ob("pointer_is_current_base_plus_offset", out[1][2] == BASE(sid) + off)
    obs += run("compound_xobject", mkarg(S, False), xo_, chk_compound)

    # ---- scalar by value
    def chk_scalar(st, out, ob):
        ob("numpy_scalar_of_declared_type", out is not None and out[0] == "return" and out[1][:2] == ("dtype.type", "float64") and out[1][2] is val)
    val = SymObj("Value", {})
    val.closed = True
    val.absent = {"dtype", "_shape"}
    it0 = None
    obs += run("scalar_by_value", mkarg(F64, False), val, chk_scalar)

    # ---- pointer to scalar from a numpy array (element type taken from the array, so a mismatch is refused by cffi)
    for dtn, cn in (("float64", "double"), ("int32", "int32_t"), ("uint8", "uint8_t")):
        arr = NpArr(dtn)

        def chk_np(st, out, ob, arr=arr, cn=cn):
            ok = out is not None and out[0] == "return" and isinstance(out[1], tuple) and out[1][0] == "cast"
            if cn != "double" and out is not None and out[0] == "raise":
                # an array of another element type than the declared one (double): refusing it here is as good as handing cffi a
                # pointer typed after the array (which cffi refuses)
                ob("wrong_element_type_refused_or_typed_after_the_array", True)
                return
            ob("returns_cast", ok)
            if ok:
                ob("pointer_type_from_array_dtype", out[1][1] == cn + "*")
                ob("pointer_is_first_element", out[1][2] == ("addr", ("first-element-of", arr.aid)))
        obs += run(f"numpy_array:{dtn}", mkarg(F64, True), arr, chk_np)

    # ---- pointer to scalar from an xobject array
    item = I32
    AC = SymObj("MetaArray", {"_c_type": Atom("ArrNInt32", role="type"), "_itemtype": item, "_data_offset": doff, "__name__": "ArrNInt32"})
    AC.closed = True
    xa = SymObj("instance", {"__class__": AC, "_buffer": buffer_of(sid), "_offset": off, "_shape": (fresh_int("n"),)})
    xa.closed = True
    xa.absent = {"dtype"}

    def chk_xarr(st, out, ob):
        ok = out is not None and out[0] == "return" and isinstance(out[1], tuple) and out[1][0] == "cast"
        ob("returns_cast", ok)
        if ok:
            ob("pointer_type_is_scalar_pointer", out[1][1] == "int32_t*")
            a = out[1][2]
            ob("pointer_is_first_element", isinstance(a, tuple) and a[0] == "addr" and isinstance(a[1], tuple) and a[1][0] == "bytes-from" and z3.And(a[1][1] == sid, a[1][2] == off + doff))
    obs += run("xobject_array", mkarg(I32, True), xa, chk_xarr)

    # ---- refusals
    def chk_raises(st, out, ob):
        ob("raises_an_error", out is not None and out[0] == "raise")
    obs += run("pointer_to_compound_refused", mkarg(S, True), xo_, chk_raises)
    junk = SymObj("Junk", {})
    junk.closed = True
    junk.absent = {"_dtype", "_size"}
    obs += run("unknown_argument_kind_refused", mkarg(junk, False), val, chk_raises)
    vc_to_function_arg.interps = its
    return obs


def vc_call():
    """KernelCpu.__call__: wrong number of arguments -> AssertionError; missing name -> KeyError; arguments converted in declaration order.
    KernelDispatcher.__call__: positional arguments -> ValueError."""
    obs = []
    it = env()
    con = _contract(CPU, "KernelCpu.__call__")
    args = []
    for nm in ("a", "b"):
        a = SymObj("Arg", {"name": nm, "atype": None, "pointer": False, "const": False, "factory": None})
        a.closed = True
        args.append(a)
    desc = SymObj("Kernel", {"args": PList(args), "ret": None, "pyname": "k", "c_name": "k", "n_threads": None})
    desc.closed = True
    calls = []

    class Fn:
        def call(self, interp, st, a, k, n):
            st.recorded = getattr(st, "recorded", []) + [("call", tuple(a))]
            yield st, None
    # a serial context as ContextCpu.__init__ makes it (every attribute the constructor sets that a call may look at)
    ctx = SymObj("ContextCpu", {"openmp_enabled": False, "omp_num_threads": 0})
    ctx.closed = True
    selfo = SymObj("KernelCpu", {"function": Fn(), "description": desc, "context": ctx, "source": None, "specialized_source": None, "ffi_interface": None,
                                 "to_function_arg": _M(lambda i, s, a, k, n: ("converted", a[0].attrs["name"], a[1]))})
    selfo.closed = True
    it.class_home["KernelCpu"] = CPU

    def ov_num_args(i, st, f, a, k, n):
        yield st, 2
    for label, kw in (("exact", {"a": 1, "b": 2}), ("missing", {"a": 1}), ("extra", {"a": 1, "b": 2, "c": 3}), ("wrong_name", {"a": 1, "z": 2})):
        it2 = env()
        it2.class_home["KernelCpu"] = CPU
        try:
            for st, out in it2.exec_function(con, {"self": selfo, "kwargs": PDict(dict(kw))}):
                ob = lambda c, g: it2.oblige(st, "post", f"{c}[{label}]", z3.BoolVal(bool(g)))
                if label == "exact":
                    rec = getattr(st, "recorded", [])
                    ob("calls_function_with_arguments_in_declared_order", (out is None or out[0] == "return") and len(rec) == 1 and rec[0][1] == (("converted", "a", 1), ("converted", "b", 2)))
                else:
                    ob("refused", out is not None and out[0] == "raise")
                    ob("function_not_called", not getattr(st, "recorded", []))
        except HARNESS_ERRORS as e:
            if label == "wrong_name" and "missing dict key" in str(e) and it2.obligations and "safe.KeyError" in it2.obligations[-1].name:
                # kwargs[arg.name] with an absent name: python raises KeyError before the function is called -- a refusal
                last = it2.obligations.pop()
                o = it2.oblige(State(), "post", f"refused_by_KeyError[{label}]", z3.BoolVal(True), last.line)
            else:
                vc_call.undecided.append((label, str(e)[:150]))
        obs += it2.obligations
    # dispatcher
    it3 = env()
    con3 = _contract(CTX, "KernelDispatcher.__call__")
    disp = SymObj("KernelDispatcher", {"_kernels": PDict({"k": _M(lambda i, s, a, k, n: ("called", dict(k)))}), "_name": "k"})
    disp.closed = True
    for label, pos in (("positional", (1,)), ("keywords_only", ())):
        try:
            for st, out in it3.exec_function(con3, {"self": disp, "args": pos, "kwargs": PDict({"a": 1})}):
                if label == "positional":
                    it3.oblige(st, "post", f"positional_arguments_refused[{label}]", z3.BoolVal(out is not None and out[0] == "raise"))
                else:
                    it3.oblige(st, "post", f"forwards_keywords[{label}]", z3.BoolVal(out is not None and out[0] == "return"))
        except HARNESS_ERRORS as e:
            vc_call.undecided.append((label, str(e)[:150]))
    obs += it3.obligations
    vc_call.interps = [it, it3]
    return obs


def vc_argument_c_types():
    """The element-type check of a kernel call is cffi comparing pointer types (AX-ffi-cast), so it is only as good as the C types the
    library declares and casts to.  Under contract:
      Arg.get_c_type      for every scalar type declared in scalar.py (table read from the current source): a by-value argument is declared with the type's
                          own `_c_type`, a pointer argument with a pointer type, and two different scalar types are never declared with
                          the same pointer type;
      dtype_dict          (module table of context_cpu.py, read from the current source; dtype2ctype returns its entries): distinct dtypes
                          map to distinct C types, no complex / other dtype shares the C type of a real one, and the entry of every dtype
                          that a scalar type of scalar.py has equals that type's `_c_type` -- so a numpy array and an xobject array of the
                          same element type are cast to the same pointer type, and arrays of different element types never are."""
    import ast
    from pyvc import source as src

    obs = []
    it = env()
    vc_argument_c_types.interps = [it]
    sc = src.module("xobjects/scalar.py")
    table = {}
    for name, node in sc.assigns.items():
        if isinstance(node, ast.Call) and getattr(node.func, "id", None) == "NumpyScalar" and len(node.args) == 2 and all(isinstance(a, ast.Constant) for a in node.args):
            table[name] = (node.args[0].value, node.args[1].value)
    it.contract = _contract(CTX, "Arg.get_c_type")
    ob0 = lambda c, g: it.oblige(State(), "post", c, z3.BoolVal(bool(g)))
    ob0("scalar_table_found_in_source", len(table) >= 10)
    results = {}
    try:
        for name, (dname, cname) in sorted(table.items()):
            for pointer in (False, True):
                at = SymObj("NumpyScalar", {"_c_type": cname, "__name__": name})
                at.closed = True
                arg = SymObj("Arg", {"atype": at, "pointer": pointer, "name": "p", "const": False, "factory": None})
                arg.closed = True
                for st, out in it.exec_function(it.contract, {"self": arg}):
                    r = out[1] if out is not None and out[0] == "return" else None
                    it.oblige(st, "post", f"declared_type_is_the_c_type{'_pointer' if pointer else ''}[{name}]", z3.BoolVal(isinstance(r, str) and (r.rstrip().endswith("*") if pointer else r == cname)))
                    results[(name, pointer)] = r
        names = sorted(table)
        for i, a in enumerate(names):
            for b in names[i + 1:]:
                ra, rb = results.get((a, True)), results.get((b, True))
                ob0(f"different_scalar_types_have_different_pointer_types[{a},{b}]", isinstance(ra, str) and isinstance(rb, str) and ra != rb)
    except HARNESS_ERRORS as e:
        vc_argument_c_types.undecided.append(("Arg.get_c_type", f"{type(e).__name__}: {e}"[:160]))
    cpu = src.module(CPU)
    node = cpu.assigns.get("dtype_dict")
    try:
        dd = ast.literal_eval(node) if node is not None else None
    except Exception:  # noqa
        dd = None
    it.contract = _contract(CPU, "dtype2ctype")
    if not isinstance(dd, dict):
        vc_argument_c_types.undecided.append(("dtype_dict", "not a literal table any more"))
    else:
        keys = sorted(dd)
        for i, a in enumerate(keys):
            for b in keys[i + 1:]:
                ob0(f"dtype_dict.distinct_dtypes_have_distinct_c_types[{a},{b}]", dd[a] != dd[b])
        for name, (dname, cname) in sorted(table.items()):
            if dname in dd:
                ob0(f"dtype_dict.agrees_with_the_scalar_type[{name}]", dd[dname] == cname)
        by_c = {c for (d, c) in table.values()}
        for k in keys:
            if k not in {d for (d, c) in table.values()}:
                ob0(f"dtype_dict.other_dtypes_do_not_share_a_scalar_c_type[{k}]", dd[k] not in by_c)
    obs += it.obligations
    return obs


GROUPS = {}


def _group(name, fn, functions):
    def g():
        fn.undecided = []
        obs = fn()
        g.undecided = list(fn.undecided)
        its = getattr(fn, "interps", [])

        class _I:
            n_paths = len(obs)
            stats = {"inlined": set().union(*[i.stats["inlined"] for i in its]) if its else set()}
        g.interp = _I
        for o in obs:
            o.properties = ["C17"]
        return obs
    g.__name__ = name
    g.functions = functions
    GROUPS[name] = (g, ["C17"])


_group("to_function_arg", vc_to_function_arg, [(CPU, "KernelCpu.to_function_arg"), (CPU, "dtype2ctype")])
_group("kernel_call", vc_call, [(CPU, "KernelCpu.__call__"), (CTX, "KernelDispatcher.__call__")])
_group("argument_c_types", vc_argument_c_types, [(CTX, "Arg.get_c_type"), (CPU, "dtype2ctype")])


def targets():
    return [("<gen>", g) for g, _ in GROUPS.values()]


from . import kernels2_vc  # noqa: E402,F401  (registers the group kernel_declaration: cdef_from_kernel)
