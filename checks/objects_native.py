"""Bounded native part shared by C01, C03, C05, C06, C08, C09, C10, C11 (never counted as proved): run-time contracts on
real objects of the grammar slice, placed in buffers with a prior allocation history, surrounded by poison bytes.

Each check function returns a list of problems {case_key, property, ...}; `run(prop, tier, seed)` filters by property.
The oracle for bytes is checks/layoutdec.py (a decoder written from the documented layout only).
"""
import itertools
import random

import numpy as np

from . import grammar
from .layoutdec import Decoder, LayoutError, check_parts, slot

POISON = 0xA5


# ------------------------------------------------------------------------------------------------ plain values
def plain(X, v):
    """value of a library object as seen through its public accessors (fields, items, references)"""
    if v is None or isinstance(v, (str, int, float)):
        return v
    if isinstance(v, np.generic):
        return v
    if isinstance(v, X.Struct):
        out = {}
        for f in type(v)._fields:
            x = getattr(v, f.name)
            if X.ref.is_unionref(f.ftype) and not isinstance(x, X.UnionRef):
                out[f.name] = None if x is None else (type(x).__name__, plain(X, x))
            else:
                out[f.name] = plain(X, x)
        return out
    if isinstance(v, X.array.Array):
        shape = tuple(v._shape)
        out = np.empty(shape, dtype=object)
        for idx in np.ndindex(*shape):
            out[idx] = plain(X, v[idx if len(shape) > 1 else idx[0]])
        return out.tolist()
    if isinstance(v, X.UnionRef):
        m = v.get()
        return None if m is None else (type(m).__name__, plain(X, m))
    if isinstance(v, X.String):
        return v.to_str()
    raise TypeError(f"plain: {type(v)}")


def norm(X, T, val):
    """the abstract value a constructor argument denotes"""
    if X.scalar.is_scalar(T):
        return T._dtype.type(val)
    if T is X.String:
        return "" if isinstance(val, int) else val
    if X.struct.is_struct(T):
        return {f.name: norm(X, f.ftype, val[f.name]) for f in T._fields}
    if X.array.is_array(T):
        a = np.asarray(val, dtype=object) if not hasattr(val, "shape") else val
        if len(T._shape) == 1:
            return [norm(X, T._itemtype, x) for x in val]
        out = np.empty(np.shape(a)[:len(T._shape)], dtype=object)
        for idx in np.ndindex(*out.shape):
            out[idx] = norm(X, T._itemtype, _at(val, idx))
        return out.tolist()
    if X.ref.is_ref(T):
        return None if val is None else norm(X, T._reftype, val)
    if X.ref.is_unionref(T):
        if val is None:
            return None
        name, data = val
        M = [m for m in T._reftypes if m.__name__ == name][0]
        return (name, norm(X, M, data))
    raise TypeError(T)


def _at(val, idx):
    for i in idx:
        val = val[i]
    return val


def eq(a, b):
    if isinstance(a, dict) and isinstance(b, dict):
        return a.keys() == b.keys() and all(eq(a[k], b[k]) for k in a)
    if isinstance(a, (list, tuple)) and isinstance(b, (list, tuple)):
        return len(a) == len(b) and all(eq(x, y) for x, y in zip(a, b))
    if isinstance(a, (np.generic, float, int)) and isinstance(b, (np.generic, float, int)) and not isinstance(a, bool):
        if isinstance(a, np.generic) and isinstance(b, np.generic) and a.dtype != b.dtype:
            return False
        return bool(a == b) or (a != a and b != b)
    return type(a) == type(b) and a == b


# ------------------------------------------------------------------------------------------------ placement
def make_buffer(X, rnd, kind=None):
    """a buffer with an allocation history: several live neighbours, a freed hole, poison everywhere"""
    cap = rnd.choice([0, 8, 64, 256, 2048])
    al = rnd.choice([1, 1, 8, 16, 64])
    cls = X.context_cpu.BufferNumpy if (kind or rnd.choice("nb")) == "n" else X.context_cpu.BufferByteArray
    b = cls(capacity=cap, default_alignment=al, context=X.ContextCpu())
    live = []
    for _ in range(rnd.randrange(0, 4)):
        n = rnd.choice([1, 8, 13, 40])
        o = b.allocate(n, rnd.random() < 0.5)
        live.append((o, n))
    if live and rnd.random() < 0.6:
        o, n = live.pop(rnd.randrange(len(live)))
        b.free(o, n)
    poison(b)
    return b, live


def poison(b):
    for x in range(b.capacity):
        b.buffer[x] = POISON if isinstance(b.buffer, bytearray) else np.int8(POISON - 256)


def image(b):
    return bytes(bytearray(b.buffer)) if isinstance(b.buffer, bytearray) else b.buffer.view("uint8").tobytes()


def free_set(b):
    s = set()
    for c in b.chunks:
        s.update(range(c.start, c.end))
    return s


def construct(cls, val, buf, how, rnd):
    kw = {"_buffer": buf}
    if how == "explicit":
        # the caller owns the region: allocate it ourselves and pass the offset
        X = grammar.xo()
        size = cls._inspect_args(val).size if not isinstance(val, dict) else cls._inspect_args(**val).size
        kw["_offset"] = buf.allocate(size)
    elif how in ("aligned", "packed"):
        kw["_offset"] = how
    if isinstance(val, dict):
        return cls(**val, **kw)
    return cls(val, **kw)


# ------------------------------------------------------------------------------------------------ checks
class Problems(list):
    def add(self, prop, key, **kw):
        if len(self) < 400:
            self.append({"property": prop, "case_key": key, **kw})


def type_key(X, cls):
    """coarse shape of a type, for case keys of findings"""
    if X.array.is_array(cls):
        dyn = "dynitems" if cls._itemtype._size is None else "staticitems"
        order = "C" if list(_order(cls)) == list(range(len(cls._shape))) else "nonC"
        return f"array{len(cls._shape)}d:{dyn}:{order}"
    if X.struct.is_struct(cls):
        return "struct:" + ("dynamic" if cls._size is None else "static")
    return getattr(cls, "__name__", str(cls))


def _order(cls):
    o = cls._order
    r = len(cls._shape)
    return list(range(r)) if o == "C" else list(range(r - 1, -1, -1)) if o == "F" else list(o)


def check_construct(X, cls, val, rnd, P, forms=("data",)):
    tk = type_key(X, cls)
    want = norm(X, cls, val)
    for form in forms:
        for how in ("default", "explicit", "aligned", "packed"):
            buf, live = make_buffer(X, rnd)
            before = image(buf)
            free0 = free_set(buf)
            cap0 = buf.capacity
            arg = val
            if form == "ndarray":
                arg = np.array(val, dtype=cls._itemtype._dtype)
                if len(cls._shape) > 1 and rnd.random() < 0.5:
                    arg = np.asfortranarray(arg)
            elif form == "xobject":
                arg = construct(cls, val, X.ContextCpu().new_buffer(8), "default", rnd)
            try:
                obj = construct(cls, arg, buf, how, rnd)
            except Exception as e:  # noqa
                P.add("C01", f"construct:{tk}:{form}:raised:{type(e).__name__}", cls=cls.__name__, value=repr(val)[:200], placement=how, problem=f"{type(e).__name__}: {e}")
                continue
            off = obj._offset
            size = obj._get_size() if hasattr(obj, "_get_size") else obj._size
            after = image(buf)
            ctx = dict(cls=cls.__name__, value=repr(val)[:200], placement=how, form=form, offset=off, size=int(size), alignment=buf.default_alignment)
            # C01 read back through the accessors
            try:
                got = plain(X, obj)
                if not eq(got, want):
                    P.add("C01", f"readback:{tk}:{form}", got=repr(got)[:200], **ctx)
            except Exception as e:  # noqa
                P.add("C01", f"readback:{tk}:{form}:raised:{type(e).__name__}", problem=str(e)[:200], **ctx)
            # C05 documented layout
            dec = Decoder(X, after)
            try:
                dv, dsize = dec.decode(cls, off)
                if not eq(dv, want):
                    P.add("C05", f"decode-value:{tk}:{form}", decoded=repr(dv)[:200], **ctx)
                if dsize != size:
                    P.add("C05", f"decode-size:{tk}", decoded_size=dsize, **ctx)
                if off % 8 == 0 and False:
                    pass
                # C03 structure: parts inside parents, siblings disjoint, reported size == extent
                for pr in check_parts(dec.parts, (off, off + dsize)):
                    P.add("C03", f"parts:{tk}", problem=pr, **ctx)
            except LayoutError as e:
                P.add("C05", f"layout:{tk}:{form}:{str(e).split(':')[0][:40]}", problem=str(e), **ctx)
            # C03 frame: bytes changed only inside the object or in regions allocated during construction
            free1 = free_set(buf)
            allowed = set(range(off, off + int(size))) | {x for x in free0 if x not in free1}
            changed = [x for x in range(min(len(before), len(after))) if before[x] != after[x]]
            outside = [x for x in changed if x not in allowed]
            if outside:
                P.add("C03", f"frame:construct:{tk}:{form}", bytes_changed_outside=outside[:8], **ctx)
            if off < 0 or off + size > buf.capacity:
                P.add("C03", f"extent:{tk}", **ctx)
            for (o2, n2) in live:
                if off < o2 + n2 and o2 < off + size:
                    P.add("C03", f"overlap-live:{tk}", neighbour=(o2, n2), **ctx)
            # C06 a view rebuilt from (buffer, offset)
            try:
                view = cls._from_buffer(buf, off)
                pv = plain(X, view)
                if not eq(pv, plain(X, obj)):
                    P.add("C06", f"view-value:{tk}", got=repr(pv)[:200], **ctx)
                for attr in ("_shape", "_strides", "_size"):
                    if hasattr(obj, attr) and (not hasattr(view, attr) or _tl(getattr(view, attr)) != _tl(getattr(obj, attr))):
                        P.add("C06", f"view-attr:{attr}:{tk}", handle=repr(getattr(obj, attr)), view=repr(getattr(view, attr, None)), **ctx)
            except Exception as e:  # noqa
                P.add("C06", f"view:{tk}:raised:{type(e).__name__}", problem=str(e)[:200], **ctx)
                view = None
            P.evals += 1
            yield obj, view, buf, want, ctx


def _tl(v):
    try:
        return [int(x) for x in v]
    except TypeError:
        return int(v)


def leaves(X, root, T, path=()):
    """(getter, setter, leaf type, path) for every scalar/string leaf reachable through fields and items"""
    if X.struct.is_struct(T):
        for f in T._fields:
            yield from _leaf_of(X, root, f.ftype, path + (("f", f.name),))
    elif X.array.is_array(T):
        h = follow(X, root, path)
        shape = tuple(h._shape)
        for idx in itertools.islice(np.ndindex(*shape), 6):
            yield from _leaf_of(X, root, T._itemtype, path + (("i", idx if len(shape) > 1 else idx[0]),))


def _leaf_of(X, root, FT, path):
    if X.scalar.is_scalar(FT) or FT is X.String:
        yield path, FT
    elif X.struct.is_struct(FT) or X.array.is_array(FT):
        yield from leaves(X, root, FT, path)


def follow(X, root, path):
    cur = root
    for k, a in path:
        cur = getattr(cur, a) if k == "f" else cur[a]
    return cur


def assign(X, root, path, value):
    cur = follow(X, root, path[:-1])
    k, a = path[-1]
    if k == "f":
        setattr(cur, a, value)
    else:
        cur[a] = value


def replaced(want, path, value):
    import copy

    w = copy.deepcopy(want)
    cur = w
    for k, a in path[:-1]:
        cur = cur[a] if k == "f" or isinstance(a, int) else _at(cur, a)
    k, a = path[-1]
    if k == "f" or isinstance(a, int):
        cur[a] = value
    else:
        _at(cur, a[:-1])[a[-1]] = value
    return w


def check_setters(X, cls, obj, view, buf, want, ctx, rnd, P):
    tk = type_key(X, cls)
    handles = [("handle", obj)] + ([("view", view)] if view is not None else [])
    for path, FT in list(leaves(X, obj, cls))[:8]:
        hn, h = rnd.choice(handles)
        if FT is X.String:
            old = follow(X, obj, path)
            cap = slot(len(old.encode()) + 9) - 9  # bytes available for the new text (fits the reserved space)
            newv = ("z" * cap)[:cap] if rnd.random() < 0.5 else old[: max(0, len(old) - 1)]
            newp = newv
        else:
            newv = grammar.scalar_value(FT, rnd)
            newp = FT._dtype.type(newv)
        before = image(buf)
        lk = "string" if FT is X.String else "scalar"
        try:
            assign(X, h, path, newv)
        except Exception as e:  # noqa
            P.add("C10", f"set:{tk}:{lk}:raised:{type(e).__name__}", path=repr(path), through=hn, problem=str(e)[:200], **ctx)
            continue
        P.evals += 1
        want = replaced(want, path, newp)
        after = image(buf)
        off, size = ctx["offset"], ctx["size"]
        outside = [x for x in range(len(before)) if before[x] != after[x] and not (off <= x < off + size)]
        if outside:
            P.add("C03", f"frame:set:{tk}:{lk}", path=repr(path), bytes_changed_outside=outside[:8], **ctx)
        for other_name, other in handles:
            try:
                got = plain(X, other)
            except Exception as e:  # noqa
                got = f"raised {type(e).__name__}"
            if not eq(got, want):
                P.add("C10" if other is h else "C06", f"set-readback:{tk}:{lk}:{'same' if other is h else 'other'}-handle", path=repr(path), through=hn, seen_through=other_name,
                      got=repr(got)[:200], expected=repr(want)[:200], **ctx)
                break
        try:
            dv, dsize = Decoder(X, after).decode(cls, off)
            if not eq(dv, want) or dsize != size:
                P.add("C10", f"set-decode:{tk}:{lk}", path=repr(path), decoded=repr(dv)[:200], **ctx)
        except LayoutError as e:
            P.add("C10", f"set-layout:{tk}:{lk}", path=repr(path), problem=str(e), **ctx)
    return want


def check_setters_across_growth(X, cls, obj, buf, want, ctx, rnd, P):
    """C10: "... after any sequence of such assignments interleaved with allocations that grow the buffer": the SAME handles (the
    root handle and nested views obtained before) are written through, the buffer is grown (storage replaced), and they are written
    through again; everything is then re-read through a fresh view."""
    tk = type_key(X, cls)
    kept = []  # (path of the array, kept handle)
    if X.array.is_array(cls) and X.scalar.is_scalar(cls._itemtype):
        kept.append(((), obj))
    elif X.struct.is_struct(cls):
        for f in cls._fields:
            if X.array.is_array(f.ftype) and X.scalar.is_scalar(f.ftype._itemtype):
                kept.append(((("f", f.name),), getattr(obj, f.name)))
    kept = [(p, h) for p, h in kept if int(np.prod(h._shape)) > 0][:3]
    if not kept:
        return want

    def write(h, path, round_):
        nonlocal want
        idx = tuple(int(rnd.randrange(s)) for s in h._shape)
        key = idx if len(idx) > 1 else idx[0]
        FT = type(h)._itemtype
        nv = grammar.scalar_value(FT, rnd)
        h[key] = nv
        want = replaced(want, path + (("i", key),), FT._dtype.type(nv))
        P.evals += 1

    try:
        for path, h in kept:
            write(h, path, 0)
        cap0 = buf.capacity
        buf.allocate(buf.capacity + 32)  # forces growth: the storage object is replaced, offsets stay
        if buf.capacity <= cap0:
            return want
        for path, h in kept:
            write(h, path, 1)
        fresh = cls._from_buffer(obj._buffer, obj._offset)
        got = plain(X, fresh)
        if not eq(got, want):
            P.add("C10", f"set-after-growth:{tk}", got=repr(got)[:200], expected=repr(want)[:200], **ctx)
    except Exception as e:  # noqa
        if "xobjects" in "".join(__import__("traceback").format_exc()):
            P.add("C10", f"set-after-growth:{tk}:raised:{type(e).__name__}", problem=str(e)[:200], **ctx)
        else:
            raise
    return want


def check_whole_assign(X, cls, obj, view, buf, want, ctx, rnd, P):
    """C10/C06: assign a whole nested array of equal size (possibly another shape) through one alias after the other alias has
    already looked at the field; both must then show the new value"""
    if not X.struct.is_struct(cls) or view is None:
        return want
    tk = type_key(X, cls)
    for f in cls._fields:
        FT = f.ftype
        if not (X.array.is_array(FT) and X.scalar.is_scalar(FT._itemtype)):
            continue
        cur = np.array(want[f.name], dtype=FT._itemtype._dtype)
        if cur.size == 0:
            continue
        dyn = [d is None for d in FT._shape]
        if len(FT._shape) >= 2 and all(dyn) and cur.shape[0] != cur.shape[-1]:
            newv = (np.arange(cur.size).reshape(cur.shape[::-1]) % 100).astype(cur.dtype)  # same size, transposed shape
            kind = "reshaped"
        else:
            newv = ((cur.astype("int64") + 1) % 100).astype(cur.dtype)
            kind = "same-shape"
        first, second = (obj, view) if rnd.random() < 0.5 else (view, obj)
        given = newv
        if cur.dtype.itemsize > 1 and rnd.random() < 0.5:
            given = newv.astype(newv.dtype.newbyteorder())  # same values, foreign byte order
            kind += ":byteswapped-source"
        try:
            plain(X, getattr(first, f.name))  # the first alias looks at the field
            setattr(second, f.name, given)
        except Exception as e:  # noqa
            P.add("C10", f"whole-assign:{len(FT._shape)}d:{kind}:raised:{type(e).__name__}", field=f.name, problem=str(e)[:200], **ctx)
            continue
        P.evals += 1
        want = dict(want)
        want[f.name] = norm(X, FT, newv.tolist())
        for nm, h in (("writer", second), ("other-alias", first)):
            try:
                got = plain(X, h)
            except Exception as e:  # noqa
                got = f"raised {type(e).__name__}"
            if not eq(got, want):
                P.add("C10" if nm == "writer" else "C06", f"whole-assign:{len(FT._shape)}d:{kind}:{nm}", field=f.name, got=repr(got)[:200], expected=repr(want)[:200], **ctx)
                break
        try:
            dv, _ = Decoder(X, image(buf)).decode(cls, ctx["offset"])
            if not eq(dv, want):
                P.add("C10", f"whole-assign-decode:{len(FT._shape)}d:{kind}", field=f.name, decoded=repr(dv)[:200], **ctx)
        except LayoutError as e:
            P.add("C10", f"whole-assign-layout:{len(FT._shape)}d:{kind}", field=f.name, problem=str(e), **ctx)
    return want


def check_misuse(X, cls, obj, buf, want, ctx, rnd, P):
    """C11: operations that cannot be honoured raise and change nothing"""
    tk = type_key(X, cls)

    def expect_error(key, fn, values_only=False, **kw):
        before = image(buf)
        try:
            fn()
            raised = None
        except Exception as e:  # noqa
            raised = e
        P.evals += 1
        after = image(buf)
        if raised is None:
            P.add("C11", f"accepted:{key}", **kw, **ctx)
        if values_only:
            # a refused *construction* may have taken (and written into) fresh space of the buffer: what the statement protects is the
            # value of every existing object
            try:
                now = plain(X, obj)
            except Exception as e:  # noqa
                now = f"raised {type(e).__name__}"
            if not eq(now, want):
                P.add("C11", f"side-effect:{key}", raised=repr(raised)[:100], **kw, **ctx)
        elif before != after[:len(before)]:
            P.add("C11", f"side-effect:{key}", raised=repr(raised)[:100], **kw, **ctx)

    if X.array.is_array(cls):
        shape = tuple(obj._shape)
        r = len(shape)
        dyn = "dyn" if cls._itemtype._size is None else "static"
        for ax in range(r):
            idx = [0] * r
            idx[ax] = shape[ax]
            t = tuple(idx) if r > 1 else idx[0]
            if all(s > 0 for s in shape) or True:
                expect_error(f"index-too-large:{dyn}items:{r}d", lambda t=t: obj[t], index=t)
            idx[ax] = -1
            t = tuple(idx) if r > 1 else idx[0]
            expect_error(f"index-negative:{dyn}items:{r}d", lambda t=t: obj[t], index=t)
        if r > 1 and all(s > 0 for s in shape) and int(np.prod(shape)) > shape[0]:
            # a bare integer at or beyond the extent of the first axis (but below the item count) is outside the shape
            i_ = shape[0]
            expect_error(f"index-integer-beyond-first-axis:{dyn}items:{r}d", lambda: obj[i_], index=i_)
            if X.scalar.is_scalar(cls._itemtype):
                expect_error(f"set-integer-beyond-first-axis:{r}d", lambda: obj.__setitem__(i_, 1), index=i_)
        if r > 1 and all(s > 0 for s in shape):
            expect_error(f"index-rank-too-small:{dyn}items:{r}d", lambda: obj[(0,) * (r - 1)], index=(0,) * (r - 1))
            expect_error(f"index-rank-too-large:{dyn}items:{r}d", lambda: obj[(0,) * (r + 1)], index=(0,) * (r + 1))
        if X.scalar.is_scalar(cls._itemtype) and all(s > 0 for s in shape):
            # an array value of higher rank whose leading extents agree with the array's shape: more items than the array has room for
            hi = np.zeros(shape + (3,), dtype=cls._itemtype._dtype)
            expect_error(f"update-ndarray-of-higher-rank:{r}d", lambda: obj._update(hi), value_shape=hi.shape)
            expect_error(f"construct-from-ndarray-of-higher-rank:{r}d", lambda: cls(hi, _buffer=buf), values_only=True, value_shape=hi.shape)
        if r == 1:
            item = want[0] if len(want) else None
            longer = list(want) + [want[0]] if len(want) else None
            if longer is not None and not isinstance(item, (dict, list, tuple)):
                expect_error(f"update-longer:{dyn}items", lambda: obj._update(longer))
            if len(want) > 1 and not isinstance(item, (dict, list, tuple)):
                expect_error(f"update-shorter:{dyn}items", lambda: obj._update(list(want)[:-1]))
                if cls._shape[0] is None:
                    # a same-class array object of another length, preferably one with the same slot-rounded byte size
                    cands = [m for m in range(1, 10) if m != len(want)]
                    same = [m for m in cands if cls._inspect_args((list(want) * 10)[:m]).size == obj._size]
                    m = (same or [len(want) - 1])[0]
                    other = cls((list(want) * 10)[:m], _buffer=buf)
                    expect_error(f"update-from-array-of-other-length:{dyn}items", lambda: obj._update(other), other_length=m)
    if X.struct.is_struct(cls):
        for f in cls._fields:
            if f.ftype is X.String:
                old = want[f.name]
                big = old + "y" * (slot(len(old.encode()) + 9) - 9 - len(old.encode()) + 1)
                expect_error("string-too-large:struct-field", lambda f=f, big=big: setattr(obj, f.name, big), field=f.name, new_value=big)
            if X.struct.is_struct(f.ftype) and f.ftype._size is None:
                # a same-class value that needs more room than the nested struct has
                big = _grow(X, f.ftype, want[f.name])
                if big is not None:
                    try:
                        bigobj = f.ftype(**big)
                        if bigobj._size > getattr(obj, f.name)._size:
                            expect_error("nested-struct-too-large", lambda f=f, bigobj=bigobj: setattr(obj, f.name, bigobj), field=f.name)
                    except Exception:  # noqa
                        pass
            if X.ref.is_unionref(f.ftype):
                other = grammar.mkstruct(grammar.uniq("NotAMember"), {"q": X.Int64})
                expect_error("union-non-member", lambda f=f: setattr(obj, f.name, other(q=1)), field=f.name)
    # wrong owner / offset without buffer
    other_ctx = X.ContextCpu()
    v = _as_arg(want)
    expect_error("context-mismatch", lambda: cls(**v, _buffer=buf, _context=other_ctx) if isinstance(v, dict) else cls(v, _buffer=buf, _context=other_ctx))
    expect_error("offset-without-buffer", lambda: cls(**v, _offset=8) if isinstance(v, dict) else cls(v, _offset=8))


def _as_arg(want):
    return want


def _grow(X, T, val):
    """a value of struct type T like val with one dynamic array field made longer"""
    out = dict(val)
    grown = False
    for f in T._fields:
        if not grown and X.array.is_array(f.ftype) and len(f.ftype._shape) == 1 and f.ftype._shape[0] is None and X.scalar.is_scalar(f.ftype._itemtype):
            out[f.name] = list(val[f.name]) + [val[f.name][0] if len(val[f.name]) else 1] * 9
            grown = True
        elif X.scalar.is_scalar(f.ftype) and f.ftype._dtype.kind in "iu":
            out[f.name] = (int(val[f.name]) + 1) % 100  # a visible change in a field that does fit
    return out if grown else None


def check_null_ref_with_default(X, rnd, P):
    """a reference field that declares a non-null default, holding null: what was given (None) is what is read back (C01), and a
    copy -- same buffer, other buffer, other context -- has a null reference too (C09: equal in value)"""
    class NR(X.Struct):
        k = X.Int64
        r = X.Field(X.Ref[X.Float64[:]], default=[1.0, 2.0, 3.0])
        s = X.Int8

    for where in ("same-buffer", "other-buffer", "other-context"):
        buf, _ = make_buffer(X, rnd, "n")
        try:
            src = NR(k=7, r=None, s=1, _buffer=buf)
            P.evals += 1
            if src.r is not None:
                P.add("C01", "readback:null-reference-with-declared-default", got=repr(plain(X, src.r))[:80])
                src.r = None  # (null it by assignment instead, for the copy below)
                if src.r is not None:
                    continue
            dbuf = buf if where == "same-buffer" else (buf.context.new_buffer(16) if where == "other-buffer" else X.ContextCpu().new_buffer(16))
            cp = NR(src, _buffer=dbuf)
            if cp.r is not None or cp.k != 7 or cp.s != 1:
                P.add("C09", f"copy:null-reference-with-declared-default:{where}", got=repr((int(cp.k), None if cp.r is None else plain(X, cp.r)))[:120])
            dflt = NR(k=1, s=2, _buffer=buf)  # an absent field does take the declared default
            if dflt.r is None or not eq(plain(X, dflt.r), [1.0, 2.0, 3.0]):
                P.add("C01", "readback:absent-reference-takes-declared-default")
        except Exception as e:  # noqa
            P.add("C09", f"copy:null-reference-with-declared-default:raised:{type(e).__name__}", problem=str(e)[:200])


def check_ref_regenerated(X, rnd, P):
    """C08 alias clause for referent types whose item type is itself a generated class (every subscription expression makes new
    class objects): an object built through a *separate* subscription expression and living in the holder's buffer is denoted, not copied"""
    F = X.Float64

    class Pt(X.Struct):
        x = X.Float64

    fams = [("array-of-arrays", lambda: F[:][:], [[1.0, 2.0], [3.0]], lambda h: h[1][0], lambda h, v: h[1].__setitem__(0, v)),
            ("array-of-refs", lambda: X.Ref[Pt][:], [{"x": 1.0}, {"x": 2.0}], lambda h: h[1].x, lambda h, v: setattr(h[1], "x", v)),
            ("array-of-strings", lambda: X.String[:], ["ab", "cde"], None, None),
            ("array-2d-F", lambda: F[2:1, 3:0], [[1.0, 2.0, 3.0], [4.0, 5.0, 6.0]], lambda h: h[1, 2], lambda h, v: h.__setitem__((1, 2), v))]
    for name, mk, val, get, put in fams:
        class H(X.Struct):
            k = X.Int64
            r = X.Ref[mk()]
        buf, live = make_buffer(X, rnd, "n")
        try:
            tgt = mk()(val, _buffer=buf)  # a second subscription expression: another class object of the same name
            h = H(k=1, r=tgt, _buffer=buf)
            P.evals += 1
            ctx = dict(family=name)
            if h.r._offset != tgt._offset or h.r._buffer is not buf:
                P.add("C08", f"alias:regenerated-class:{name}:copied", offsets=(int(h.r._offset), int(tgt._offset)), **ctx)
            h2 = H(k=2, _buffer=buf)
            h2.r = tgt
            if h2.r._offset != tgt._offset:
                P.add("C08", f"alias:regenerated-class:{name}:copied-on-assignment", **ctx)
            if get is not None:
                put(tgt, 42.5)
                if get(h.r) != 42.5 or get(h2.r) != 42.5:
                    P.add("C08", f"alias:regenerated-class:{name}:write-not-shared", **ctx)
        except Exception as e:  # noqa
            P.add("C08", f"alias:regenerated-class:{name}:raised:{type(e).__name__}", problem=str(e)[:200])


def check_refs(X, sl, rnd, P):
    """C08 on the reference-bearing struct of the slice"""
    R1, S1, S2, U = sl.R1, sl.S1, sl.S2, sl.U
    for rep in range(6):
        buf, live = make_buffer(X, rnd, "n")
        s1 = S1(a=1, b=2.5, c=3, d=4, _buffer=buf)
        arr = X.Float64[:]([1.0, 2.0, 3.0], _buffer=buf)
        obj = R1(k=7, r=s1, ra=arr, u=s1, _buffer=buf)
        ctx = dict(cls=R1.__name__, rep=rep)
        P.evals += 1
        # bind-to-existing aliases
        if obj.r._offset != s1._offset or obj.ra._offset != arr._offset or obj.u._offset != s1._offset:
            P.add("C08", "alias:offset", offsets=(obj.r._offset, s1._offset, obj.ra._offset, arr._offset), **ctx)
        s1.a = 99
        obj.ra[1] = -4.0
        if obj.r.a != 99 or arr[1] != -4.0 or obj.u.a != 99:
            P.add("C08", "alias:write-through", **ctx)
        # bind-to-value creates a new object in the holder's buffer
        obj.r = {"a": 5, "b": 1.0, "c": 1, "d": 1}
        if obj.r._offset == s1._offset or obj.r._buffer is not buf or obj.r.a != 5 or s1.a != 99:
            P.add("C08", "bind-value:independent", **ctx)
            # the old referent is another element (also reached through obj.u and the handle s1): assigning plain data to the
            # reference must leave it as it was
            P.add("C10", "ref-assign-data:old-referent-changed-or-still-bound", s1_a=int(s1.a), **ctx)
        # bind-to-foreign-object copies into the holder's buffer
        foreign = S1(a=11, b=0.0, c=0, d=0)
        obj.r = foreign
        foreign.a = 12
        if obj.r._buffer is not buf or obj.r.a != 11:
            P.add("C08", "bind-foreign:copied", **ctx)
        # an object of another (compatible) type living in the same buffer is converted, not reinterpreted in place
        arr3 = X.Float64[3]([7.0, 8.0, 9.0], _buffer=buf)
        try:
            obj.ra = arr3
            got = plain(X, obj.ra)
            dv, _ = Decoder(X, image(buf)).decode(R1, obj._offset)
            if not eq(got, [np.float64(7.0), np.float64(8.0), np.float64(9.0)]) or not eq(dv["ra"], got):
                P.add("C08", "bind-other-type-same-buffer", got=repr(got)[:120], decoded=repr(dv["ra"])[:120], **ctx)
                P.add("C01", "ref:bind-other-type-same-buffer", got=repr(got)[:120], **ctx)
        except LayoutError as e:
            P.add("C08", "bind-other-type-same-buffer", problem=str(e), **ctx)
            P.add("C01", "ref:bind-other-type-same-buffer", problem=str(e), **ctx)
        except Exception as e:  # noqa
            P.add("C08", f"bind-other-type-same-buffer:raised:{type(e).__name__}", problem=str(e)[:200], **ctx)
        obj.ra = arr
        # null
        obj.r = None
        obj.u = None
        im = image(buf)
        try:
            dv, _ = Decoder(X, im).decode(R1, obj._offset)
            if dv["r"] is not None or dv["u"] is not None:
                P.add("C08", "null:encoding", decoded=repr(dv)[:200], **ctx)
        except LayoutError as e:
            P.add("C08", "null:layout", problem=str(e), **ctx)
        if obj.r is not None or obj.u is not None:
            P.add("C08", "null:readback", **ctx)
        # a whole holder value with null references written over bound ones (Struct._update with a dictionary, as nested assignment
        # does): the references become null, the other fields arrive
        try:
            obj.r = s1
            obj.u = s1
            obj._update({"k": 3, "r": None, "ra": arr, "u": None})
            dv, _ = Decoder(X, image(buf)).decode(R1, obj._offset)
            if obj.r is not None or obj.u is not None or obj.k != 3 or dv["r"] is not None or dv["u"] is not None:
                P.add("C08", "whole-update:null-reference-not-stored", r=repr(obj.r)[:60], u=repr(obj.u)[:60], k=int(obj.k), **ctx)
            obj.k = 7
        except LayoutError as e:
            P.add("C08", "whole-update:null:layout", problem=str(e), **ctx)
        except Exception as e:  # noqa
            P.add("C08", f"whole-update:null:raised:{type(e).__name__}", problem=str(e)[:200], **ctx)
        # union: member by (name, data), by instance
        obj.u = (S2.__name__, sl.value(S2, rnd))
        if type(obj.u).__name__ != S2.__name__ or obj.u._buffer is not buf:
            P.add("C08", "union:bind-value", **ctx)
        obj.u = s1
        if obj.u._offset != s1._offset:
            P.add("C08", "union:bind-existing", **ctx)
        # a standalone union reference object assigned to the field
        try:
            uo = U(s1, _buffer=buf)
            obj.u = uo
            m = obj.u
            if m is None or type(m).__name__ != S1.__name__ or m._offset != s1._offset:
                P.add("C08", "union:assign-unionref-object", resolved=repr(m)[:80], **ctx)
        except Exception as e:  # noqa
            P.add("C08", f"union:assign-unionref-object:raised:{type(e).__name__}", problem=str(e)[:200], **ctx)
        obj.u = s1
        # hybrid holder: bind X, bind None, bind the same X again (the slot must follow every step)
        if rep == 0:
            tagh = grammar.uniq("HR")
            HT = type(f"{tagh}T", (X.HybridClass,), {"_xofields": {"a": X.Int64}})
            HH = type(f"{tagh}H", (X.HybridClass,), {"_xofields": {"k": X.Int8, "r": X.Ref[HT]}})
            hb = X.ContextCpu().new_buffer(64)
            t1, t2 = HT(a=1, _buffer=hb), HT(a=2, _buffer=hb)
            hh = HH(k=1, r=t1, _buffer=hb)
            for step, tv in (("bind", t1), ("none", None), ("rebind-same", t1), ("other", t2), ("data", {"a": 9}), ("rebind-first", t1)):
                hh.r = tv
                cur = hh._xobject.r
                ok = (cur is None) if tv is None else (cur is not None and (cur._offset == tv._xobject._offset if hasattr(tv, "_xobject") else cur.a == 9))
                if not ok:
                    P.add("C08", f"hybrid-ref-history:{step}", **ctx)
                    break
                if hasattr(tv, "_xobject"):
                    tv.a = tv.a + 10
                    if hh._xobject.r.a != tv.a:
                        P.add("C08", f"hybrid-ref-history:{step}:write-not-visible", **ctx)
                        break
            # copies of a hybrid holder of a reference: into another buffer / context the referent is duplicated and the copy's attribute
            # denotes the duplicate (in the copy's buffer); in the same buffer it is shared; writes never cross between independent copies
            try:
                hh.r = t1
                for where, dest in (("other-buffer", X.ContextCpu().new_buffer(64)), ("same-buffer", hb), ("default", None)):
                    cp = hh.copy(_buffer=dest) if dest is not None else hh.copy()
                    P.evals += 1
                    inner = cp.r
                    same = dest is hb
                    if inner is None or inner._buffer is not cp._buffer or cp._xobject.r._buffer is not cp._buffer:
                        P.add("C09", f"hybrid-copy:{where}:reference-resolves-outside-the-copy's-buffer", **ctx)
                    elif inner._offset != cp._xobject.r._offset or (same and inner._offset != t1._xobject._offset):
                        P.add("C09", f"hybrid-copy:{where}:attribute-is-not-the-copy's-referent", **ctx)
                    elif not same:
                        a0 = t1.a
                        inner.a = a0 + 1000
                        if t1.a != a0 or cp._xobject.r.a != a0 + 1000:
                            P.add("C09", f"hybrid-copy:{where}:write-crosses-or-is-lost", original=t1.a, copy_buffer=cp._xobject.r.a, **ctx)
                        t1.a = a0 + 7
                        if cp.r.a != a0 + 1000:
                            P.add("C09", f"hybrid-copy:{where}:write-to-original-shows-in-copy", **ctx)
                        t1.a = a0
            except Exception as e:  # noqa
                P.add("C09", f"hybrid-copy:raised:{type(e).__name__}", problem=str(e)[:200], **ctx)
        # references inside a copied holder resolve to live objects of the copy's buffer: the same referent in the same buffer
        for RC in (sl.R2, sl.R3):
            try:
                if RC is sl.R2:
                    src_h = RC(tag=1, p=s1, q=arr, _buffer=buf)
                    names = ("p", "q")
                else:
                    src_h = RC(n=1, r=s1, x=[1.0, 2.0], y=[1, 2, 3], _buffer=buf)
                    names = ("r",)
                for dest in (buf, X.ContextCpu().new_buffer(32)):
                    cp = RC(src_h, _buffer=dest)
                    for nm in names:
                        t0, t1 = getattr(src_h, nm), getattr(cp, nm)
                        same = dest is buf
                        if t1 is None or t1._buffer is not dest or not eq(plain(X, t1), plain(X, t0)) or (same and t1._offset != t0._offset):
                            P.add("C08", f"copied-holder:ref-resolution:{'same' if same else 'other'}-buffer", holder=RC.__name__, field=nm, **ctx)
                        fr = free_set(dest)
                        if t1 is not None and any(x in fr for x in range(t1._offset, t1._offset + t1._get_size())):
                            P.add("C08", "copied-holder:target-not-live", holder=RC.__name__, field=nm, **ctx)
                    vw = RC._from_buffer(dest, cp._offset)
                    if not eq(plain(X, vw), plain(X, src_h)):
                        P.add("C08", "copied-holder:view-differs", holder=RC.__name__, **ctx)
            except Exception as e:  # noqa
                P.add("C08", f"copied-holder:raised:{type(e).__name__}", holder=RC.__name__, problem=str(e)[:200], **ctx)
        # growth
        want = plain(X, obj)
        store0 = buf.buffer
        for _ in range(4):
            buf.allocate(buf.capacity + 8)
        if buf.buffer is store0:
            P.add("C08", "growth:not-relocated", **ctx)
        try:
            got = plain(X, obj)
            if not eq(got, want) or obj.u._offset != s1._offset:
                P.add("C08", "growth:value-changed", **ctx)
            s1.a = 123
            if obj.u.a != 123:
                P.add("C08", "growth:alias-lost", **ctx)
            dv, _ = Decoder(X, image(buf)).decode(R1, obj._offset)
        except LayoutError as e:
            P.add("C08", "growth:layout", problem=str(e), **ctx)
        except Exception as e:  # noqa
            P.add("C08", f"growth:raised:{type(e).__name__}", problem=str(e)[:200], **ctx)
        # every non-null ref resolves inside a live region of its own buffer
        free = free_set(buf)
        for name in ("r", "ra", "u"):
            t = getattr(obj, name)
            if t is not None:
                ext = range(t._offset, t._offset + (t._get_size() if hasattr(t, "_get_size") else t._size))
                if any(x in free for x in ext) or ext.stop > buf.capacity:
                    P.add("C08", "target-not-live", field=name, **ctx)


def check_union_families(X, sl, rnd, P):
    """C08 (and C01/C05 through the recorded member index): union types that share member types at different positions -- a reversed
    member list, a derived union that prepends a member -- used one after the other in one process, members bound by (name, data), by
    an existing object of the same buffer and by a foreign object: the reference resolves to an object of the type that was bound, at
    the bound object's offset when it was an existing one, and the recorded member index is the position in *that* union's list"""
    S1, S2, S4 = sl.S1, sl.S2, sl.S4
    vals = {S1: {"a": 3, "b": 1.5, "c": 2, "d": 9}, S2: sl.value(S2, rnd), S4: sl.value(S4, rnd)}
    scenarios = []
    for rep, (first_shared, how) in enumerate([(a, b) for a in (True, False) for b in ("existing", "name-data", "foreign")]):
        # fresh union classes per scenario (what a process has already done with a class must not hide anything): base, reversed, derived
        t = grammar.uniq("UF")
        UA = X.ref.MetaUnionRef(f"{t}A", (X.UnionRef,), {"_reftypes": [S1, S2]})
        UB = X.ref.MetaUnionRef(f"{t}B", (X.UnionRef,), {"_reftypes": [S2, S1]})
        UC = X.ref.MetaUnionRef(f"{t}C", (UA,), {"_reftypes": [S4] + list(UA._reftypes)})
        for UT in (UA, UB, UC):
            ms = list(UT._reftypes)
            scenarios.append((rep, how, UT, list(reversed(ms)) if first_shared else ms))
    for rep, how, UT, members in scenarios:
        if True:
            if True:
                for M in members:
                    buf = X.ContextCpu().new_buffer(64)
                    buf.allocate(8)
                    ctx = dict(union=UT.__name__, members=[m.__name__ for m in UT._reftypes], member=M.__name__, how=how, rep=rep)
                    try:
                        if how == "existing":
                            m = M(**vals[M], _buffer=buf)
                            u = UT(m, _buffer=buf)
                        elif how == "foreign":
                            m = M(**vals[M])
                            u = UT(m, _buffer=buf)
                        else:
                            m = None
                            u = UT(M.__name__, vals[M], _buffer=buf)
                        P.evals += 1
                        t = u.get()
                        want_id = [x.__name__ for x in UT._reftypes].index(M.__name__)
                        got_id = int(np.frombuffer(bytes(image(buf)[u._offset + 8:u._offset + 16]), dtype="int64")[0])
                        if t is None or type(t).__name__ != M.__name__ or not eq(plain(X, t), norm(X, M, vals[M])):
                            P.add("C08", f"union-family:{how}:resolves-to-other-type-or-value", resolved=type(t).__name__, **ctx)
                            P.add("C01", f"union-family:{how}:readback", resolved=type(t).__name__, **ctx)
                        if got_id != want_id:
                            P.add("C08", f"union-family:{how}:recorded-member-index", recorded=got_id, expected=want_id, **ctx)
                            P.add("C05", f"union-family:{how}:recorded-member-index", recorded=got_id, expected=want_id, **ctx)
                        if how == "existing" and t is not None and t._offset != m._offset:
                            P.add("C08", "union-family:existing:not-aliased", **ctx)
                    except Exception as e:  # noqa
                        P.add("C08", f"union-family:{how}:raised:{type(e).__name__}", problem=str(e)[:200], **ctx)


def check_copy(X, cls, val, rnd, P):
    """C09 copy-construction in the same buffer, another buffer, another context"""
    tk = type_key(X, cls)
    want = norm(X, cls, val)
    for where in ("same-buffer", "other-buffer", "other-context", "same-buffer-after-shrinking-strings"):
        buf, _ = make_buffer(X, rnd, "n")
        src = construct(cls, val, buf, "default", rnd)
        if where.endswith("shrinking-strings"):
            # history before the copy: every string leaf gets a shorter text, so its capacity exceeds what the text needs
            changed = False
            for path, FT in list(leaves(X, src, cls)):
                if FT is X.String and len(follow(X, src, path)) >= 2:
                    short = follow(X, src, path)[:1]
                    assign(X, src, path, short)
                    want = replaced(want, path, short)
                    changed = True
            if not changed:
                continue
            where_buf = "same-buffer"
        else:
            where_buf = where
        if where_buf == "same-buffer":
            dbuf = buf
        elif where_buf == "other-buffer":
            dbuf = buf.context.new_buffer(16)
        else:
            dbuf = X.ContextCpu().new_buffer(16)
        ctx = dict(cls=cls.__name__, where=where, value=repr(val)[:150])
        try:
            cp = cls(src, _buffer=dbuf)
        except Exception as e:  # noqa
            P.add("C09", f"copy:{tk}:raised:{type(e).__name__}", problem=str(e)[:200], **ctx)
            continue
        P.evals += 1
        try:
            got = plain(X, cp)
        except Exception as e:  # noqa
            P.add("C09", f"copy-read:{tk}:raised:{type(e).__name__}", problem=str(e)[:200], **ctx)
            continue
        if not eq(got, want):
            P.add("C09", f"copy-value:{tk}:{where}", got=repr(got)[:200], **ctx)
        try:
            vw = cls._from_buffer(cp._buffer, cp._offset)
            if not eq(plain(X, vw), want):
                P.add("C09", f"copy-view:{tk}:{where}", got=repr(plain(X, vw))[:200], **ctx)
        except Exception as e:  # noqa
            P.add("C09", f"copy-view:{tk}:raised:{type(e).__name__}", problem=str(e)[:200], **ctx)
        if not eq(plain(X, src), want):
            P.add("C09", f"copy-changed-source:{tk}:{where}", **ctx)
        s0, s1 = src._offset, src._offset + src._get_size()
        c0, c1 = cp._offset, cp._offset + cp._get_size()
        if cp._buffer is src._buffer and c0 < s1 and s0 < c1:
            P.add("C09", f"copy-overlap:{tk}", **ctx)
        try:
            dv, _ = Decoder(X, image(dbuf)).decode(cls, cp._offset)
            if not eq(dv, want):
                P.add("C09", f"copy-decode:{tk}:{where}", decoded=repr(dv)[:200], **ctx)
        except LayoutError as e:
            P.add("C09", f"copy-layout:{tk}:{where}", problem=str(e), **ctx)
        # a later write to either side does not show through the other
        ls = list(leaves(X, cp, cls))[:3]
        for path, FT in ls:
            if FT is X.String:
                continue
            nv = grammar.scalar_value(FT, rnd)
            assign(X, cp, path, nv)
            if not eq(plain(X, src), want):
                P.add("C09", f"copy-write-shows-in-source:{tk}:{where}", path=repr(path), **ctx)
                break
            assign(X, cp, path, follow(X, src, path))
        P.evals += 1
    # the source is a view rebuilt from (buffer, offset) -- how nested fields, items and referents are handed out --, and after the copy
    # the original is rewritten in place with the same number of items laid out differently: the copy keeps its value
    if X.array.is_array(cls) and cls._itemtype._size is None and len(cls._shape) == 1 and not getattr(cls, "_has_refs", False) and len(val) >= 2:
        want0 = norm(X, cls, val)
        rev = list(reversed(list(val)))
        if not eq(norm(X, cls, rev), want0):
            for where in ("same-buffer", "other-buffer", "other-context"):
                buf, _ = make_buffer(X, rnd, "n")
                src = construct(cls, val, buf, "default", rnd)
                dbuf = buf if where == "same-buffer" else (buf.context.new_buffer(16) if where == "other-buffer" else X.ContextCpu().new_buffer(16))
                ctx = dict(cls=cls.__name__, where=where + ":from-view", value=repr(val)[:150])
                try:
                    view = cls._from_buffer(buf, src._offset)
                    cp = cls(view, _buffer=dbuf)
                    try:
                        view._update(rev)
                        if not eq(plain(X, view), norm(X, cls, rev)):
                            continue
                    except Exception:  # noqa  (whether this rewrite is honoured is C10's / C11's business, not C09's)
                        continue
                    P.evals += 1
                    got = plain(X, cp)
                    if not eq(got, want0):
                        P.add("C09", f"copy-from-view:rewrite-of-source-shows-in-copy:{tk}", got=repr(got)[:200], **ctx)
                except Exception as e:  # noqa
                    P.add("C09", f"copy-from-view:{tk}:raised:{type(e).__name__}", problem=str(e)[:200], **ctx)

def check_lengths(X, rnd, P, reps):
    """objects built from lengths only (no data): `Arr(n)`, `Arr(n, m)`, a struct whose array field is given a length -- at every
    placement, in particular at offsets that are not multiples of 8 (after an odd-sized allocation, packed).  C03: only bytes of
    the object's own extent (or space it newly takes) change; C06: the view reads the same shape."""
    F, I8, I64 = X.Float64, X.Int8, X.Int64

    class LenHolder(X.Struct):
        n = X.Int64
        v = X.Float64[:]
        w = X.Int8[:]

    cases = [(F[:], (3,)), (F[:], (0,)), (I8[:], (5,)), (I8[:], (9,)), (I64[:, :], (2, 3)), (F[:, 3], (2,)), (F[4], ()), (I8[3], ()),
             (X.Float32[:], (3,)), (X.Int16[:], (5,))]
    for rep in range(reps):
        for cls, dims in cases + [(LenHolder, None)]:
            for how in ("default", "explicit", "aligned", "packed"):
                buf, live = make_buffer(X, rnd)
                if rnd.random() < 0.7:
                    n_odd = rnd.choice([1, 3, 5, 13])
                    live.append((buf.allocate(n_odd, 1), n_odd))  # the next packed / explicit placement is not 8-aligned
                    poison(buf)
                before = image(buf)
                free0 = free_set(buf)
                kw = {"_buffer": buf}
                try:
                    if cls is LenHolder:
                        a, b = rnd.choice([(5, 3), (1, 7), (0, 2)])
                        if how == "explicit":
                            kw["_offset"] = buf.allocate(cls._inspect_args(n=1, v=a, w=b).size, 1)
                        elif how != "default":
                            kw["_offset"] = how
                        obj = cls(n=1, v=a, w=b, **kw)
                    else:
                        if how == "explicit":
                            kw["_offset"] = buf.allocate(cls._inspect_args(*dims).size, 1)
                        elif how != "default":
                            kw["_offset"] = how
                        obj = cls(*dims, **kw)
                except Exception as e:  # noqa
                    P.add("C01", f"construct-from-length:{cls.__name__}:raised:{type(e).__name__}", placement=how, problem=str(e)[:200])
                    continue
                P.evals += 1
                off, size = obj._offset, int(obj._get_size() if hasattr(obj, "_get_size") else obj._size)
                after = image(buf)
                free1 = free_set(buf)
                allowed = set(range(off, off + size)) | {x for x in free0 if x not in free1}
                outside = [x for x in range(min(len(before), len(after))) if before[x] != after[x] and x not in allowed]
                ctx = dict(cls=cls.__name__, placement=how, offset=off, size=size, dims=repr(dims))
                if outside:
                    P.add("C03", f"frame:construct-from-length:{type_key(X, cls)}", bytes_changed_outside=outside[:8], **ctx)
                for (o2, n2) in live:
                    if off < o2 + n2 and o2 < off + size:
                        P.add("C03", f"overlap-live:from-length:{type_key(X, cls)}", neighbour=(o2, n2), **ctx)
                try:
                    view = cls._from_buffer(buf, off)
                    for attr in ("_shape", "_size"):
                        if hasattr(obj, attr) and _tl(getattr(view, attr)) != _tl(getattr(obj, attr)):
                            P.add("C06", f"view-attr:{attr}:from-length:{type_key(X, cls)}", handle=repr(getattr(obj, attr)), view=repr(getattr(view, attr, None)), **ctx)
                except Exception as e:  # noqa
                    P.add("C06", f"view:from-length:{type_key(X, cls)}:raised:{type(e).__name__}", problem=str(e)[:200], **ctx)


def run_all(tier, seed):
    X = grammar.xo()
    rnd = random.Random(seed)
    sl = grammar.Slice(tier)
    P = Problems()
    P.evals = 0
    distinct = set()
    reps = 2 if tier == "quick" else 6
    samples = []
    classes = list(sl.roots) + [X.String, X.Float64, X.Int8]
    for cls in classes:
        compound = X.struct.is_struct(cls) or X.array.is_array(cls)
        if not compound:
            continue
        for rep in range(reps):
            val = sl.value(cls, rnd)
            forms = ["data"]
            if X.array.is_array(cls) and X.scalar.is_scalar(cls._itemtype):
                forms.append("ndarray")
            forms.append("xobject")
            for obj, view, buf, want, ctx in check_construct(X, cls, val, rnd, P, forms):
                distinct.add((cls.__name__, repr(val)[:80], ctx["placement"], ctx["form"]))
                if ctx["form"] == "data":
                    try:
                        want2 = check_setters(X, cls, obj, view, buf, want, ctx, rnd, P)
                        want2 = check_whole_assign(X, cls, obj, view, buf, want2, ctx, rnd, P)
                        want2 = check_setters_across_growth(X, cls, obj, buf, want2, ctx, rnd, P)
                        check_misuse(X, cls, obj, buf, want2, ctx, rnd, P)
                    except Exception as e:  # noqa
                        P.add("C10", f"harness:{type_key(X, cls)}:{type(e).__name__}", problem=str(e)[:200], **ctx)
                if len(samples) < 3 and rep == 0 and ctx["placement"] == "packed":
                    samples.append({k: ctx[k] for k in ("cls", "value", "placement", "form", "offset", "size", "alignment")})
            check_copy(X, cls, val, rnd, P)
    # strings: plain, capacity form, on reused memory
    for rep in range(reps * 3):
        buf, live = make_buffer(X, rnd)
        s = rnd.choice(["", "a", "héllo", "x" * 15, "1234567", "12345678"])
        o = X.String(s, _buffer=buf)
        P.evals += 1
        try:
            got = o.to_str()
        except Exception as e:  # noqa
            got = f"raised {type(e).__name__}: {e}"
        if got != s:
            P.add("C01", "readback:String:data", value=s, got=got[:80])
        try:
            dv, dsz = Decoder(X, image(buf)).decode(X.String, o._offset)
            if dv != s or dsz != o._size:
                P.add("C05", "decode-value:String:data", value=s, decoded=repr(dv)[:60])
        except LayoutError as e:
            P.add("C05", "layout:String:data", problem=str(e), value=s)
        c = X.String(rnd.choice([1, 7, 8, 20]), _buffer=buf)
        P.evals += 1
        try:
            got = c.to_str()
        except Exception as e:  # noqa
            got = f"raised {type(e).__name__}"
        if got != "":
            P.add("C01", "readback:String:capacity", got=repr(got)[:60], offset=c._offset)
        try:
            dv, _ = Decoder(X, image(buf)).decode(X.String, c._offset)
            if dv != "":
                P.add("C05", "decode-value:String:capacity", decoded=repr(dv)[:60])
        except LayoutError as e:
            P.add("C05", "layout:String:capacity", problem=str(e))
    check_lengths(X, rnd, P, 2 if tier == "quick" else 6)
    check_refs(X, sl, rnd, P)
    check_ref_regenerated(X, rnd, P)
    check_null_ref_with_default(X, rnd, P)
    check_union_families(X, sl, rnd, P)
    # contract of iter_index assumed by the array writer proofs
    from . import axioms_native

    n_ii, bad_ii = axioms_native.check_iter_index(3 if tier == "quick" else 4)
    P.evals += n_ii
    for bd in bad_ii[:3]:
        for prop in ("C05", "C03", "C01"):
            P.add(prop, "iter_index:memory-order-contract", **{k: str(v) for k, v in bd.items()})
    return P, distinct, samples


def run(prop, tier, seed):
    P, distinct, samples = run_all(tier, seed)
    mine = [p for p in P if p["property"] == prop]
    # one representative per case key
    seen = {}
    for p in mine:
        seen.setdefault(p["case_key"], p)
    return {
        "evaluations": P.evals, "distinct_nontrivial": len(distinct),
        "rule": "grammar slice (checks/grammar.py) x generated values x input forms {python data, ndarray (C/F), same-class xobject} x placements "
                "{allocated, explicit offset, aligned, packed} in buffers of both kinds with a prior allocate/free history, default alignment 1..64, "
                "free space poisoned; read-back through accessors, decode with the documented-layout decoder, frame check of all bytes, view vs handle, "
                "leaf assignments through handle/view, misuse catalogue, reference histories incl. growth, copy-construction in same/other buffer/context; "
                "distinct by (class, value, placement, form)",
        "exhaustive": False, "violations": list(seen.values()), "n_problem_keys": len(seen), "samples": samples,
    }
