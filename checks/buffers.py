"""C13: CPU buffer copy primitives move exactly the requested bytes."""
from . import common, buffers_vc, buffers_native
from pyvc import storage


class BuffersCheck:
    CONTRACT_MODULES = []
    LEVEL = "proof"
    PROP = "C13"
    ASSUMPTIONS = [
        "offsets and lengths in range (0 <= offset, offset+n <= len, same for the source): these are the `requires`; out-of-range "
        "slices silently resize a bytearray, so callers are obliged to establish them",
        "buffers that share one context object are of the same buffer class (native storage type of that context)",
        "numpy dtype conversion (astype) and byte order are opaque functions of the source bytes in the proof; their agreement with "
        "numpy is checked only natively",
        "the bounded native part is exhaustive only up to the stated capacity and dtype/layout lists",
    ]
    EXPLANATION = (
        "Each byte-copy primitive of BufferByteArray and BufferNumpy, and XBuffer.update_from_xbuffer on both dispatch branches, is "
        "executed symbolically on buffers of symbolic length with symbolic in-range offsets; the postcondition is over the whole byte "
        "map: the addressed bytes equal the source bytes (read before written, also when the source is the buffer itself), every other "
        "byte and the length are unchanged, the source is unchanged, extracted data is fresh storage, typed views alias the buffer at "
        "the requested byte offset, and update_from_nplike stores the C-order encoding of the converted values for every source layout. "
        "All obligations are discharged relative to the named storage axioms (assumed contracts on bytearray/numpy)."
    )

    @property
    def TRUSTED(self):
        return ["pyvc/storage.py axiom " + a + " (assumed contract on bytearray/numpy; validated natively, exhaustive small scope)"
                for a in sorted(storage.AXIOMS_USED or ["AX-*"])]

    def targets(self):
        def g():
            obs = buffers_vc.vc_all()
            its = getattr(buffers_vc.vc_all, "interps", [])
            class _I:  # merged statistics of the per-function interpreters
                n_paths = sum(getattr(i, "n_paths", 0) for i in its)
                stats = {"inlined": set().union(*[i.stats["inlined"] for i in its]) if its else set()}
            g.interp = _I
            for o in obs:
                o.properties = ["C13"]
            return obs
        g.__name__ = "buffer_primitives"
        g.functions = buffers_vc.FUNCTIONS
        from . import types_vc

        return [("<gen>", g)] + [t for t in types_vc.targets("C13")]

    def bounded(self, tier, seed, focus):
        return buffers_native.run(tier, seed)

    def find_counterexample(self, ob, seed):
        if "_cex" not in self.__dict__:
            st, r = common.isolated_call("checks.buffers_native", "run", {"tier": "thorough", "seed": seed})
            v = r.get("violations") if st == "ok" else None
            self._cex = dict(v[0], script=REPLAY) if v else None
        return self._cex

    def reproduce_known(self, k):
        return None


REPLAY = ("import sys; sys.path.insert(0, '/verif')\nfrom checks import buffers_native\n"
          "print(buffers_native.run('thorough', 0)['violations'][:1])\n")
