"""Bounded native part of C20 (never counted as proved): pickle round trips of importable struct / array / hybrid objects."""
import pickle
import random

import numpy as np

from . import grammar
from .objects_native import plain, eq


def hplain(X, h):
    """value of a hybrid object through its attributes"""
    out = {}
    for name in h._XoStruct._fields:
        pass
    for f in h._XoStruct._fields:
        v = getattr(h, h._inverse_rename.get(f.name, f.name) if hasattr(h, "_inverse_rename") else f.name)
        if isinstance(v, X.HybridClass):
            v = hplain(X, v)
        elif isinstance(v, np.ndarray):
            v = v.tolist()
        elif hasattr(v, "_buffer"):
            v = plain(X, v)
        out[f.name] = v
    return out


def run(tier, seed):
    X = grammar.xo()
    from . import pickle_classes as C

    rnd = random.Random(seed)
    evals = 0
    distinct = set()
    violations = []

    def bad(key, **kw):
        if len(violations) < 400:
            violations.append({"case_key": key, **kw})

    def mk(cls, buf):
        if cls is C.PkStatic:
            return cls(a=rnd.randrange(100), b=1.5, c=3, _buffer=buf)
        if cls is C.PkOneDyn:
            return cls(n=4, x=[1.0, 2.0, rnd.random()], _buffer=buf)
        if cls is C.PkTwoDyn:
            return cls(n=5, x=[1.0, 2.0], s="héllo", y=[1, 2, 3], _buffer=buf)
        if cls is C.PkNested:
            return cls(k=9, inner={"n": 1, "x": [3.0], "s": "ab", "y": [7, 8]}, t={"a": 1, "b": 2.0, "c": 3}, _buffer=buf)
        if cls is C.PkArr:
            return cls([1.0, 2.0, 3.0, rnd.random()], _buffer=buf)
        if cls is C.PkArr2:
            return cls(np.arange(6).reshape(2, 3), _buffer=buf)
        if cls is C.PkArrS:
            return cls([{"n": 1, "x": [1.0]}, {"n": 2, "x": [2.0, 3.0]}], _buffer=buf)
        if cls in (C.PkGridF, C.PkGrid3):
            shp = (2, 3) if cls is C.PkGridF else (2, 2, 3)
            a = np.empty(shp, dtype=object)
            for n_, idx in enumerate(np.ndindex(*shp)):
                a[idx] = "s" + "".join(map(str, idx)) + "x" * (n_ % 4) * 3
            return cls(a, _buffer=buf)
        if cls is C.PkNumF:
            return cls(np.arange(12, dtype=float).reshape(3, 2, 2) + rnd.random(), _buffer=buf)
        if cls is C.PkHybStatic:
            return cls(p=2.5, q=7, _buffer=buf)
        if cls is C.PkHybDyn:
            return cls(v=[1.0, 2.0], w=[1, 2, 3], name="xy", k=1, _buffer=buf)
        if cls is C.PkHybNested:
            return cls(h=C.PkHybStatic(p=1.0, q=2), d=C.PkHybDyn(v=[3.0], w=[4], name="n", k=2), z=0.5, _buffer=buf)
        raise ValueError(cls)

    def value(o):
        return hplain(X, o) if isinstance(o, X.HybridClass) else plain(X, o)

    classes = [C.PkStatic, C.PkOneDyn, C.PkTwoDyn, C.PkNested, C.PkArr, C.PkArr2, C.PkArrS, C.PkGridF, C.PkGrid3, C.PkNumF, C.PkHybStatic, C.PkHybDyn, C.PkHybNested]
    for rep in range(2 if tier == "quick" else 8):
        for kind in ("n", "b"):
            bcls = X.context_cpu.BufferNumpy if kind == "n" else X.context_cpu.BufferByteArray
            # ---- single objects
            for cls in classes:
                buf = bcls(capacity=rnd.choice([64, 512]))
                buf.allocate(rnd.choice([8, 24]))
                o = mk(cls, buf)
                if cls in (C.PkArr, C.PkArr2):
                    o.to_nplike()  # the object has been used before it is pickled
                want = value(o)
                key = cls.__name__
                evals += 1
                distinct.add((key, kind, rep))
                try:
                    o2 = pickle.loads(pickle.dumps(o))
                    got = value(o2)
                except Exception as e:  # noqa
                    bad(f"roundtrip:{key}", problem=f"{type(e).__name__}: {e}", buffer=bcls.__name__)
                    continue
                if not eq(got, want):
                    bad(f"value:{key}", got=repr(got)[:200], want=repr(want)[:200])
                b2 = o2._buffer if hasattr(o2, "_buffer") else o2._xobject._buffer
                if b2 is buf or b2.buffer is buf.buffer:
                    bad(f"independent:{key}")
                # usable for further writes, independent of the original
                try:
                    if cls in (C.PkStatic, C.PkNested):
                        tgt = o2 if cls is C.PkStatic else o2.t
                        tgt.a = 4242
                        orig = o if cls is C.PkStatic else o.t
                        if tgt.a != 4242 or orig.a == 4242:
                            bad(f"write:{key}")
                    elif cls in (C.PkOneDyn, C.PkTwoDyn):
                        o2.x[0] = -1.0
                        o2.n = 77
                        if o2.x[0] != -1.0 or o2.n != 77 or o.x[0] == -1.0:
                            bad(f"write:{key}")
                    elif cls in (C.PkArr,):
                        o2[1] = -5.0
                        if o2[1] != -5.0 or o[1] == -5.0:
                            bad(f"write:{key}")
                        v = o2.to_nplike()
                        if v[1] != -5.0:
                            bad(f"read-paths-disagree:{key}", item=float(o2[1]), through_view=float(v[1]))
                        v[0] = 3.25
                        if o2[0] != 3.25:
                            bad(f"view-write-lost:{key}")
                    elif cls in (C.PkGridF, C.PkGrid3):
                        # item by item: a same-length text written at one index is read back there, and only there
                        idx = tuple(s_ - 1 for s_ in o2._shape)
                        other = (0,) * len(idx)
                        keep = o2[other]
                        o2[idx] = "Z" * len(o2[idx])
                        if o2[idx] != "Z" * len(o2[idx]) or o2[other] != keep or o[idx] == o2[idx]:
                            bad(f"write:{key}")
                    elif cls is C.PkNumF:
                        o2[2, 1, 0] = -5.0
                        if o2[2, 1, 0] != -5.0 or o[2, 1, 0] == -5.0 or o2.to_nplike()[2, 1, 0] != -5.0:
                            bad(f"write:{key}")
                    elif cls is C.PkHybDyn:
                        o2.w[0] = 99
                        o2.k = 5
                        if o2.w[0] != 99 or o2.k != 5 or o.w[0] == 99:
                            bad(f"write:{key}")
                except Exception as e:  # noqa
                    bad(f"usable:{key}", problem=f"{type(e).__name__}: {e}")
            # ---- groups sharing a buffer; one buffer filled exactly, with an interior hole
            buf = bcls(capacity=256)
            group = [mk(c, buf) for c in (C.PkStatic, C.PkTwoDyn, C.PkArr, C.PkHybDyn)]
            o0 = buf.allocate(16)
            last = C.PkArr([7.0, 8.0, 9.0], _buffer=buf)
            free = buf.get_free()
            if free:
                buf.allocate(free, False)  # fill the tail exactly
            buf.free(o0, 16)  # interior hole; the tail is fully occupied
            group.append(last)
            wants = [value(g) for g in group]
            evals += 1
            distinct.add(("group", kind, rep))
            try:
                g2 = pickle.loads(pickle.dumps(group))
            except Exception as e:  # noqa
                bad("group:roundtrip", problem=f"{type(e).__name__}: {e}")
                continue
            bufs = {id(g._buffer if hasattr(g, "_buffer") else g._xobject._buffer) for g in g2}
            if len(bufs) != 1:
                bad("group:buffer-not-shared", n_buffers=len(bufs))
            for g, w in zip(g2, wants):
                try:
                    if not eq(value(g), w):
                        bad(f"group:value:{type(g).__name__}", got=repr(value(g))[:160], want=repr(w)[:160])
                except Exception as e:  # noqa
                    bad(f"group:value:{type(g).__name__}", problem=f"{type(e).__name__}: {e}")
            nb = g2[0]._buffer
            try:
                cap0 = nb.capacity
                off = nb.allocate(16)
                nb.update_from_buffer(off, b"\x01" * 16)
                nb.free(off, 16)
                # regions somewhat larger than the hole: they must not be carved out of it (it is followed by live objects)
                for sz in (24, 40, 17, 64):
                    offk = nb.allocate(sz)
                    nb.update_from_buffer(offk, b"\x5a" * sz)
                    if offk < 0 or offk + sz > nb.capacity or not all(eq(value(g), w) for g, w in zip(g2, wants)):
                        bad("group:allocator-state", offset=offk, size=sz, capacity=nb.capacity, note="an allocation in the unpickled buffer overlaps a live object or leaves the capacity")
                        break
                off2 = nb.allocate(1000)
                # a working allocator: the new regions lie inside the capacity and writing into them leaves every object of the group
                # intact (that the free list is the same as before pickling is not demanded by the statement)
                if off < 0 or off + 16 > cap0 + max(0, nb.capacity - cap0) or off2 < 0 or off2 + 1000 > nb.capacity or nb.capacity < cap0 \
                        or not all(eq(value(g), w) for g, w in zip(g2, wants)):
                    bad("group:allocator-state", offset=off, second_offset=off2, capacity=nb.capacity, first_fit_offset_before_pickling=o0)
            except Exception as e:  # noqa
                bad("group:allocator-broken", problem=f"{type(e).__name__}: {e}")
            # ---- a container pickled together with its own nested dressed parts (they live in the container's memory)
            buf = bcls(capacity=512)
            cont = mk(C.PkHybNested, buf)
            fam = [cont, cont.h, cont.d]
            wants = [value(g) for g in fam]
            evals += 1
            distinct.add(("nested-family", kind, rep))
            try:
                c2, h2, d2 = pickle.loads(pickle.dumps(fam))
                if not (h2._buffer is c2._buffer and d2._buffer is c2._buffer):
                    bad("family:buffer-not-shared", note="a nested part pickled together with its container no longer lives in the container's buffer")
                if not all(eq(value(g), w) for g, w in zip((c2, h2, d2), wants)):
                    bad("family:value")
                h2.p = -7.25
                d2.v[0] = 99.0
                if c2.h.p != -7.25 or c2.d.v[0] != 99.0:
                    bad("family:write-not-shared", note="a write through the unpickled nested part is not seen through the unpickled container")
            except Exception as e:  # noqa
                bad("family:roundtrip", problem=f"{type(e).__name__}: {e}")
    return {
        "evaluations": evals, "distinct_nontrivial": len(distinct),
        "rule": "importable classes (static/dynamic/nested structs, 1-d/2-d/struct arrays, static/dynamic/nested hybrid classes) x both buffer kinds: "
                "value equal at every field after loads(dumps(o)), buffer independent of the original, further reads/writes work; groups of objects "
                "sharing a buffer (filled exactly, with an interior hole) still share one, which still allocates first-fit and grows; distinct by (class, buffer kind, repetition)",
        "exhaustive": False, "violations": _by_key(violations), "samples": [{"classes": [c.__name__ for c in classes]}],
    }


def _by_key(violations, cap=12):
    """one representative per case key (known findings must not crowd out new violations)"""
    seen = {}
    for v in violations:
        seen.setdefault(v.get("case_key"), v)
    return list(seen.values())[:cap]
