"""Bounded native parts for C15 / C16 (never counted as proved).

C16: a vectorised kernel is specialised by the real specialize_source for the four targets.  The two CPU forms are
compiled and run through real ContextCpu contexts (serial and OpenMP); the OpenCL and CUDA forms are compiled for the
host with shims (get_global_id / blockDim,blockIdx,threadIdx as globals) and launched by a host loop that reproduces the
launch geometry the contexts use (OpenCL: global size n; CUDA: grid from the expression in KernelCupy.__call__, read from
the current source).  Every index must be executed exactly once, for n including 0; context-restricted lines and
included files must be active exactly on the targets they name; unannotated text passes through unchanged.
C15: the accessor source of the grammar slice specialised for the four targets is token-identical once qualifier
keywords are deleted, compiles on the host with the keywords defined away, and in the OpenCL form every pointer type
carries __global.
"""
import ast
import json
import os
import random
import re
import shutil
import subprocess
import sys
import tempfile

import numpy as np

from . import grammar, common

TARGETS = ["cpu_serial", "cpu_openmp", "opencl", "cuda"]

KSRC = r"""
/*gpufun*/ double twice(double v){ return 2*v; }

/*gpukern*/
void vk(const int n, /*gpuglmem*/ double* y, /*gpuglmem*/ int* cnt) {
    int ii = 0; //vectorize_over ii n
    cnt[ii] += 1;
    y[ii] = twice(y[ii]) + 1;
    y[ii] += 1000; //only_for_context opencl cuda
    y[ii] += 10; //only_for_context cpu_serial cpu_openmp
    //end_vectorize
}
"""


def _spec():
    grammar.xo()
    from xobjects.specialize_source import specialize_source

    return specialize_source


def expected(n, target, y0):
    add = 1000 if target in ("opencl", "cuda") else 10
    return [2 * v + 1 + add for v in y0[:n]] + list(y0[n:])


def cuda_grid(n, B):
    """grid size as computed by the real KernelCupy.__call__ (expression taken from the current source)"""
    from pyvc import source as src

    fn = src.func_node("xobjects/context_cupy.py", "KernelCupy.__call__")
    for node in ast.walk(fn):
        if isinstance(node, ast.Assign) and isinstance(node.targets[0], ast.Name) and node.targets[0].id == "grid_size":
            class S:
                block_size = B
            return eval(compile(ast.Expression(node.value), "<grid>", "eval"), {"np": np, "n_threads": n, "self": S, "int": int})
    raise RuntimeError("grid_size expression not found")


HOST_SHIM = r"""
#include <stdint.h>
#define __global
#define __kernel
#define __device__
#define __global__
static int _gid;
static int get_global_id(int d){ return _gid; }
typedef struct { int x; } _dim3;
static _dim3 blockDim, blockIdx, threadIdx;
"""


def host_sim(tmp, target, text, name):
    """compile the opencl / cuda form for the host and return a launcher(n, B, y, cnt)"""
    import cffi

    ffi = cffi.FFI()
    ffi.cdef("void launch_ocl(int n, double* y, int* cnt); void launch_ocl2(int n, int nthreads, double* y, int* cnt); void launch_cuda(int n, int grid, int block, double* y, int* cnt);")
    body = HOST_SHIM + text + r"""
void launch_ocl(int n, double* y, int* cnt){ for (_gid = 0; _gid < n; _gid++) vk(n, y, cnt); }
void launch_ocl2(int n, int nthreads, double* y, int* cnt){ for (_gid = 0; _gid < nthreads; _gid++) vk(n, y, cnt); }
void launch_cuda(int n, int grid, int block, double* y, int* cnt){
  blockDim.x = block;
  for (blockIdx.x = 0; blockIdx.x < grid; blockIdx.x++)
    for (threadIdx.x = 0; threadIdx.x < block; threadIdx.x++) vk(n, y, cnt);
}
"""
    ffi.set_source(name, body, extra_compile_args=["-O1", "-w"])
    so = ffi.compile(tmpdir=tmp, verbose=False)
    import importlib.util

    spec = importlib.util.spec_from_file_location(name, so)
    mod = importlib.util.module_from_spec(spec)
    spec.loader.exec_module(mod)
    return mod.lib, mod.ffi


def bounded_c16(tier, seed):
    X = grammar.xo()
    specialize_source = _spec()
    rnd = random.Random(seed)
    evals = 0
    distinct = set()
    violations = []
    samples = []
    ns = [0, 1, 2, 5, 31, 32, 33, 64, 257] if tier == "quick" else [0, 1, 2, 3, 5, 7, 31, 32, 33, 63, 64, 65, 100, 257, 1000, 1025]
    blocks = [1, 3, 32] if tier == "quick" else [1, 2, 3, 32, 64, 1024]

    def bad(key, **kw):
        violations.append({"case_key": key, **kw})

    tmp = tempfile.mkdtemp(prefix="verif_c16_")
    try:
        # the bound of a vectorised block is any C expression without blanks, not only an identifier
        for li, (lim, limf) in enumerate((("n", lambda n: n), ("n-1", lambda n: n - 1), ("(n+1)/2", lambda n: (n + 1) // 2), ("n*2/2", lambda n: n))):
            ksrc = KSRC.replace("//vectorize_over ii n", f"//vectorize_over ii {lim}")
            # ---- (a) real CPU contexts
            kd = {"vk": X.Kernel(args=[X.Arg(X.Int32, name="n"), X.Arg(X.Float64, pointer=True, name="y"), X.Arg(X.Int32, pointer=True, name="cnt")], n_threads="n")}
            for omp in (0, 2):
                ctx = X.ContextCpu(omp_num_threads=omp)
                ctx.add_kernels(sources=[ksrc], kernels=kd)
                tgt = "cpu_openmp" if omp else "cpu_serial"
                for n in ns:
                    m = n + 3
                    y = np.arange(m, dtype=np.float64) * 0.5
                    cnt = np.zeros(m, dtype=np.int32)
                    y0 = list(y)
                    ctx.kernels.vk(n=n, y=y, cnt=cnt)
                    evals += 1
                    distinct.add((tgt, n, lim))
                    L = max(0, limf(n))
                    if list(cnt) != [1] * L + [0] * (m - L) or list(y) != expected(L, tgt, y0):
                        bad(f"run:{tgt}", target=tgt, n=n, limit=lim, counts=list(map(int, cnt))[:12], y=list(y)[:6], expected_y=expected(L, tgt, y0)[:6])
            # ---- (b) host simulation of the GPU forms with the real launch geometry
            for tgt in ("opencl", "cuda"):
                text = specialize_source(ksrc, specialize_for=tgt)
                lib, ffi = host_sim(tmp, tgt, text, f"verif_c16_{tgt}_{li}_{os.getpid()}")
                for n in ns:
                    for B in (blocks if tgt == "cuda" else [None]):
                        m = n + 3 + (B or 0)
                        y = np.arange(m, dtype=np.float64) * 0.5
                        cnt = np.zeros(m, dtype=np.int32)
                        y0 = list(y)
                        py, pc = ffi.cast("double*", ffi.from_buffer(y)), ffi.cast("int*", ffi.from_buffer(cnt))
                        L = max(0, limf(n))  # the number of threads the kernel description asks for is the block's bound
                        if tgt == "opencl":
                            lib.launch_ocl2(n, L, py, pc)
                        else:
                            lib.launch_cuda(n, int(cuda_grid(L, B)), B, py, pc)
                        evals += 1
                        distinct.add((tgt, n, B, lim))
                        if list(cnt[:L]) != [1] * L or any(cnt[L:]) or list(y) != expected(L, tgt, y0):
                            bad(f"run:{tgt}", target=tgt, n=n, limit=lim, block=B, counts=list(map(int, cnt))[:12], y=list(y)[:6], expected_y=expected(L, tgt, y0)[:6])
                if len(samples) < 2:
                    samples.append({"target": tgt, "specialised_source": text[:600]})
        # ---- (c) text-level: pass-through, context lines, include files (incl. context lines inside an included file)
        hdr = os.path.join(tmp, "inc_verif.h")
        with open(hdr, "w") as fh:
            fh.write("#define FROM_INCLUDE 1\nint only_gpu_line; //only_for_context opencl cuda\nint plain_included_line;\n")
        words = ["a = b + c;", "  double x[3];", "// a comment", "", "#define Q 3", "if (x) { y(); }", "\tz++;", "int w = 0 /*keep*/;"]
        for rep in range(20 if tier == "quick" else 100):
            plain = [rnd.choice(words) + f" /*{rnd.randrange(1000)}*/" for _ in range(rnd.randrange(0, 6))]
            ctxs = rnd.sample(TARGETS, rnd.randrange(1, 4))
            inc_ctxs = rnd.sample(TARGETS, rnd.randrange(1, 4))
            src_lines = plain[:2] + [f"int restricted; //only_for_context {' '.join(ctxs)}"] + plain[2:4] + \
                [f"//include_file inc_verif.h for_context {' '.join(inc_ctxs)}"] + plain[4:]
            text = "\n".join(src_lines)
            for tgt in TARGETS:
                out = specialize_source(text, specialize_for=tgt, search_in_folders=[tmp])
                evals += 1
                distinct.add(("text", tuple(src_lines), tgt))
                ol = out.split("\n")
                for p in plain:
                    if p not in ol:
                        bad("text:passthrough", target=tgt, line=p, source=text, output=out)
                want = "int restricted; //only_for_context " + " ".join(ctxs)
                active = want in ol
                commented = ("//" + want) in ol
                if (tgt in ctxs) != active or (tgt not in ctxs) != commented:
                    bad("text:only_for_context", target=tgt, contexts=ctxs, source=text, output=out)
                spliced = "#define FROM_INCLUDE 1" in ol
                if spliced != (tgt in inc_ctxs):
                    bad("text:include_file", target=tgt, contexts=inc_ctxs, source=text, output=out)
                if spliced:
                    gl = "int only_gpu_line; //only_for_context opencl cuda"
                    if ((gl in ol) != (tgt in ("opencl", "cuda"))) or ((("//" + gl) in ol) != (tgt not in ("opencl", "cuda"))) or "int plain_included_line;" not in ol:
                        bad("text:context_line_inside_include", target=tgt, source=text, output=out)
    finally:
        shutil.rmtree(tmp, ignore_errors=True)
    return {
        "evaluations": evals, "distinct_nontrivial": len(distinct),
        "rule": f"vectorised kernel with a per-index counter, n in {ns}: real ContextCpu serial + OpenMP(2 threads) runs; OpenCL/CUDA forms "
                f"compiled for the host with shims and launched with the contexts' geometry (CUDA block sizes {blocks}, grid from the "
                "expression in KernelCupy.__call__); random annotated sources (pass-through, only_for_context, include_file with a "
                "context line inside) x 4 targets; distinct by (target, n, block) / (source, target)",
        "exhaustive": False, "violations": _by_key(violations), "samples": samples,
    }


QUAL_WORDS = {"__global", "__kernel", "__device__", "__global__", "static", "inline", "restrict"}


def tokens_wo_qualifiers(text):
    text = re.sub(r"/\*.*?\*/", " ", text, flags=re.S)
    return [t for t in re.findall(r"[A-Za-z_][A-Za-z_0-9]*|\d+|\S", text) if t not in QUAL_WORDS]


def unqualified_pointers(text):
    """pointer types written in the OpenCL form that lack __global: casts `( T * )`, declarations `T* name =`, typedefs"""
    bad = []
    for m in re.finditer(r"\(([^()]*?\*)\s*\)", text):
        inner = m.group(1)
        if re.fullmatch(r"[\sA-Za-z_0-9\*]+", inner) and re.search(r"[A-Za-z_]", inner) and "__global" not in inner:
            bad.append(m.group(0))
    for m in re.finditer(r"^[ \t]*([A-Za-z_][\w \t]*?)\*+\s*[A-Za-z_]\w*\s*=", text, flags=re.M):
        if "__global" not in m.group(1):
            bad.append(m.group(0))
    for m in re.finditer(r"typedef([^;]*\*[^;]*);", text):
        if "__global" not in m.group(1):
            bad.append(m.group(0))
    return bad


def c15_history(tier, seed, order):
    X = grammar.xo()
    specialize_source = _spec()
    sl = grammar.Slice(tier)
    evals = 0
    distinct = set()
    violations = []
    samples = []
    classes = X.context.sort_classes(list(sl.roots))

    def bare_declarations():
        for cls in classes:
            if hasattr(cls, "_gen_c_decl"):
                cls._gen_c_decl({})

    def cpu_build():
        from xobjects import capi
        from xobjects.typeutils import default_conf

        kernels = {}
        for cls in sl.roots:
            for path in cls._gen_data_paths():
                for _src, k in capi.methods_from_path(cls, path, default_conf):
                    if k is not None:
                        kernels[k.c_name] = k
        X.ContextCpu().add_kernels(kernels=kernels, extra_classes=sl.roots)

    # the source is generated again after other uses of the generator in this process (declarations with the bare configuration that
    # the CPU context asks for, a complete CPU build): what was generated before must not leak into the specialised forms
    full = forms = None
    steps = {"fresh": None, "after-bare-declarations": bare_declarations, "after-cpu-build": cpu_build}
    for k_, hist0 in enumerate(order):
        before = steps[hist0]
        hist = "+".join(order[:k_ + 1])
        if before is not None:
            before()
        pieces = []
        for cls in classes:
            s_ = cls._gen_c_api()
            pieces.append(s_.source if hasattr(s_, "source") else s_)
        full = "\n".join(pieces)
        forms = {}
        for tgt in TARGETS:
            forms[tgt] = specialize_source(full, specialize_for=tgt)
        ref = tokens_wo_qualifiers(forms["cpu_serial"])
        for tgt in TARGETS:
            evals += 1
            distinct.add(("tokens", tgt, hist))
            tk = tokens_wo_qualifiers(forms[tgt])
            if tk != ref:
                k = next((i for i, (a, b) in enumerate(zip(tk, ref)) if a != b), min(len(tk), len(ref)))
                violations.append({"case_key": f"tokens:{tgt}", "target": tgt, "history": hist, "first_difference_at_token": k,
                                   "cpu": " ".join(ref[max(0, k - 8):k + 8]), "other": " ".join(tk[max(0, k - 8):k + 8])})
            r = subprocess.run(["gcc", "-std=gnu99", "-fsyntax-only", "-w", "-D__global=", "-D__kernel=", "-D__device__=", "-D__global__=", "-x", "c", "-"],
                               input="#include <stdint.h>\n" + forms[tgt], capture_output=True, text=True)
            evals += 1
            distinct.add(("compile", tgt, hist))
            if r.returncode != 0:
                violations.append({"case_key": f"compile:{tgt}", "target": tgt, "history": hist, "compiler_output": r.stderr[:1500]})
        evals += 1
        distinct.add(("global_qualifier", hist))
        up = unqualified_pointers(forms["opencl"])
        if up:
            violations.append({"case_key": "opencl:pointer_without_global", "history": hist, "examples": up[:5]})
    samples.append({"classes": [c.__name__ for c in classes], "source_chars": len(full), "opencl_excerpt": forms["opencl"][:500]})
    return {"evaluations": evals, "distinct": sorted(map(list, distinct)), "violations": violations, "samples": samples}


def bounded_c15(tier, seed):
    from . import common

    evals, distinct, violations, samples = 0, set(), [], []
    # the generator is a process-wide piece of code: each order of uses runs in an interpreter of its own
    for order in (["fresh", "after-bare-declarations", "after-cpu-build"], ["after-bare-declarations", "fresh"], ["after-cpu-build", "fresh"]):
        if os.environ.get("VERIF_NO_ISOLATE") or order[0] == "fresh":
            st, r = "ok", c15_history(tier, seed, order)
        else:
            st, r = common.isolated_call("checks.specsrc_native", "c15_history", {"tier": tier, "seed": seed, "order": order})
        if st != "ok":
            if st == "error" and "/xobjects/" not in r:
                raise RuntimeError("bounded part failed:\n" + r)
            violations.append({"case_key": "native:" + st, "history": "+".join(order), "problem": (r if isinstance(r, str) else json.dumps(r))[-1500:]})
            continue
        evals += r["evaluations"]
        distinct |= {tuple(x) for x in r["distinct"]}
        violations += r["violations"]
        samples += r["samples"][:1] if not samples else []
    return {
        "evaluations": evals, "distinct_nontrivial": len(distinct),
        "rule": "accessor source of every class of the grammar slice (dependency-sorted, concatenated), specialised for the 4 targets: "
                "token identity after deleting qualifier keywords, host syntax check with the keywords defined away, every pointer type "
                "of the OpenCL form carries __global; in three orders of use of the generator, each in its own interpreter (fresh; after the "
                "bare-configuration declarations a CPU context asks for; after a complete CPU build); distinct by (check, target, history)",
        "exhaustive": False, "violations": _by_key(violations), "samples": samples,
    }


def _by_key(violations, cap=12):
    """one representative per case key (known findings must not crowd out new violations)"""
    seen = {}
    for v in violations:
        seen.setdefault(v.get("case_key"), v)
    return list(seen.values())[:cap]
