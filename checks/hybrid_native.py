"""Bounded native parts of C18 and C19 (never counted as proved; no deductive obligations exist for hybrid_class.py: descriptors,
computed attribute names and __dict__.update are outside the python subset of pyvc -- DESIGN 2.3).

C18 run-time contract DressInv(h), checked after every operation of every history up to the stated length:
    every attribute of h equals the buffer data of the corresponding (possibly renamed) field of h._xobject;
    array attributes alias the buffer; a nested hybrid attribute wraps a view AT the field of h's own xobject (same buffer, the
    field's address), recursively; a reference attribute wraps the referent.
  plus the operation contracts: nested assignment stores an independent copy, reference assignment shares (refused across buffers),
  copy is independent and equal, move relocates with equal value and is refused for nested objects and objects with references.
C19: H.from_dict(h.to_dict()) equals h field by field (values equal to defaults are omitted from the dict); T(x._to_json())
  reproduces x for reference-free structs and 1-d arrays.
"""
import itertools
import random

import numpy as np

from . import grammar
from .objects_native import plain, eq


def classes(X, tag):
    HA = type(f"{tag}HA", (X.HybridClass,), {
        "_xofields": {"x": X.Float64, "n": X.Int64, "v": X.Float64[:], "name": X.String},
        "_rename": {"n": "count"}})
    HB = type(f"{tag}HB", (X.HybridClass,), {
        "_xofields": {"a": HA, "m": X.Int32[2, 3], "k": X.Int8},
        "_rename": {"a": "alpha"}})
    HC = type(f"{tag}HC", (X.HybridClass,), {
        "_xofields": {"b": HB, "r": X.Ref[HA], "z": X.Float64}})
    HD = type(f"{tag}HD", (X.HybridClass,), {   # defaults for C19
        "_xofields": {"p": X.Field(X.Float64, default=1.5), "q": X.Field(X.Int64, default=7), "w": X.Float64[:], "inner": HA,
                      "f": X.Field(X.Float32, default_factory=lambda: 2.0)}})
    return HA, HB, HC, HD


def mk_a(HA, rnd, buf=None):
    # fixed sizes of the dynamic parts, so that one value fits in place of another (assignments of fitting values)
    return HA(x=rnd.choice([0.5, 1.5, -3.0]), count=rnd.randrange(10), v=[rnd.random() for _ in range(2)],
              name=rnd.choice(["ab", "cd", "xy"]), _buffer=buf)


def model_of(X, h):
    """expected attribute values, read from the xobject (the buffer data)"""
    out = {}
    cls = type(h)
    for f in cls._XoStruct._fields:
        pyname = cls._rename.get(f.name, f.name)
        out[pyname] = plain(X, getattr(h._xobject, f.name)) if not X.ref.is_ref(f.ftype) else (None if getattr(h._xobject, f.name) is None else plain(X, getattr(h._xobject, f.name)))
    return out


def attr_value(X, v):
    if isinstance(v, X.HybridClass):
        return {pn: attr_value(X, getattr(v, pn)) for pn in type(v)._fields}
    if isinstance(v, np.ndarray):
        return v.tolist()
    if hasattr(v, "_buffer"):
        return plain(X, v)
    return v


def dress_inv(X, h, path="h"):
    """list of violated clauses of DressInv(h)"""
    bad = []
    cls = type(h)
    for f in cls._XoStruct._fields:
        pyname = cls._rename.get(f.name, f.name)
        try:
            av = getattr(h, pyname)
            xv = getattr(h._xobject, f.name)
        except Exception as e:  # noqa
            bad.append(f"{path}.{pyname}: raised {type(e).__name__}: {e}")
            continue
        if isinstance(av, X.HybridClass):
            if xv is None:
                bad.append(f"{path}.{pyname}: dressed object for a null field")
                continue
            if av._xobject._buffer is not h._xobject._buffer or av._xobject._offset != xv._offset:
                bad.append(f"{path}.{pyname}: dressed part wraps ({id(av._xobject._buffer) % 1000}, {av._xobject._offset}), the field of this object is at "
                           f"({id(h._xobject._buffer) % 1000}, {xv._offset})")
            bad += dress_inv(X, av, f"{path}.{pyname}")
        else:
            if not eq(_num(attr_value(X, av)), _num(plain(X, xv) if hasattr(xv, "_buffer") else xv)):
                bad.append(f"{path}.{pyname}: attribute {attr_value(X, av)!r} differs from buffer data {plain(X, xv) if hasattr(xv, '_buffer') else xv!r}")
            if isinstance(av, np.ndarray) and av.size:
                old = av.flat[0]
                av.flat[0] = old + 1
                now = getattr(h._xobject, f.name)
                idx = (0,) * av.ndim
                got = now[idx if av.ndim > 1 else 0]
                av.flat[0] = old
                if got != old + 1:
                    bad.append(f"{path}.{pyname}: array attribute does not alias the buffer")
    return bad


def _num(v):
    if isinstance(v, list):
        return [_num(x) for x in v]
    if isinstance(v, (np.generic, int, float)) and not isinstance(v, bool):
        return float(v)
    if isinstance(v, dict):
        return {k: _num(x) for k, x in v.items()}
    return v


def run_c18(tier, seed):
    X = grammar.xo()
    rnd = random.Random(seed)
    HA, HB, HC, HD = classes(X, grammar.uniq("H"))
    evals = 0
    distinct = set()
    violations = []

    def bad(key, **kw):
        if len(violations) < 400:
            violations.append({"case_key": key, **kw})

    def check(h, hist, label="h"):
        nonlocal evals
        evals += 1
        b = dress_inv(X, h, label)
        if b:
            bad("DressInv:" + _shape_of(b[0]), history=list(hist), problems=b[:3])
            return False
        return True

    ops = ["assign_nested_larger", "set_scalar", "set_renamed", "set_array_elem", "set_string", "assign_nested", "assign_nested_nested_write", "assign_ref_same", "assign_ref_other",
           "copy", "move", "move_nested", "move_with_ref", "set_none_ref", "move_nested_of_rebuilt", "grow_then_write_arrays", "assign_nested_other_split", "move_nested_after_assigning_a_rebuilt_value"]
    L = 2 if tier == "quick" else 3
    hists = list(itertools.product(ops, repeat=L))
    rnd.shuffle(hists)
    hists = hists[: (120 if tier == "quick" else 1200)] + [(o,) for o in ops]
    for hist in hists:
        buf = X.ContextCpu().new_buffer(rnd.choice([64, 4096]))
        a0 = mk_a(HA, rnd, buf)
        b0 = HB(alpha=mk_a(HA, rnd), m=np.arange(6).reshape(2, 3), k=3, _buffer=buf)
        c = HC(b=b0, r=a0, z=2.5, _buffer=buf)
        distinct.add(hist)
        if not check(c, ("init",)):
            continue
        done = []
        for op in hist:
            done.append(op)
            try:
                if op == "set_scalar":
                    c.z = rnd.random()
                    c.b.k = rnd.randrange(100)
                elif op == "set_renamed":
                    c.b.alpha.count = rnd.randrange(1000)
                    if c.b._xobject.a.n != c.b.alpha.count:
                        bad("rename:write-not-in-buffer", history=done)
                elif op == "set_array_elem":
                    c.b.m[1, 2] = rnd.randrange(100)
                    c.b.alpha.v[0] = rnd.random()
                elif op == "grow_then_write_arrays":
                    # array attributes looked at before the buffer is enlarged (and its storage replaced) still mirror the buffer afterwards:
                    # a write through the attribute reaches the buffer, a write to the buffer shows in the attribute
                    c.b.m, c.b.alpha.v  # noqa  (touch)
                    store0 = c._buffer.buffer
                    for _ in range(3):
                        c._buffer.allocate(c._buffer.capacity + 8)
                    if c._buffer.buffer is store0:
                        bad("growth:storage-not-replaced", history=done)
                    nv, nw = rnd.randrange(1, 100), rnd.random() + 1.0
                    c.b.m[1, 2] = nv
                    c.b.alpha.v[0] = nw
                    if c._xobject.b.m[1, 2] != nv or c._xobject.b.a.v[0] != nw:
                        bad("array-attribute:write-after-growth-not-in-buffer", history=done)
                    c._xobject.b.m[0, 1] = nv + 1
                    jl = len(c.b.alpha.v) - 1
                    c._xobject.b.a.v[jl] = nw + 1.0
                    if c.b.m[0, 1] != nv + 1 or c.b.alpha.v[jl] != nw + 1.0:
                        bad("array-attribute:buffer-write-after-growth-not-visible", history=done)
                elif op == "assign_nested_other_split":
                    # a value of the same total size whose dynamic parts are split differently (shorter array, longer text): the nested
                    # attribute must follow the new layout -- read and write through it, compare with the buffer
                    cur = c.b.alpha
                    sz = cur._xobject._size
                    cands = [HA(x=7.0, count=5, v=[0.25] * nv, name="q" * nn) for nv in range(0, 6) for nn in range(0, 30, 7)]
                    cands = [k for k in cands if k._xobject._size == sz and len(k.v) != len(cur.v) and len(k.v) >= 1]
                    if cands:
                        newv = cands[0]
                        want = attr_value(X, newv)
                        c.b.alpha = newv
                        if not eq(_num(attr_value(X, c.b.alpha)), _num(want)):
                            bad("nested-assign:other-split:value", history=done, got=repr(attr_value(X, c.b.alpha))[:160], want=repr(want)[:160])
                        if len(c.b.alpha.v):
                            c.b.alpha.v[len(c.b.alpha.v) - 1] = 123.5
                            if c._xobject.b.a.v[len(c.b.alpha.v) - 1] != 123.5:
                                bad("nested-assign:other-split:write-not-in-buffer", history=done)
                        if c.b.alpha.name != "q" * len(newv.name) or c._xobject.b.a.name != c.b.alpha.name:
                            bad("nested-assign:other-split:text", history=done, got=c.b.alpha.name)
                elif op == "set_string":
                    c.b.alpha.name = rnd.choice(["", "z", "yy"])[: len(c.b.alpha.name)]
                elif op in ("assign_nested", "assign_nested_nested_write"):
                    b2 = HB(alpha=mk_a(HA, rnd), m=np.arange(6).reshape(2, 3) * 2, k=9)
                    b2.alpha.v  # touch
                    want = attr_value(X, b2)
                    c.b = b2
                    if not eq(_num(attr_value(X, c.b)), _num(want)):
                        bad("nested-assign:value", history=done)
                    if op == "assign_nested_nested_write":
                        c.b.alpha.x = 4242.0
                        if b2.alpha.x == 4242.0:
                            bad("nested-assign:write-reaches-source", history=done)
                        if c._xobject.b.a.x != 4242.0:
                            bad("nested-assign:write-not-in-own-buffer", history=done)
                    else:
                        b2.k = 55
                        if c.b.k == 55:
                            bad("nested-assign:not-independent", history=done)
                elif op == "assign_nested_larger":
                    big = HA(x=1.0, count=1, v=[0.5] * 12, name="ab")
                    b3 = HB(alpha=big, m=np.arange(6).reshape(2, 3), k=4)
                    before_k, before_z = c.b.k, c.z
                    want_a = attr_value(X, c.b.alpha)
                    for target, val in ((c, ("b", b3)), (c.b, ("alpha", big))):
                        try:
                            setattr(target, val[0], val[1])
                            bad("nested-assign:larger-accepted", history=done, field=val[0])
                        except Exception:  # noqa  (refused)
                            pass
                    # (whether a refused assignment may leave a partial update behind is C11's question, not C18's)
                    if c.b.k != before_k or c.z != before_z:
                        bad("nested-assign:larger-corrupts-siblings", history=done)
                elif op == "assign_ref_same":
                    a2 = mk_a(HA, rnd, buf)
                    c.r = a2
                    a2.x = 77.0
                    if c.r.x != 77.0 or c._xobject.r._offset != a2._xobject._offset:
                        bad("ref-assign:not-shared", history=done)
                elif op == "assign_ref_other":
                    a3 = mk_a(HA, rnd)
                    try:
                        c.r = a3
                        bad("ref-assign:accepted-across-buffers", history=done)
                    except Exception:  # noqa  (refused: the statement does not name the error class)
                        pass
                    c.r = a0
                elif op == "set_none_ref":
                    c.r = None
                    if c._xobject.r is not None:
                        bad("ref-assign:none", history=done)
                    c.r = a0
                elif op == "copy":
                    want = attr_value(X, c.b)
                    cp = c.b.copy()
                    if not eq(_num(attr_value(X, cp)), _num(want)) or cp._buffer is c._buffer and cp._offset == c.b._offset:
                        bad("copy:value", history=done)
                    cp.k = (cp.k + 1) % 100
                    cp.alpha.x = -1.0
                    if c.b.k == cp.k or c.b.alpha.x == -1.0:
                        bad("copy:not-independent", history=done)
                    check(cp, done + ["<copy>"], "copy")
                elif op == "move":
                    top = HB(alpha=mk_a(HA, rnd), m=np.arange(6).reshape(2, 3), k=1)
                    want = attr_value(X, top)
                    nb = X.ContextCpu().new_buffer(16)
                    top.move(_buffer=nb)
                    if top._buffer is not nb or top.alpha._buffer is not nb or not eq(_num(attr_value(X, top)), _num(want)):
                        bad("move:relocated-equal", history=done)
                    check(top, done + ["<moved>"], "moved")
                elif op == "move_nested":
                    for tgt in (X.ContextCpu().new_buffer(16), c._buffer, None):  # another buffer, its own buffer, a fresh default buffer
                        try:
                            c.b.move(_buffer=tgt)
                            bad("move:nested-accepted", history=done, target="other" if tgt is not None and tgt is not c._buffer else ("own" if tgt is not None else "default"))
                        except Exception:  # noqa  (refused: the statement does not name the error class)
                            pass
                elif op == "move_nested_of_rebuilt":
                    # containers that were not assembled from dressed parts: a copy, a re-dressed xobject, a dictionary round trip --
                    # their nested parts live within them all the same, so moving one out is refused
                    routes = {"copy": lambda: c.b.copy(), "xobject": lambda: type(c.b)(_xobject=c.b._xobject),
                              "dict": lambda: type(c.b).from_dict(c.b.to_dict()), "values": lambda: HB(a={"x": 1.0, "n": 2, "v": [1.0, 2.0], "name": "q"}, m=np.arange(6).reshape(2, 3), k=1)}
                    for rn, mk in routes.items():
                        try:
                            cont = mk()
                            inner = cont.alpha
                        except Exception:  # noqa  (this way of building the container is not what is tested here)
                            continue
                        try:
                            inner.move(_buffer=X.ContextCpu().new_buffer(16))
                            bad("move:nested-accepted", history=done, container_built_by=rn)
                        except Exception:  # noqa  (refused)
                            pass
                elif op == "move_nested_after_assigning_a_rebuilt_value":
                    # the value assigned to a non-reference field may itself come from copy() / a re-dressed xobject / a dictionary round
                    # trip / a move: stored as an independent copy *within* the container, the nested part still cannot be moved out
                    routes = {"copy": lambda: c.b.copy(), "copy_of_copy": lambda: c.b.copy().copy(), "xobject": lambda: type(c.b)(_xobject=c.b.copy()._xobject),
                              "dict": lambda: type(c.b).from_dict(c.b.to_dict()), "moved": lambda: _moved(c.b.copy(), X)}
                    for rn, mk in routes.items():
                        try:
                            val = mk()
                            want_b = attr_value(X, val)
                            c.b = val
                        except Exception:  # noqa  (this way of building / assigning the value is not what is tested here)
                            continue
                        if not eq(_num(attr_value(X, c.b)), _num(want_b)):
                            bad("nested-assign:value-from-" + rn, history=done)
                        for tgt in (X.ContextCpu().new_buffer(16), None):
                            try:
                                c.b.move(_buffer=tgt)
                                bad("move:nested-accepted", history=done, value_built_by=rn)
                            except Exception:  # noqa  (refused)
                                pass
                        if not check(c, done + [f"<assigned {rn}>"]):
                            break
                elif op == "move_with_ref":
                    for tgt in (X.ContextCpu().new_buffer(16), c._buffer, None):
                        try:
                            c.move(_buffer=tgt)
                            bad("move:with-refs-accepted", history=done, target="other" if tgt is not None and tgt is not c._buffer else ("own" if tgt is not None else "default"))
                        except Exception:  # noqa  (refused: the statement does not name the error class)
                            pass
            except Exception as e:  # noqa
                bad(f"raised:{op}:{type(e).__name__}", history=done, problem=str(e)[:200])
                break
            if not check(c, done):
                break
    return {
        "evaluations": evals, "distinct_nontrivial": len(distinct),
        "rule": f"generated hybrid classes (scalars, string, scalar arrays 1-d/2-d, nested hybrid, nested-in-nested, Ref to hybrid, renamed fields); every history of length <= {L} "
                f"(sampled: {len(hists)}) over {len(ops)} operations; DressInv and the operation contract after every step; distinct by history",
        "exhaustive": False, "violations": _by_key(violations), "samples": [{"history": list(hists[0])}],
    }


def _moved(h, X):
    h.move(_buffer=X.ContextCpu().new_buffer(16))
    return h


def _shape_of(msg):
    p = msg.split(":")[0]
    return "nested-nested" if p.count(".") >= 3 else ("nested" if p.count(".") == 2 else "top")


def hyb_eq(X, a, b):
    return eq(_num(attr_value(X, a)), _num(attr_value(X, b)))


def run_c19(tier, seed):
    X = grammar.xo()
    rnd = random.Random(seed)
    samples = []
    HA, HB, HC, HD = classes(X, grammar.uniq("J"))
    evals = 0
    distinct = set()
    violations = []

    def bad(key, **kw):
        if len(violations) < 400:
            violations.append({"case_key": key, **kw})

    def dirty_buffer(n=512):
        # memory that was used before: a region filled with a pattern and given back to the allocator
        buf = X.ContextCpu().new_buffer(n)
        o = buf.allocate(n - 16)
        buf.update_from_buffer(o, b"\xab" * (n - 16))
        buf.free(o, n - 16)
        return buf

    # ---- rebuilt in memory that was used before: omitted fields (equal to their defaults) must come back as the defaults
    HP = type(grammar.uniq("JP"), (X.HybridClass,), {"_xofields": {"a": X.Float64[4], "n": X.Int32[3], "k": X.Int64, "s": X.Float64, "m": X.Int16[2, 2],
                                                                 "d": X.Field(X.Float64[2], default=[1.0, 2.0])}})
    for av, nv, kv, sv, mv, dv in (([0.0] * 4, [0] * 3, 0, 0.0, [[0, 0], [0, 0]], [1.0, 2.0]), ([1.0, 0.0, 0.0, 2.0], [0, 0, 5], 3, 0.0, [[0, 1], [0, 0]], [0.0, 0.0]),
                                   ([0.0] * 4, [1, 2, 3], 0, 2.5, [[0, 0], [0, 0]], [1.0, 2.0])):
        evals += 1
        distinct.add(("dirty", repr((av, nv, kv, sv))))
        try:
            h = HP(a=av, n=nv, k=kv, s=sv, m=mv, d=dv)
            dct = h.to_dict()
            h2 = HP.from_dict({k: v for k, v in dct.items() if k != "__class__"}, _buffer=dirty_buffer())
            if not hyb_eq(X, h, h2):
                bad("dict:value:rebuilt-in-used-memory", cls="HP", original=repr(attr_value(X, h))[:200], rebuilt=repr(attr_value(X, h2))[:200], dictionary=repr(dct)[:200])
        except Exception as e:  # noqa
            bad(f"dict:raised:rebuilt-in-used-memory:{type(e).__name__}", problem=str(e)[:200])
    # ---- a nested hybrid field for which the enclosing class declares its own default (or default factory), other than the nested
    # class's defaults: nested values equal to the nested class's defaults must survive the round trip
    In_ = type(grammar.uniq("JI"), (X.HybridClass,), {"_xofields": {"a": X.Int64, "b": X.Field(X.Float64, default=1.5), "c": X.Field(X.Int32, default_factory=lambda: 7)}})
    OutD = type(grammar.uniq("JO"), (X.HybridClass,), {"_xofields": {"n": X.Field(X.Int32, default=4), "inner": X.Field(In_._XoStruct, default={"a": 3, "b": 2.5, "c": 9})}})
    OutF = type(grammar.uniq("JF"), (X.HybridClass,), {"_xofields": {"n": X.Int32, "inner": X.Field(In_._XoStruct, default_factory=lambda: {"a": -1, "c": 0})}})
    for OC in (OutD, OutF):
        for av, bv, cv in ((0, 1.5, 7), (3, 2.5, 9), (-1, 1.5, 0), (0, 0.0, 7), (11, 1.5, 7)):
            evals += 1
            distinct.add((OC.__name__, av, bv, cv))
            try:
                h = OC(n=4, inner=In_(a=av, b=bv, c=cv))
                dct = h.to_dict()
                h2 = OC.from_dict({k: v for k, v in dct.items() if k != "__class__"})
                if not hyb_eq(X, h, h2):
                    bad("dict:value:nested-field-with-enclosing-default", cls=OC.__name__, original=repr(attr_value(X, h))[:200], rebuilt=repr(attr_value(X, h2))[:200], dictionary=repr(dct)[:200])
            except Exception as e:  # noqa
                bad(f"dict:raised:nested-field-with-enclosing-default:{type(e).__name__}", problem=str(e)[:200])
    # ---- hybrid dictionaries
    for rep in range(20 if tier == "quick" else 200):
        a = mk_a(HA, rnd)
        b = HB(alpha=mk_a(HA, rnd), m=np.arange(6).reshape(2, 3) + rep, k=rnd.randrange(100))
        # values equal to the declared defaults, clearly different, and different by the last few bits / units (an "approximately the
        # default" test in to_dict would drop them)
        d = HD(p=rnd.choice([1.5, 0.0, 2.0, 1.5 + 1e-9, 1.5000001]), q=rnd.choice([7, 0, 3, 8, 6]), w=[1.0] * rnd.choice([0, 1, 3]), inner=mk_a(HA, rnd),
               f=rnd.choice([2.0, 0.0, 5.0, float(np.float32(2.0) + np.float32(2.5e-7))]))
        for h in (a, b, d):
            evals += 1
            distinct.add((type(h).__name__, repr(attr_value(X, h))[:120]))
            try:
                dct = h.to_dict()
                h2 = type(h).from_dict({k: v for k, v in dct.items() if k != "__class__"})
            except Exception as e:  # noqa
                bad(f"dict:raised:{type(h).__name__}:{type(e).__name__}", problem=str(e)[:200])
                continue
            if len(samples) < 2 and h is d:
                samples.append({"class": type(h).__name__, "dictionary": repr(dct)[:300]})
            try:
                h3 = type(h).from_dict({k: v for k, v in dct.items() if k != "__class__"}, _buffer=dirty_buffer())
                if hyb_eq(X, h, h2) and not hyb_eq(X, h, h3):
                    bad("dict:value:rebuilt-in-used-memory", cls=type(h).__name__, original=repr(attr_value(X, h))[:200], rebuilt=repr(attr_value(X, h3))[:200], dictionary=repr(dct)[:200])
            except Exception as e:  # noqa
                bad(f"dict:raised:rebuilt-in-used-memory:{type(e).__name__}", problem=str(e)[:200])
            if not hyb_eq(X, h, h2):
                nested_renamed = any(hasattr(f.ftype, "_DressingClass") and f.ftype._DressingClass._rename for f in type(h)._XoStruct._fields)
                bad(f"dict:value:{'nested-hybrid-with-renamed-field' if nested_renamed else 'plain'}", cls=type(h).__name__, original=repr(attr_value(X, h))[:200], rebuilt=repr(attr_value(X, h2))[:200], dictionary=repr(dct)[:200])
            if h is d:
                for nm, dv in (("p", 1.5), ("q", 7), ("f", 2.0)):
                    if (getattr(d, nm) == dv) != (nm not in dct):
                        bad("dict:default-elision", field=nm, value=repr(float(getattr(d, nm))), in_dict=nm in dct)
    # ---- a derived class re-declaring a field with another default, after the base class has been serialised
    Base = type(grammar.uniq("JB"), (X.HybridClass,), {"_xofields": {"order": X.Field(X.Int64, default=1), "gain": X.Field(X.Float64, default=2.0)}})
    Derived = type(grammar.uniq("JD"), (Base,), {"_xofields": {"order": X.Field(X.Int64, default=5), "gain": X.Field(X.Float64, default=2.0)}})
    Base(order=3).to_dict()
    for ov, gv in ((1, 2.0), (5, 2.0), (0, 0.0), (3, 1.0)):
        hd = Derived(order=ov, gain=gv)
        evals += 1
        distinct.add(("derived", ov, gv))
        try:
            dct = hd.to_dict()
            h2 = Derived.from_dict({k: v for k, v in dct.items() if k != "__class__"})
            if h2.order != ov or h2.gain != gv:
                bad("dict:value:derived-class-defaults", order=ov, gain=gv, rebuilt=(int(h2.order), float(h2.gain)), dictionary=repr(dct)[:160])
            if ("order" in dct) != (ov != 5) or ("gain" in dct) != (gv != 2.0):
                bad("dict:default-elision:derived-class", order=ov, gain=gv, dictionary=repr(dct)[:160])
        except Exception as e:  # noqa
            bad(f"dict:raised:derived:{type(e).__name__}", problem=str(e)[:200])
    # ---- json: zero / empty values in fields with non-zero defaults
    Knob = grammar.mkstruct(grammar.uniq("JK"), {"scale": X.Field(X.Float64, default=1.0), "n": X.Field(X.Int32, default=3), "label": X.String, "w": X.Float64[:]})
    for sc, nn, lb, ww in ((0.0, 0, "", []), (1.0, 3, "a", [0.0]), (2.5, 0, "", [1.0, 2.0]), (0.0, 7, "zz", [])):
        evals += 1
        distinct.add(("knob", sc, nn, lb, len(ww)))
        try:
            x = Knob(scale=sc, n=nn, label=lb, w=ww)
            js = x._to_json()
            y = Knob(**js)
            if not eq(plain(X, x), plain(X, y)):
                bad("json:value:zero-or-empty-fields", original=repr(plain(X, x))[:160], rebuilt=repr(plain(X, y))[:160], json=repr(js)[:160])
        except Exception as e:  # noqa
            bad(f"json:raised:zero-or-empty-fields:{type(e).__name__}", problem=str(e)[:200], value=(sc, nn, lb, ww))
    # ---- json form of reference-free structs and 1-d arrays
    sl = grammar.Slice(tier)
    def only_1d(c):
        """the JSON form covers structs and one-dimensional arrays: no N-d array anywhere inside"""
        if X.array.is_array(c):
            return len(c._shape) == 1 and only_1d(c._itemtype)
        if X.struct.is_struct(c):
            return all(only_1d(f.ftype) for f in c._fields)
        return True
    cands = [c for c in sl.roots if (X.struct.is_struct(c) or X.array.is_array(c)) and only_1d(c) and not getattr(c, "_has_refs", False)]
    for cls in cands:
        for rep in range(3 if tier == "quick" else 12):
            val = sl.value(cls, rnd)
            try:
                x = cls(**val) if isinstance(val, dict) else cls(val)
                js = x._to_json()
                y = cls(**js) if isinstance(js, dict) else cls(js)
                evals += 1
                distinct.add((cls.__name__, repr(val)[:100]))
                if not eq(plain(X, x), plain(X, y)):
                    bad(f"json:value:{grammar_key(X, cls)}", cls=cls.__name__, original=repr(plain(X, x))[:200], rebuilt=repr(plain(X, y))[:200])
            except Exception as e:  # noqa
                bad(f"json:raised:{grammar_key(X, cls)}:{type(e).__name__}", cls=cls.__name__, problem=str(e)[:200])
    return {
        "evaluations": evals, "distinct_nontrivial": len(distinct),
        "rule": "hybrid classes with/without defaults and default factories, renamed fields, nested hybrids, values incl. values equal to the defaults: "
                "from_dict(to_dict(h)) == h and default elision; reference-free structs and 1-d arrays of the grammar slice: T(x._to_json()) == x; distinct by (class, value)",
        "exhaustive": False, "violations": _by_key(violations), "samples": samples,
    }


def grammar_key(X, cls):
    from .objects_native import type_key

    return type_key(X, cls)


def _by_key(violations, cap=12):
    """one representative per case key (known findings must not crowd out new violations)"""
    seen = {}
    for v in violations:
        seen.setdefault(v.get("case_key"), v)
    return list(seen.values())[:cap]
