"""C16: vectorised blocks run once per index on every target (specialize_source transducer + launch arithmetic)."""
from . import common, specsrc_vc, specsrc_native


class SpecSrcCheck:
    CONTRACT_MODULES = []
    LEVEL = "proof"
    PROP = "C16"
    TRUSTED = [
        "string axioms for abstract source lines (checks/specsrc_vc.py): a line from str.splitlines has no newline; tokens of "
        "str.split() carry no blanks; `marker in line` and the tokens after a marker are observations fixed by the line shape; "
        "str.replace is uninterpreted",
        "C semantics of the emitted loop constructs: `for (int v=0; v<lim; v++){..}` runs the body once per v in [0,lim); "
        "`v=get_global_id(0)` / `v=blockDim.x*blockIdx.x+threadIdx.x; if (v<lim){..}` run it once per work-item with v < lim",
        "float division and np.ceil in the CUDA grid computation treated as exact rational arithmetic (n_threads < 2^53)",
        "the launch call passes (grid,), (block,) / (n_threads,) to a runtime that starts exactly that many work-items (no device here)",
    ]
    ASSUMPTIONS = [
        "annotation lines are well formed: `//vectorize_over <var> <lim>` has exactly two tokens, include lines contain ' for_context '",
        "include lines naming the target (file access) are outside the deductive subset: covered only by the bounded native part",
        "kernel bodies do not assign the loop variable; OpenMP scheduling and real OpenCL/CUDA runtimes are not modelled (not applicable: no device)",
        "the bounded native part (real ContextCpu runs, host simulation of the GPU forms) is a cross-check, not part of the proof",
    ]
    EXPLANATION = (
        "Proved on the real specialize_source (symbolic execution over an abstract list of lines, both loops cut at invariants): for "
        "each of the four targets and each shape of line the output is the expansion prescribed by the property (CPU for-loop, OpenCL "
        "work-item id, CUDA guarded id; context-restricted lines commented out unless the target is named; include lines for other "
        "contexts add nothing; every other line unchanged), the block state bit is maintained, and the result is the four placeholder "
        "replacements applied to the joined lines. Proved on the launch code: the CUDA grid computed in KernelCupy.__call__ covers every "
        "index of [0,n) exactly once and is empty for n = 0; the OpenCL global size is n."
    )

    def targets(self):
        return specsrc_vc.targets("C16")

    def bounded(self, tier, seed, focus):
        return specsrc_native.bounded_c16(tier, seed)

    def find_counterexample(self, ob, seed):
        if "_cex" not in self.__dict__:
            st, r = common.isolated_call("checks.specsrc_native", "bounded_c16", {"tier": "thorough", "seed": seed})
            v = r.get("violations") if st == "ok" else None
            self._cex = dict(v[0], script=REPLAY) if v else None
        return self._cex

    def reproduce_known(self, k):
        return None


REPLAY = ("import sys; sys.path.insert(0, '/verif')\nfrom checks import specsrc_native\n"
          "r = specsrc_native.bounded_c16('thorough', 0)\nprint(r['violations'][:1])\n")
