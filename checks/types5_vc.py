"""Array._to_buffer, the value forms the generic-sequence groups (array_writer, array_writer_dynamic_items) do not take:

no_value_number_items    value None (the array was built from its dimensions) and items of a number type: only the header words are
                         written -- at the documented positions, as in the other forms -- and nothing outside [o, o + size) changes,
                         wherever the object is placed (o is any offset, not assumed a multiple of 8);
same_class_object        value an object of the same class, reference-free class: refused unless the sizes agree; otherwise the bytes
                         of the source object arrive at [o, o + size) and nothing outside changes; the source buffer is not written.
Rank 1..3 x every dynamic-dimension mask; every axis order for the first form, the natural order for the second (the image copy
does not look at the order).  (An ndarray value goes through update_from_nplike, whose
contract is proved under C13 but is not part of the word model of the type layer: bounded part only.)
"""
import z3

from . import types_vc as T
from . import types2_vc as T2
from pyvc.core import SymObj, PList, fresh_int, State, HARNESS_ERRORS
from pyvc import xbuf as XB

ARR = T.ARR


def vc_array_writer_other_forms():
    from contracts import capi as K

    obs = []
    its = []
    con = T._contract(ARR, "Array._to_buffer", [])
    for rank, mask in K.array_masks():
        for order in T.perms(rank):
            for form in ("no_value_number_items", "same_class_object"):
                if form == "same_class_object" and list(order) != list(range(rank)):
                    continue  # the image copy does not look at the axis order: one order per rank / mask
                lab = f"{'x'.join('N' if m else 's' for m in mask)}:order{''.join(map(str, order))}:{form}"
                it = T.new_interp()
                its.append(it)
                it.class_home.update({"Array": ARR, "NumpyScalar": "xobjects/scalar.py"})
                i64 = T.int64_scalar()
                it.extern_names = {"Int64": i64}
                XB.install_int64(it, i64)
                st0 = State()
                cls = T.array_class(st0, rank, mask, True, order)
                sp = cls.spec
                w, D, ndyn = sp["w"], sp["D"], sp["ndyn"]
                cls.attrs["_itemtype"].absent = {"_dtype", "_update"}
                cls.attrs["_has_refs"] = form.endswith("with_refs")
                shape = [sp["dims"][k] if not mask[k] else fresh_int(f"n{k}") for k in range(rank)]
                n_items = T.prod(shape)
                strides = T.doc_strides(shape, order, w)
                size = T.slot_int(D + w * n_items) if cls.attrs["_size"] is None else cls.attrs["_size"]
                buf, sbuf = XB.XBuf("buf"), XB.XBuf("source")
                o, so, ssize = fresh_int("offset"), fresh_int("source_offset"), fresh_int("source_size")
                if form == "no_value_number_items":
                    val = None
                else:
                    val = SymObj("instance", {"__class__": cls, "_buffer": sbuf, "_offset": so, "_size": ssize})
                    val.closed = True
                info = SymObj("Info", {"size": size, "shape": tuple(shape), "strides": tuple(strides), "order": PList(list(order)), "value": val, "items": n_items})
                info.closed = True
                pre = list(st0.pc) + [T.SLOT_AX, o >= 0, buf.cap < 2 ** 62, o + size <= buf.cap, size < 2 ** 62, so >= 0, ssize >= 0, so + ssize <= sbuf.cap, sbuf.cap < 2 ** 62]
                pre += [s >= 0 for s in shape] + [s < 2 ** 62 for s in shape] + [s < 2 ** 62 for s in strides]
                if cls.attrs["_size"] is not None:
                    pre.append(cls.attrs["_size"] == T.slot_int(w * n_items))

                def ov_is_scalar(i, st, f, a, k, n):
                    yield st, True
                it.overrides[("xobjects/scalar.py", "is_scalar")] = ov_is_scalar
                m0, s0 = buf.mem, sbuf.mem
                try:
                    for st, out in it.exec_function(con, {"cls": cls, "buffer": buf, "offset": o, "value": val, "info": info}, pre=pre):
                        b = it._relocate(st, buf)
                        sb = it._relocate(st, sbuf)
                        ob = lambda c, g: it.oblige(st, "post", f"{c}[{lab}]", g if not isinstance(g, bool) else z3.BoolVal(g))
                        raised = out is not None and out[0] == "raise"
                        wr = [r for r in getattr(st, "recorded", []) if r[0] == "write"]
                        if form == "same_class_object_with_refs":
                            # not this function's byte-copy path: either refused or rebuilt item by item (other groups); never the image copy
                            if not raised:
                                ob("class_with_references_is_not_byte_copied", T.forall_x(lambda x: z3.Implies(z3.Or(x < o, x >= o + D), b.mem[x] == m0[x])) if not wr else True)
                            continue
                        if raised:
                            if form == "same_class_object":
                                ob("refused_only_when_the_sizes_differ", ssize != size)
                                ob("refused_copy_leaves_everything_outside_the_object", T.forall_x(lambda x: z3.Implies(z3.Or(x < o, x >= o + size), b.mem[x] == m0[x])))
                            else:
                                it.oblige(st, "raises", f"never[{lab}]", False, out[2])
                            continue
                        for (old, new, at) in getattr(st, "word_writes", []):
                            XB.same_word(st, new, b.mem, at)
                        ob("frame", T.forall_x(lambda x: z3.Implies(z3.Or(x < o, x >= o + size), b.mem[x] == m0[x])))
                        ob("source_buffer_not_written", z3.eq(sb.mem, s0))
                        ob("no_item_written_through_the_item_type", len(wr) == 0)
                        if form == "no_value_number_items":
                            ob("only_the_header_is_written", T.forall_x(lambda x: z3.Implies(z3.Or(x < o, x >= o + D), b.mem[x] == m0[x])))
                            if cls.attrs["_size"] is None:
                                ob("size_word", XB.W8(b.mem, o) == size)
                            j = 0
                            for a_ in range(rank):
                                if mask[a_]:
                                    ob(f"dim{a_}", XB.W8(b.mem, o + 8 + 8 * j) == shape[a_])
                                    j += 1
                            if ndyn and rank > 1:
                                for a_ in range(rank):
                                    ob(f"stride{a_}", XB.W8(b.mem, o + 8 + 8 * ndyn + 8 * a_) == strides[a_])
                        else:
                            ob("accepted_only_for_equal_sizes", ssize == size)
                            ob("bytes_copied", T.forall_x(lambda x: z3.Implies(z3.And(0 <= x, x < size), b.mem[o + x] == s0[so + x])))
                except HARNESS_ERRORS as e:
                    vc_array_writer_other_forms.undecided.append((lab, str(e)[:160]))
                obs += it.obligations
    vc_array_writer_other_forms.interps = its
    return obs


T.group("array_writer_other_forms", vc_array_writer_other_forms, [(ARR, "Array._to_buffer")], ["C03", "C09", "C05"])
