"""Deductive part of C13: the byte-copy primitives of BufferByteArray / BufferNumpy (xobjects/context_cpu.py) and
XBuffer.update_from_xbuffer (xobjects/context.py) against the storage model of pyvc/storage.py.

For each primitive the real body is executed symbolically on a buffer of symbolic length with symbolic offsets/lengths
satisfying the in-range preconditions; the postcondition is stated over the *whole* byte map (copied bytes equal the
source bytes, every other byte and the length unchanged, source unchanged, results fresh or aliasing as documented).
Level [P/ax]: the proofs are short; the weight is in the library axioms of pyvc/storage.py (slices, copies, frombuffer,
astype, .data, view) which are validated natively by the bounded part.
Also discharges, for both subclasses, the interface contracts of _new_buffer / copy_to_native that the allocator
proof (C04/C12) assumes.
"""
import z3

from pyvc.registry import reg
from pyvc.interp import Interp
from pyvc.core import SymObj, fresh_int, fresh_mem, fresh_bool, fresh_name, PyvcError, Unsupported
from pyvc import storage as S

CPU = "xobjects/context_cpu.py"
CTX = "xobjects/context.py"
KINDS = {"BufferByteArray": "bytearray", "BufferNumpy": "ndarray"}


def _contract(relpath, qualname):
    key = (relpath, qualname)
    if key not in reg.contracts or not getattr(reg.contracts[key], "_c13", False):
        sp = type("spec_" + qualname.replace(".", "_"), (), {"params": {}, "properties": ["C13"]})
        saved = reg.contracts.get(key)
        reg.contract(relpath, qualname)(sp)
        c = reg.contracts[key]
        c._c13 = True
        c.inline = True
        if saved is not None:
            reg.contracts[key] = saved
            return c
    return reg.contracts[key]


def new_interp():
    it = Interp(reg)
    it.class_home = {"BufferByteArray": CPU, "BufferNumpy": CPU, "XBuffer": CTX}
    it.obligations = []
    it.path_counter = {}
    it.overrides = {}
    S.install(it)
    return it


def mkbuf(cls, name="self", ctx=None):
    L = fresh_int(name + "_len")
    sto = S.Sto(KINDS[cls], L, fresh_mem(name + "_mem"))
    o = SymObj(cls, {"buffer": sto, "capacity": L, "context": ctx or SymObj("ContextCpu", {})})
    o.closed = True
    return o, sto, L


def rng(lo, n, L):
    return z3.And(lo >= 0, n >= 0, lo + n <= L)


class Case:
    def __init__(self, cls, meth, label=""):
        self.cls, self.meth, self.label = cls, meth, label
        self.it = new_interp()
        relpath = CTX if meth == "update_from_xbuffer" else CPU
        qual = ("XBuffer." if meth == "update_from_xbuffer" else cls + ".") + meth
        self.con = _contract(relpath, qual)
        self.tag = f"[{cls}{':' + label if label else ''}]"

    def run(self, args, pre, post):
        it = self.it
        saved_key = (self.con.relpath, self.con.qualname)
        n = 0
        for st, out in it.exec_function(self.con, args, pre=pre):
            if n == 0:
                pass
            n += 1
            # preconditions were assumed before execution through `pre` (see below)
            if out is not None and out[0] == "raise":
                it.oblige(st, "raises", f"{out[1]}.never{self.tag}", False, out[2])
                continue
            res = out[1] if out else None
            post(st, res, lambda clause, goal: it.oblige(st, "post", clause + self.tag, goal if not isinstance(goal, bool) else z3.BoolVal(goal)))
        it.n_paths = getattr(it, "n_paths", 0) + n
        return it.obligations


def forall_bytes(f):
    x = z3.Int(fresh_name("x"))
    return z3.ForAll([x], f(x))


def vc_all():
    obs = []
    its = []

    def add(case, args, pre, post):
        case.it.pre_assume = pre
        obs.extend(case.run(args, pre, post))
        its.append(case.it)

    for cls in KINDS:
        kind = KINDS[cls]
        # ---- _new_buffer
        c = Case(cls, "_new_buffer")
        self_, sto, L = mkbuf(cls)
        cap = fresh_int("capacity")

        def post(st, res, ob, sto=sto, cap=cap):
            ok = isinstance(res, S.Sto)
            ob("returns_storage", ok)
            if ok:
                ob("len", res.length_ == cap)
                ob("fresh", res.uid != sto.uid)
                ob("zero_filled", forall_bytes(lambda x: res.mem[x] == 0))
        add(c, {"self": self_, "capacity": cap}, [cap >= 0], post)

        # ---- update_from_native: distinct source and aliasing source
        for alias in (False, True):
            c = Case(cls, "update_from_native", "alias" if alias else "distinct")
            self_, sto, L = mkbuf(cls)
            if alias:
                src, SL = sto, L
            else:
                SL = fresh_int("src_len")
                src = S.Sto(kind, SL, fresh_mem("src_mem"))
            o, so, n = fresh_int("offset"), fresh_int("source_offset"), fresh_int("nbytes")
            m0, s0 = sto.mem, src.mem

            def post(st, res, ob, sto=sto, src=src, o=o, so=so, n=n, m0=m0, s0=s0, L=L, alias=alias):
                b = st.frames[-1].locals["self"].attrs["buffer"]
                ob("same_storage", b.uid == sto.uid)
                ob("len_kept", b.length_ == L)
                ob("bytes", forall_bytes(lambda x: b.mem[x] == z3.If(z3.And(o <= x, x < o + n), s0[so + x - o], m0[x])))
                if not alias:
                    s = st.frames[-1].locals["source"]
                    ob("source_unchanged", s.mem is s0 or z3.eq(s.mem, s0))
            add(c, {"self": self_, "offset": o, "source": src, "source_offset": so, "nbytes": n}, [rng(o, n, L), rng(so, n, SL), L >= 0, SL >= 0], post)

        # ---- to_native / to_bytearray / to_pointer_arg
        for meth in ("to_native", "to_bytearray", "to_pointer_arg"):
            c = Case(cls, meth)
            self_, sto, L = mkbuf(cls)
            o, n = fresh_int("offset"), fresh_int("nbytes")
            m0 = sto.mem

            def post(st, res, ob, sto=sto, o=o, n=n, m0=m0, L=L, meth=meth):
                b = st.frames[-1].locals["self"].attrs["buffer"]
                ob("buffer_unchanged", b.uid == sto.uid and z3.eq(b.mem, m0) and z3.eq(z3.simplify(to_int(b.length_) == L), z3.BoolVal(True)))
                if meth == "to_pointer_arg":
                    if isinstance(res, S.View):
                        ob("covers_slice", z3.And(to_int(res.lo) == o, to_int(res.hi) == o + n) if True else True)
                        ob("aliases_buffer", res.base.uid == sto.uid)
                    else:
                        ok = isinstance(res, S.Sto)
                        ob("returns_bytes", ok)
                        if ok:
                            ob("len", res.length_ == n)
                            ob("content", forall_bytes(lambda x: z3.Implies(z3.And(0 <= x, x < n), res.mem[x] == m0[o + x])))
                    return
                ok = isinstance(res, S.Sto)
                ob("returns_independent_storage", ok and res.uid != sto.uid)
                if ok:
                    ob("len", res.length_ == n)
                    ob("content", forall_bytes(lambda x: z3.Implies(z3.And(0 <= x, x < n), res.mem[x] == m0[o + x])))
                    if meth == "to_bytearray":
                        ob("is_bytearray", res.kind == "bytearray")
            add(c, {"self": self_, "offset": o, "nbytes": n}, [rng(o, n, L), L >= 0], post)

        # ---- copy_to_native (interface contract assumed by XBuffer.grow)
        c = Case(cls, "copy_to_native")
        self_, sto, L = mkbuf(cls)
        DL = fresh_int("dest_len")
        dest = S.Sto(kind, DL, fresh_mem("dest_mem"))
        do, so, n = fresh_int("dest_offset"), fresh_int("source_offset"), fresh_int("nbytes")
        m0, d0 = sto.mem, dest.mem

        def post(st, res, ob, sto=sto, dest=dest, do=do, so=so, n=n, m0=m0, d0=d0, DL=DL):
            d = st.frames[-1].locals["dest"]
            b = st.frames[-1].locals["self"].attrs["buffer"]
            ob("dest_len_kept", d.length_ == DL)
            ob("copied_and_rest", forall_bytes(lambda x: d.mem[x] == z3.If(z3.And(do <= x, x < do + n), m0[so + x - do], d0[x])))
            ob("source_unchanged", z3.eq(b.mem, m0))
        add(c, {"self": self_, "dest": dest, "dest_offset": do, "source_offset": so, "nbytes": n}, [rng(so, n, L), rng(do, n, DL), L >= 0, DL >= 0], post)

        # ---- update_from_buffer (python bytes-like)
        c = Case(cls, "update_from_buffer")
        self_, sto, L = mkbuf(cls)
        n = fresh_int("src_len")
        src = S.Sto("bytes", n, fresh_mem("pybytes"))
        o = fresh_int("offset")
        m0, s0 = sto.mem, src.mem

        def post(st, res, ob, sto=sto, o=o, n=n, m0=m0, s0=s0, L=L):
            b = st.frames[-1].locals["self"].attrs["buffer"]
            ob("same_storage", b.uid == sto.uid)
            ob("len_kept", b.length_ == L)
            ob("bytes", forall_bytes(lambda x: b.mem[x] == z3.If(z3.And(o <= x, x < o + n), s0[x - o], m0[x])))
        add(c, {"self": self_, "offset": o, "source": src}, [rng(o, n, L), L >= 0], post)

        # ---- to_nplike / to_nparray
        for meth in ("to_nplike", "to_nparray"):
            c = Case(cls, meth)
            self_, sto, L = mkbuf(cls)
            o, cnt, isz = fresh_int("offset"), fresh_int("count"), fresh_int("itemsize")
            dt = S.DType("dt", isz)
            shape = S.AbsShape(cnt)
            m0 = sto.mem

            def post(st, res, ob, sto=sto, o=o, cnt=cnt, dt=dt, shape=shape, m0=m0):
                ok = isinstance(res, S.TView)
                ob("returns_typed_view", ok)
                if ok:
                    ob("aliases_buffer", res.base.uid == sto.uid)
                    ob("byte_offset", to_int(res.offset) == o)
                    ob("count", to_int(res.count) == cnt)
                    ob("dtype_and_shape", res.dtype is dt and res.shape is shape)
                b = st.frames[-1].locals["self"].attrs["buffer"]
                ob("buffer_unchanged", z3.eq(b.mem, m0))
            add(c, {"self": self_, "offset": o, "dtype": dt, "shape": shape}, [o >= 0, cnt >= 0, isz >= 1, o + cnt * isz <= L, L >= 0], post)

        # ---- update_from_nplike: every source dtype (conversion or not) and every memory layout
        c = Case(cls, "update_from_nplike")
        self_, sto, L = mkbuf(cls)
        o, size, isz_s, isz_d = fresh_int("offset"), fresh_int("size"), fresh_int("src_itemsize"), fresh_int("dest_itemsize")
        sdt, ddt = S.DType("src", isz_s), S.DType("dest", isz_d)
        val = S.NpVal(sdt, size, fresh_mem("value_cbytes"), fresh_bool("lastaxis_contig"), None)
        m0 = sto.mem
        same = S.DTEQ(ddt, sdt)

        def post(st, res, ob, sto=sto, o=o, size=size, val=val, sdt=sdt, ddt=ddt, m0=m0, L=L, same=same):
            b = st.frames[-1].locals["self"].attrs["buffer"]
            key = (sdt.name, ddt.name)
            conv = S.CONV.get(key)
            want = val.cmem if conv is None else z3.If(same, val.cmem, conv(val.cmem))
            n = size * ddt.itemsize
            ob("same_storage", b.uid == sto.uid)
            ob("len_kept", b.length_ == L)
            ob("bytes", forall_bytes(lambda x: b.mem[x] == z3.If(z3.And(o <= x, x < o + n), z3.Select(want, x - o), m0[x])))
        add(c, {"self": self_, "offset": o, "dest_dtype": ddt, "value": val},
            [o >= 0, size >= 0, isz_s >= 1, isz_d >= 1, o + size * isz_d <= L, L >= 0, z3.Implies(same, isz_s == isz_d)], post)

    # ---- XBuffer.update_from_xbuffer: same context (native path) and different context (through a bytearray)
    for cls in KINDS:
        for scls in KINDS:
            for same_ctx in (True, False):
                c = Case(cls, "update_from_xbuffer", f"from_{scls}:{'same' if same_ctx else 'other'}_context")
                ctx = SymObj("ContextCpu", {})
                self_, sto, L = mkbuf(cls, "self", ctx)
                src_, ssto, SL = mkbuf(scls, "source", ctx if same_ctx else SymObj("ContextCpu", {}))
                if same_ctx and scls != cls:
                    continue  # same context implies the same native storage type for these two classes' own buffers
                o, so, n = fresh_int("offset"), fresh_int("source_offset"), fresh_int("nbytes")
                m0, s0 = sto.mem, ssto.mem

                def post(st, res, ob, sto=sto, ssto=ssto, o=o, so=so, n=n, m0=m0, s0=s0, L=L):
                    b = st.frames[-1].locals["self"].attrs["buffer"]
                    sb = st.frames[-1].locals["source"].attrs["buffer"]
                    ob("len_kept", b.length_ == L)
                    ob("bytes", forall_bytes(lambda x: b.mem[x] == z3.If(z3.And(o <= x, x < o + n), s0[so + x - o], m0[x])))
                    ob("source_unchanged", z3.eq(sb.mem, s0))
                add(c, {"self": self_, "offset": o, "source": src_, "source_offset": so, "nbytes": n},
                    [rng(o, n, L), rng(so, n, SL), L >= 0, SL >= 0], post)
    vc_all.interps = its
    return obs


def to_int(v):
    return v if isinstance(v, z3.ExprRef) else z3.IntVal(v)


FUNCTIONS = [(CPU, f"{c}.{m}") for c in KINDS for m in ("_new_buffer", "update_from_native", "to_native", "copy_to_native", "update_from_buffer",
                                                       "to_nplike", "update_from_nplike", "to_bytearray", "to_pointer_arg")] + [(CTX, "XBuffer.update_from_xbuffer")]

if __name__ == "__main__":
    import sys
    from pyvc import solve

    obs = vc_all()
    solve.discharge_all(obs, solve.QUICK)
    for o in obs:
        if o.status != "discharged" or "-v" in sys.argv:
            print(f"  {o.status:10s} {o.name}")
    print(sum(o.status == "discharged" for o in obs), "/", len(obs))
    print(sorted(S.AXIOMS_USED))
