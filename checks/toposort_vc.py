"""Deductive part of C14: `topological_sort` never lists a node twice (for every input graph, any size).

The real function body is executed symbolically over an abstract graph:
  nodes are integers; `source` is a dict with pairwise distinct keys K[0..nk) and, per key c, a parent list PAR(c, 0..PLEN(c));
  `graph` is a symbolic dict (key set GK; the child lists are arbitrary sequences of nodes); `num_parents` a total map NP with
  default 0 (defaultdict(int)); `result` a list (length, array) that grows while it is iterated.
Loop invariants (LoopSpec cuts; one obligation family per loop):
  build loops     forall x: NP[x] >= 0  and  (NP[x] > 0  =>  x is a key with a non-empty parent list)
  main loops      result has no duplicates  and  forall i: NP[result[i]] <= 0
                  (a child is appended only when its counter goes 1 -> 0, so it was not in the list; counters only decrease)
Python semantics assumed for the two list comprehensions: `[x for x in seq if c(x)]` is an order-preserving subsequence of seq
(hence duplicate-free if seq is) all of whose elements satisfy c; dict keys are pairwise distinct.
Post: on the path where has_cycle is False the returned list has no duplicates.  The order/cycle clauses need edge-multiset
counting and stay with the bounded part (checks/toposort_native.py).
"""
import ast
import z3

from pyvc.registry import reg
from pyvc.interp import Interp
from pyvc.interp_ext import LoopSpec
from pyvc.core import _Mut, PList, Unsupported, PyvcError, fresh_int, fresh_bool, fresh_name, is_sym, to_z3, BuiltinVal

CTX = "xobjects/context.py"
I = z3.IntSort()
ISKEY = z3.Function("is_key", I, z3.BoolSort())
PLEN = z3.Function("n_parents_listed", I, I)
PAR = z3.Function("parent_of", I, I, I)
ISPAR = z3.Function("is_listed_parent", I, z3.BoolSort())  # axiom (SourceDict.axioms): every listed parent of every key satisfies it


def known(x):
    """x is a node of the argument: one of its keys, or listed as a parent of one of its keys"""
    return z3.Or(ISKEY(x), ISPAR(x))


def all_known(n, arr):
    i = z3.Int(fresh_name("i"))
    return z3.ForAll([i], z3.Implies(z3.And(0 <= i, i < n), known(arr[i])))


def graph_keys_are_parents(gk):
    x = z3.Int(fresh_name("x"))
    return z3.ForAll([x], z3.Implies(z3.Select(gk, x), ISPAR(x)))


def _contract():
    key = (CTX, "topological_sort")
    sp = type("spec_topological_sort", (), {"params": {}, "properties": ["C14"]})
    saved = reg.contracts.get(key)
    reg.contract(CTX, "topological_sort")(sp)
    c = reg.contracts[key]
    c.inline = True
    if saved is not None:
        reg.contracts[key] = saved
    return c


class SymList(_Mut):
    """list of nodes: (length, array)"""

    def __init__(self, n, arr):
        super().__init__()
        self.n, self.arr = n, arr

    def clone_mut(self, cp):
        return SymList.__new_like(self)

    @staticmethod
    def __new_like(o):
        n = SymList.__new__(SymList)
        n.n, n.arr = o.n, o.arr
        n.loop = getattr(o, "loop", None)
        return n

    def getattr(self, interp, st, attr, node):
        if attr == "append":
            yield st, _Fn(lambda i, s, a, k, nd: self._append(i, s, a[0]))
        elif attr == "extend":
            yield st, _Fn(lambda i, s, a, k, nd: self._extend(i, s, a[0]))
        else:
            raise Unsupported(f"list.{attr}")

    def _me(self, interp, st):
        return interp._relocate(st, self)

    def _append(self, interp, st, v):
        me = self._me(interp, st)
        me.arr = z3.Store(me.arr, me.n, to_z3(v))
        me.n = me.n + 1

    def _extend(self, interp, st, other):
        me = self._me(interp, st)
        if not isinstance(other, SymList):
            raise Unsupported("extend with a non-list")
        new = z3.Array(fresh_name("cat"), I, I)
        x = z3.Int(fresh_name("x"))
        st.assume(z3.ForAll([x], new[x] == z3.If(x < me.n, me.arr[x], other.arr[x - me.n]), patterns=[new[x]]))
        me.arr = new
        me.n = me.n + other.n

    def iterate(self, interp, st, s):
        lp = getattr(self, "loop", None)
        if lp is None:
            raise Unsupported("iteration over a symbolic list without a loop specification")
        yield from lp.run(interp, st, s, self)

    def length(self, interp, st):
        return self.n


class _Fn:
    def __init__(self, fn):
        self.fn = fn

    def call(self, interp, st, args, kwargs, node):
        yield st, self.fn(interp, st, args, kwargs, node)


class ParentList:
    def __init__(self, child, loop):
        self.child, self.loop = child, loop

    def length(self, interp, st):
        return PLEN(to_z3(self.child))

    def iterate(self, interp, st, s):
        yield from self.loop.run(interp, st, s, self)


class SourceDict:
    """the argument: keys K[0..nk) pairwise distinct"""

    def __init__(self):
        self.nk = fresh_int("nk")
        self.K = z3.Array(fresh_name("K"), I, I)
        self.loop_items = None
        self.parent_loop = None

    def axioms(self):
        i, j = z3.Ints("i!k j!k")
        return [self.nk >= 0,
                z3.ForAll([i], z3.Implies(z3.And(0 <= i, i < self.nk), ISKEY(self.K[i])), patterns=[self.K[i]]),
                z3.ForAll([i, j], z3.Implies(z3.And(0 <= i, i < j, j < self.nk), self.K[i] != self.K[j])),
                z3.ForAll([i], PLEN(i) >= 0, patterns=[PLEN(i)]),
                z3.ForAll([i, j], z3.Implies(z3.And(ISKEY(i), 0 <= j, j < PLEN(i)), ISPAR(PAR(i, j))), patterns=[PAR(i, j)])]

    def getattr(self, interp, st, attr, node):
        if attr == "items":
            yield st, _Fn(lambda i, s, a, k, nd: _Items(self))
        elif attr == "keys":
            yield st, _Fn(lambda i, s, a, k, nd: self)
        else:
            raise Unsupported(f"source.{attr}")

    def contains(self, interp, st, x):
        return ISKEY(to_z3(x))

    def length(self, interp, st):
        return self.nk


class _Items:
    def __init__(self, src):
        self.src = src

    def iterate(self, interp, st, s):
        yield from self.src.loop_items.run(interp, st, s, self)


class SymDict(_Mut):
    """graph: key set GK (node -> bool); values are child lists of unknown content"""

    def __init__(self):
        super().__init__()
        self.GK = z3.K(I, z3.BoolVal(False))
        self.child_loop = None

    def clone_mut(self, cp):
        n = SymDict.__new__(SymDict)
        n.GK, n.child_loop = self.GK, self.child_loop
        return n

    def getattr(self, interp, st, attr, node):
        if attr == "setdefault":
            def f(i, s, a, k, nd):
                me = i._relocate(s, self)
                me.GK = z3.Store(me.GK, to_z3(a[0]), z3.BoolVal(True))
                return _ChildList(me, a[0])
            yield st, _Fn(f)
        elif attr == "keys":
            yield st, _Fn(lambda i, s, a, k, nd: _Keys(i._relocate(s, self)))
        else:
            raise Unsupported(f"dict.{attr}")

    def contains(self, interp, st, x):
        return z3.Select(interp._relocate(st, self).GK, to_z3(x))

    def getitem(self, interp, st, k, node):
        me = interp._relocate(st, self)
        interp.safety(st, "KeyError", z3.Select(me.GK, to_z3(k)), node)
        return _ChildList(me, k)

    def delitem(self, interp, st, k, node):
        me = interp._relocate(st, self)
        interp.safety(st, "KeyError", z3.Select(me.GK, to_z3(k)), node)
        me.GK = z3.Store(me.GK, to_z3(k), z3.BoolVal(False))

    def truth(self):
        x = z3.Int(fresh_name("x"))
        return z3.Exists([x], z3.Select(self.GK, x))


class _Keys:
    def __init__(self, d):
        self.d = d


class _ChildList:
    def __init__(self, d, parent):
        self.d, self.parent = d, parent

    def getattr(self, interp, st, attr, node):
        if attr == "append":
            # the content of child lists is not tracked, only that every stored child is a key of the argument (D_alts assumes it back)
            yield st, _Fn(lambda i, s, a, k, nd: i.oblige(s, "inv.children", "child_lists_hold_keys_only", ISKEY(to_z3(a[0])), getattr(nd, "lineno", None)) and None)
        else:
            raise Unsupported(f"child list .{attr}")

    def iterate(self, interp, st, s):
        yield from self.d.child_loop.run(interp, st, s, self)


class IntMap(_Mut):
    """defaultdict(int): total map node -> int"""

    def __init__(self):
        super().__init__()
        self.m = z3.K(I, z3.IntVal(0))

    def clone_mut(self, cp):
        n = IntMap.__new__(IntMap)
        n.m = self.m
        return n

    def getitem(self, interp, st, k, node):
        return z3.Select(interp._relocate(st, self).m, to_z3(k))

    def setitem(self, interp, st, k, v, node):
        me = interp._relocate(st, self)
        me.m = z3.Store(me.m, to_z3(k), to_z3(v))


def distinct(lst_n, lst_arr):
    i, j = z3.Ints(fresh_name("i") + " " + fresh_name("j"))
    return z3.ForAll([i, j], z3.Implies(z3.And(0 <= i, i < j, j < lst_n), lst_arr[i] != lst_arr[j]))


def np_nonpos(lst_n, lst_arr, npm):
    i = z3.Int(fresh_name("i"))
    return z3.ForAll([i], z3.Implies(z3.And(0 <= i, i < lst_n), npm[lst_arr[i]] <= 0))


def build_inv(npm):
    x = z3.Int(fresh_name("x"))
    return z3.ForAll([x], z3.And(npm[x] >= 0, z3.Implies(npm[x] > 0, z3.And(ISKEY(x), PLEN(x) > 0))))


def vc_toposort():
    con = _contract()
    it = Interp(reg)
    it.obligations = []
    it.path_counter = {}
    src_ = SourceDict()

    # ---- loops of the build phase (outer over source.items(), inner over the parents of one child)
    def A_init(interp, st, k, node):
        npm = st.locals["num_parents"]
        interp.oblige(st, f"inv{k}.init", "counters", build_inv(npm.m), node.lineno)
        interp.oblige(st, f"inv{k}.init", "graph_keys_are_listed_parents", graph_keys_are_parents(st.locals["graph"].GK), node.lineno)

    def A_head(interp, st):
        npm, g = st.locals["num_parents"], st.locals["graph"]
        npm.m = z3.Array(fresh_name("NP"), I, I)
        g.GK = z3.Array(fresh_name("GK"), I, z3.BoolSort())
        st.assume(build_inv(npm.m))
        st.assume(graph_keys_are_parents(g.GK))
        return {}

    def A_alts():
        def mk(st):
            i = fresh_int("ikey")
            st.assume(z3.And(0 <= i, i < src_.nk))
            child = z3.Select(src_.K, i)
            return (child, ParentList(child, loopB))
        yield "key", mk

    def A_pres(interp, st, g, label, elem, k, node):
        interp.oblige(st, f"inv{k}.preserve", "counters", build_inv(st.locals["num_parents"].m), node.lineno)
        interp.oblige(st, f"inv{k}.preserve", "graph_keys_are_listed_parents", graph_keys_are_parents(st.locals["graph"].GK), node.lineno)

    def B_init(interp, st, k, node):
        interp.oblige(st, f"inv{k}.init", "counters", build_inv(st.locals["num_parents"].m), node.lineno)
        interp.oblige(st, f"inv{k}.init", "graph_keys_are_listed_parents", graph_keys_are_parents(st.locals["graph"].GK), node.lineno)

    def B_head(interp, st):
        npm, g = st.locals["num_parents"], st.locals["graph"]
        npm.m = z3.Array(fresh_name("NP"), I, I)
        g.GK = z3.Array(fresh_name("GK"), I, z3.BoolSort())
        st.assume(build_inv(npm.m))
        st.assume(graph_keys_are_parents(g.GK))
        return {}

    def B_alts():
        def mk(st):
            child = st.locals["child"]
            j = fresh_int("jpar")
            st.assume(z3.And(0 <= j, j < PLEN(to_z3(child))))
            return PAR(to_z3(child), j)
        yield "parent", mk

    loopB = LoopSpec(B_init, B_head, B_alts, A_pres)
    src_.loop_items = LoopSpec(A_init, A_head, A_alts, A_pres)

    # ---- main loop over the growing result, inner loop over the children of one parent
    def main_inv(st):
        res, npm = st.locals["result"], st.locals["num_parents"]
        return [("no_duplicates", distinct(res.n, res.arr)), ("listed_nodes_have_no_open_parent", np_nonpos(res.n, res.arr, npm.m)),
                ("listed_nodes_are_nodes_of_the_argument", all_known(res.n, res.arr)),
                ("graph_keys_are_listed_parents", graph_keys_are_parents(st.locals["graph"].GK))]

    def C_init(interp, st, k, node):
        for nm, f in main_inv(st):
            interp.oblige(st, f"inv{k}.init", nm, f, node.lineno)

    def C_head(interp, st):
        res, npm, g = st.locals["result"], st.locals["num_parents"], st.locals["graph"]
        res.n, res.arr = fresh_int("RL"), z3.Array(fresh_name("R"), I, I)
        npm.m = z3.Array(fresh_name("NP"), I, I)
        g.GK = z3.Array(fresh_name("GK"), I, z3.BoolSort())
        st.assume(res.n >= 0)
        for nm, f in main_inv(st):
            st.assume(f)
        return {}

    def C_alts():
        def mk(st):
            res = st.locals["result"]
            t = fresh_int("t")
            st.assume(z3.And(0 <= t, t < res.n))
            return z3.Select(res.arr, t)
        yield "listed_node", mk

    def C_pres(interp, st, g, label, elem, k, node):
        for nm, f in main_inv(st):
            interp.oblige(st, f"inv{k}.preserve", nm, f, node.lineno)

    def D_alts():
        def mk(st):
            c = fresh_int("child")
            st.assume(ISKEY(c))  # invariant of the child lists (obligation child_lists_hold_keys_only at every append)
            return c
        yield "any_child", mk

    def D_head(interp, st):
        # the loop over the children of one parent changes the list and the counters, never the key set of `graph`
        res, npm = st.locals["result"], st.locals["num_parents"]
        res.n, res.arr = fresh_int("RL"), z3.Array(fresh_name("R"), I, I)
        npm.m = z3.Array(fresh_name("NP"), I, I)
        st.assume(res.n >= 0)
        for nm, f in main_inv(st):
            st.assume(f)
        return {}

    loopC = LoopSpec(C_init, C_head, C_alts, C_pres)
    loopD = LoopSpec(C_init, D_head, D_alts, C_pres)

    # ---- hooks: `{}` -> symbolic dict, defaultdict(int) -> total map, comprehensions over the abstract containers
    graph_holder = {}

    def ev_Dict(st, n):
        if n.keys:
            raise Unsupported("non-empty dict literal")
        d = SymDict()
        d.child_loop = loopD
        graph_holder["g"] = d
        yield st, d
    it.ev_Dict = ev_Dict
    it.extern_names = {"defaultdict": _Fn(lambda i, s, a, k, nd: IntMap())}

    def ev_ListComp(st, n):
        if len(n.generators) != 1:
            raise Unsupported("nested comprehension")
        g = n.generators[0]
        for st1, seq in it.ev(st, g.iter):
            ln = fresh_int("clen")
            arr = z3.Array(fresh_name("comp"), I, I)
            st1.assume(ln >= 0)
            i = z3.Int(fresh_name("ic"))
            e = z3.Select(arr, i)
            # bind the target(s) to the generic element and evaluate element expression / filters symbolically
            saved = dict(st1.locals)
            if isinstance(seq, _Items):
                member = ISKEY(e)
                tgt = (e, ParentList(e, None))
                st1.assume(ln <= seq.src.nk)
            elif isinstance(seq, SymDict):
                member = z3.Select(seq.GK, e)
                tgt = e
            else:
                raise Unsupported(f"comprehension over {seq!r}")
            for _ in it.assign(st1, g.target, tgt):
                pass
            conds = [member]
            for c in g.ifs:
                conds.append(it.truth(st1, it.sv(st1, c)))
            elt = it.sv(st1, n.elt)
            st1.frames[-1].locals = saved
            if not z3.eq(z3.simplify(to_z3(elt)), z3.simplify(e)):
                raise Unsupported("comprehension element is not the iteration variable")
            st1.assume(z3.ForAll([i], z3.Implies(z3.And(0 <= i, i < ln), z3.And(*conds)), patterns=[arr[i]]))
            st1.assume(distinct(ln, arr))  # subsequence of pairwise distinct keys
            r = SymList(ln, arr)
            r.loop = loopC
            yield st1, r
    it.ev_ListComp = ev_ListComp

    def bi_list(st, f, args, kw, node):
        (x,) = args
        if isinstance(x, _Keys):
            ln = fresh_int("klen")
            arr = z3.Array(fresh_name("keys"), I, I)
            st.assume(ln >= 0)
            i = z3.Int(fresh_name("ik"))
            st.assume(z3.ForAll([i], z3.Implies(z3.And(0 <= i, i < ln), z3.Select(x.d.GK, arr[i])), patterns=[arr[i]]))  # python: list(d.keys()) lists keys of d
            return SymList(ln, arr)
        return Interp.bi_list(it, st, f, args, kw, node)
    it.bi_list = bi_list

    orig_delete = it.ex_Delete

    def ex_Delete(st, s):
        t = s.targets[0]
        if len(s.targets) == 1 and isinstance(t, ast.Subscript):
            for st1, o in it.ev(st, t.value):
                if isinstance(o, SymDict):
                    for st2, kx in it.ev(st1, t.slice):
                        o.delitem(it, st2, kx, s)
                        yield st2, None
                    return
        yield from orig_delete(st, s)
    it.ex_Delete = ex_Delete

    n = 0
    for st, out in it.exec_function(con, {"source": src_}, pre=src_.axioms()):
        n += 1
        if out is None or out[0] != "return":
            it.oblige(st, "raises", "never", False, out[2] if out else None)
            continue
        res, hc = out[1]
        if not isinstance(res, SymList):
            it.oblige(st, "post", "returns_list", False)
            continue
        res = it._relocate(st, res)
        hcz = z3.BoolVal(hc) if isinstance(hc, bool) else hc
        it.oblige(st, "post", "no_duplicates_when_acyclic", z3.Implies(z3.Not(hcz), distinct(res.n, res.arr)))
        it.oblige(st, "post", "lists_only_nodes_of_the_argument", all_known(res.n, res.arr))
    it.n_paths = n
    for o in it.obligations:
        o.properties = ["C14"]
    return it.obligations, it


def targets():
    def g():
        obs, it = vc_toposort()
        g.interp = it
        return obs
    g.__name__ = "topological_sort"
    g.functions = [(CTX, "topological_sort")]
    return [("<gen>", g)]


GROUPS = {"topological_sort": (targets()[0][1], ["C14"])}
