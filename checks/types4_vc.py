"""Deductive groups added in session 5 (struct side): Struct._update (C10 / C09 / C11), Struct._get_offset.

Struct._update(self, value) is the whole-value assignment of a nested struct (`parent.field = value`, Field.__set__ -> _update).
Contract, on classes of <= 3 fields built by the real MetaStruct.__new__ (abstract field types, TypeContract), self a handle of
which only HandleInv is known:
  value = same-class object, equal size, reference-free class
        -> either a byte copy of exactly self._size bytes from the source object to self's place (bytes equal, nothing outside
           [self._offset, self._offset + self._size) changes, the source buffer is not written), or the field-wise path below;
  value = same-class object of another size, or a class with references (a byte copy would keep slot-relative offsets)
        -> no byte of the buffer is written by _update itself; every field is assigned exactly once, in declaration order, through
           its descriptor (Field.__set__, under contract in group `setters`) with the value read out of the source;
  value = dict with any subset of the field names
        -> exactly the named fields are assigned, once each, in declaration order, with the dict's value; no other write.
Field.__set__ is used through its contract (recorded call, no memory effect of its own here: its frame is the field's extent).
"""
import itertools

import z3

from . import types_vc as T
from pyvc.core import SymObj, PDict, fresh_int, Unsupported, FuncVal, same_value, HARNESS_ERRORS
from pyvc import xbuf as XB

STRUCT = T.STRUCT


def _env():
    it = T.struct_env()
    it.class_home.update({"Struct": STRUCT, "NumpyScalar": "xobjects/scalar.py"})
    i64 = T.int64_scalar()
    it.extern_names.update({"Int64": i64, "object": T.ObjectBuiltin()})
    XB.install_int64(it, i64)

    def construct_Info(st, args, kwargs, node):
        o = SymObj("Info", dict(kwargs))
        o.closed = True
        yield st, o
    it.construct_Info = construct_Info
    return it


def vc_struct_update():
    obs = []
    its = []
    for n in range(1, 4):
        for pattern in itertools.product((False, True), repeat=n):
            for has_refs in (False, True):
                lab0 = "".join("d" if d else "s" for d in pattern) + (":with_refs" if has_refs else ":ref_free")
                it = _env()
                its.append(it)
                try:
                    cls, F, tcs, pc = T.build_struct_class(it, pattern)
                    it.obligations = []
                    cls.attrs["_has_refs"] = has_refs
                    dyn = [k for k in range(n) if pattern[k]]
                    calls = []

                    def ov_set(i, st, f, a, k, nd):
                        rec = list(getattr(st, "set_calls", []))
                        rec.append((f.bound_self, a[0], a[1]))
                        st.set_calls = rec
                        yield st, None
                    it.overrides[(STRUCT, "Field.__set__")] = ov_set
                    con = T._contract(STRUCT, "Struct._update", [])
                    it.contract = con
                    values = [("same_class_object", None, None)]
                    names = [f"f{k}" for k in range(n)]
                    for r in range(n + 1):
                        for sub in itertools.combinations(range(n), r):
                            values.append(("dict_" + ("".join(map(str, sub)) or "empty"), PDict({names[k]: SymObj("Value", {}) for k in sub}), sub))
                    for vlab, val, sub in values:
                        lab = f"{lab0}:{vlab}"
                        buf = XB.XBuf("dest")
                        sbuf = XB.XBuf("source")
                        o, size = fresh_int("offset"), fresh_int("size")
                        so, ssize = fresh_int("source_offset"), fresh_int("source_size")
                        offs = PDict({k: fresh_int(f"off{k}") for k in dyn})
                        soffs = PDict({k: fresh_int(f"src_off{k}") for k in dyn})
                        attrs = {"__class__": cls, "_buffer": buf, "_offset": o, "_size": size}
                        sattrs = {"__class__": cls, "_buffer": sbuf, "_offset": so, "_size": ssize}
                        if dyn:
                            attrs["_offsets"] = offs
                            sattrs["_offsets"] = soffs
                        me = SymObj("instance", attrs)
                        me.closed = True
                        src = SymObj("instance", sattrs)
                        src.closed = True
                        pre = pc + [o >= 0, so >= 0, size >= 0, ssize >= 0, o + size <= buf.cap, so + ssize <= sbuf.cap, buf.cap < 2 ** 62, sbuf.cap < 2 ** 62]
                        if not dyn:
                            pre += [size == cls.attrs["_size"], ssize == cls.attrs["_size"]]
                        if val is None:
                            val = src
                        m0, s0 = buf.mem, sbuf.mem
                        for st, out in it.exec_function(con, {"self": me, "value": val}, pre=pre):
                            if out is not None and out[0] == "raise":
                                it.oblige(st, "raises", f"never[{lab}]", False, out[2])
                                continue
                            b = it._relocate(st, buf)
                            sb = it._relocate(st, sbuf)
                            sc = list(getattr(st, "set_calls", []))
                            wr = [r_ for r_ in getattr(st, "recorded", []) if r_[0] == "write"]
                            ob = lambda c, g: it.oblige(st, "post", f"{c}[{lab}]", g if not isinstance(g, bool) else z3.BoolVal(g))
                            ob("source_buffer_not_written", z3.eq(sb.mem, s0))
                            ob("no_field_type_written_directly", len(wr) == 0)
                            untouched = z3.eq(b.mem, m0)
                            if sub is None:
                                same_size = ssize == size
                                if len(sc) == 0:
                                    # byte-copy path: only for a reference-free class and a source of exactly self's size
                                    ob("byte_copy_only_when_reference_free", not has_refs)
                                    ob("byte_copy_only_for_equal_size", same_size)
                                    ob("bytes_copied", T.forall_x(lambda x: z3.Implies(z3.And(0 <= x, x < size), b.mem[o + x] == s0[so + x])))
                                    ob("frame_is_the_object_extent", T.forall_x(lambda x: z3.Implies(z3.Or(x < o, x >= o + size), b.mem[x] == m0[x])))
                                else:
                                    ob("fieldwise_update_writes_nothing_itself", untouched)
                                    ob("every_field_assigned_once_in_order", [getattr(c[0], "uid", None) for c in sc] == [f_.uid for f_ in F])
                                    ob("assigned_on_this_object", all(getattr(c[1], "uid", None) == me.uid for c in sc))
                                    okv = all(isinstance(c[2], tuple) and c[2][0] == "view-of" and c[2][1] == f"T{k}" and c[2][2] == sbuf.uid
                                              for k, c in enumerate(sc))
                                    ob("field_values_read_from_the_source", okv)
                                    if okv:
                                        for k, c in enumerate(sc):
                                            ob(f"field{k}_value_read_at_its_documented_address", c[2][3] == so + (soffs.items[k] if k in dyn[1:] else F[k].attrs["offset"]))
                            else:
                                ob("dict_update_writes_nothing_itself", untouched)
                                ob("exactly_the_named_fields_assigned_in_order", [getattr(c[0], "uid", None) for c in sc] == [F[k].uid for k in sub])
                                ob("assigned_on_this_object", all(getattr(c[1], "uid", None) == me.uid for c in sc))
                                ob("values_taken_from_the_dict", all(getattr(c[2], "uid", None) == val.items[names[k]].uid for k, c in zip(sub, sc)))
                except HARNESS_ERRORS as e:
                    vc_struct_update.undecided.append((lab0, str(e)[:200]))
                obs += [x for x in it.obligations if x is not None]
    vc_struct_update.interps = its
    return obs


T.group("struct_update", vc_struct_update, [(STRUCT, "Struct._update"), (STRUCT, "Struct.__contains__"), (STRUCT, "Struct.__getitem__")], ["C10", "C09", "C11"])


def vc_field_value_from_args():
    """Field.value_from_args / Field.get_default: the value a constructor writes for a field is the value it was given -- also when
    that value is None (a null reference, C08/C09: a copy of a holder whose reference is null has a null reference) or a partial dict
    (C19: what the dictionary form omits is filled by the *nested* type, not by the enclosing field's default); only a field that is
    absent from the argument takes the declared default: default_factory() if one is declared, else the declared default passed
    through dispatch_arg to the field type, else the field type's own default construction."""
    obs = []
    its = []
    for dk in ("no_default", "default_value", "default_dict", "default_factory"):
        for vk in ("given_value", "given_none", "given_dict", "absent"):
            lab = f"{dk}:{vk}"
            it = _env()
            its.append(it)
            try:
                calls = []
                ftype = SymObj("FieldType", {})
                ftype.closed = True
                ftype.call = lambda interp, st, args, kwargs, node, ftype=ftype: iter([(st, ("constructed-by-type", tuple(args), dict(kwargs)))])
                dflt = SymObj("Value", {}) if dk == "default_value" else PDict({"a": SymObj("Value", {}), "b": SymObj("Value", {})}) if dk == "default_dict" else None
                made = SymObj("Value", {})

                class Factory:
                    def call(self, interp, st, args, kwargs, node):
                        yield st, made
                fobj = SymObj("Field", {"name": "f0", "ftype": ftype, "default": dflt, "default_factory": Factory() if dk == "default_factory" else None, "index": 0})
                fobj.closed = True
                given = {"given_value": SymObj("Value", {}), "given_none": None, "given_dict": PDict({"a": SymObj("Value", {})})}.get(vk)
                arg = PDict({} if vk == "absent" else {"f0": given, "other": SymObj("Value", {})})
                con = T._contract(STRUCT, "Field.value_from_args", [])
                it.contract = con

                def ov_dispatch(i, st, f, a, k, nd):
                    yield st, ("dispatched", a[0], a[1])
                it.overrides[("xobjects/typeutils.py", "dispatch_arg")] = ov_dispatch
                for st, out in it.exec_function(con, {"self": fobj, "arg": arg}, pre=[]):
                    ob = lambda c, g: it.oblige(st, "post", f"{c}[{lab}]", g if not isinstance(g, bool) else z3.BoolVal(g))
                    if out is None or out[0] != "return":
                        ob("returns", False)
                        continue
                    r = out[1]
                    if vk == "given_none":
                        ob("a_given_none_stays_none", r is None)
                    elif vk == "given_value":
                        ob("a_given_value_is_passed_through", getattr(r, "uid", None) == given.uid)
                    elif vk == "given_dict":
                        ob("a_given_dict_is_passed_through_unmerged", isinstance(r, PDict) and r.uid == given.uid if hasattr(r, "uid") else (isinstance(r, PDict) and list(r.items) == ["a"] and r.items["a"] is given.items["a"]))
                    elif dk == "default_factory":
                        ob("absent_field_takes_the_factory_value", getattr(r, "uid", None) == made.uid)
                    elif dk in ("default_value", "default_dict"):
                        ob("absent_field_takes_the_declared_default_through_its_type", isinstance(r, tuple) and r[0] == "dispatched" and getattr(r[1], "uid", None) == ftype.uid and (getattr(r[2], "uid", None) == dflt.uid if hasattr(dflt, "uid") else r[2] is dflt))
                    else:
                        ob("absent_field_takes_the_type_default", isinstance(r, tuple) and r[0] == "constructed-by-type" and r[1] == () and r[2] == {})
            except HARNESS_ERRORS as e:
                vc_field_value_from_args.undecided.append((lab, str(e)[:200]))
            obs += [x for x in it.obligations if x is not None]
    vc_field_value_from_args.interps = its
    return obs


T.group("field_value_from_args", vc_field_value_from_args, [(STRUCT, "Field.value_from_args"), (STRUCT, "Field.get_default")], ["C09", "C08", "C19", "C01"])


def vc_string_init():
    """String.__init__ (the constructor of stand-alone strings and of string items / fields built on their own): the size planned by
    _inspect_args is the size asked from allocate_on_buffer with exactly the caller's context / buffer / offset; the writer is called once,
    on the region obtained, with the caller's value and the same plan; the handle carries that buffer, offset and size -- so the handle
    agrees with what a view reads back (size word = planned size: group `string`).  _inspect_args / allocate_on_buffer / _to_buffer are
    used through their contracts (groups string, allocate_on_buffer)."""
    STR = T.STR
    obs = []
    its = []
    for form in ("buffer_and_offset", "buffer_only", "context_only", "nothing"):
        it = _env()
        its.append(it)
        it.class_home.update({"String": STR, "MetaString": STR})
        size = fresh_int("planned_size")
        info = SymObj("Info", {"size": size})
        info.closed = True
        buf = XB.XBuf("obtained")
        off = fresh_int("obtained_offset")
        ev = []

        class _C:
            def __init__(self, tag, result):
                self.tag, self.result = tag, result

            def call(self, interp, st, args, kwargs, node):
                st.recorded = getattr(st, "recorded", []) + [(self.tag, tuple(args), dict(kwargs))]
                yield st, self.result
        cls = SymObj("MetaString", {"__name__": "String", "_size": None, "_inspect_args": _C("inspect", info), "_to_buffer": _C("to_buffer", None)})
        cls.closed = True

        def ov_alloc(i, st, f, a, k, n):
            st.recorded = getattr(st, "recorded", []) + [("allocate", tuple(a), dict(k))]
            yield st, (buf, off)
        it.overrides[("xobjects/typeutils.py", "allocate_on_buffer")] = ov_alloc
        me = SymObj("instance", {"__class__": cls})
        me.closed = True
        val = SymObj("Value", {})
        gbuf = XB.XBuf("given") if form.startswith("buffer") else None
        goff = fresh_int("given_offset") if form == "buffer_and_offset" else None
        gctx = SymObj("ContextCpu", {}) if form == "context_only" else None
        con = T._contract(STR, "String.__init__", [])
        it.contract = con
        try:
            for st, out in it.exec_function(con, {"self": me, "string_or_int": val, "_buffer": gbuf, "_offset": goff, "_context": gctx}, pre=[size >= 8]):
                ob = lambda c, g: it.oblige(st, "post", f"{c}[{form}]", g if not isinstance(g, bool) else z3.BoolVal(g))
                if out is not None and out[0] == "raise":
                    it.oblige(st, "raises", f"never[{form}]", False, out[2])
                    continue
                rec = getattr(st, "recorded", [])
                ins = [r for r in rec if r[0] == "inspect"]
                al = [r for r in rec if r[0] == "allocate"]
                wr = [r for r in rec if r[0] == "to_buffer"]
                ob("planned_once_from_the_value", len(ins) == 1 and len(ins[0][1]) == 1 and getattr(ins[0][1][0], "uid", None) == val.uid)
                ok = len(al) == 1
                ob("one_allocation", ok)
                if ok:
                    a = list(al[0][1]) + [al[0][2].get(k) for k in ("context", "buffer", "offset")][len(al[0][1]) - 1:] if len(al[0][1]) < 4 else list(al[0][1])
                    a = (a + [None] * 4)[:4]
                    ob("allocation_of_the_planned_size", same_value(a[0], size))
                    ob("allocation_with_the_callers_context_buffer_offset", (a[1] is gctx or getattr(a[1], "uid", 0) == getattr(gctx, "uid", 1)) and (a[2] is gbuf or getattr(a[2], "uid", 0) == getattr(gbuf, "uid", 1))
                       and (a[3] is goff or same_value(a[3], goff) is True))
                okw = len(wr) == 1
                ob("written_once", okw)
                if okw:
                    wa, wk = wr[0][1], wr[0][2]
                    ob("written_into_the_region_obtained", len(wa) >= 3 and getattr(wa[0], "uid", None) == buf.uid and same_value(wa[1], off) is True)
                    ob("value_and_plan_passed_to_the_writer", len(wa) >= 3 and getattr(wa[2], "uid", None) == val.uid and getattr(wk.get("info", wa[3] if len(wa) > 3 else None), "uid", None) == info.uid)
                h = it._relocate(st, me)
                ob("handle_is_the_region_obtained", getattr(h.attrs.get("_buffer"), "uid", None) == buf.uid and same_value(h.attrs.get("_offset"), off) is True)
                ob("handle_size_is_the_planned_size", same_value(h.attrs.get("_size"), size) is True)
        except HARNESS_ERRORS as e:
            vc_string_init.undecided.append((form, str(e)[:200]))
        obs += [x for x in it.obligations if x is not None]
    vc_string_init.interps = its
    return obs


T.group("string_init", vc_string_init, [(T.STR, "String.__init__")], ["C01", "C06", "C03"])
