"""Bounded native part of C13 (never counted as proved) and native validation of the storage axioms of pyvc/storage.py.

Exhaustive small scope: both CPU buffer classes x capacity <= CAP x every (offset, length) inside it x every byte-copy
primitive, whole-buffer comparison against a byte-list model (the buffer is poisoned first, the source carries a
different pattern).  Numpy sources: 10 numeric dtypes x destination dtypes x layouts {C, F 2-D, strided, 0-d, foreign
byte order, list}.  Typed views must alias (a write through the view shows in the buffer and vice versa), extracted
copies must not.
"""
import itertools
import random

import numpy as np

from . import grammar

DTYPES = ["int8", "uint8", "int16", "uint16", "int32", "uint32", "int64", "uint64", "float32", "float64"]


def buf_bytes(b):
    return bytes(bytearray(b.buffer)) if isinstance(b.buffer, bytearray) else b.buffer.view("uint8").tobytes()


def poison(b):
    for x in range(b.capacity):
        b.buffer[x] = (37 * x + 11) % 120 + 1
    return buf_bytes(b)


def run(tier, seed):
    X = grammar.xo()
    cpu = X.context_cpu
    rnd = random.Random(seed)
    CAP = 10 if tier == "quick" else 14
    evals = 0
    distinct = set()
    violations = []
    samples = []

    def bad(key, **kw):
        if len(violations) < 400:
            violations.append({"case_key": key, **kw})

    classes = [cpu.BufferByteArray, cpu.BufferNumpy]
    ctx = X.ContextCpu()
    ctx2 = X.ContextCpu()
    for cls in classes:
        cn = cls.__name__
        for cap in range(0, CAP + 1):
            # _new_buffer
            b = cls(capacity=cap, context=ctx)
            nb = b._new_buffer(cap)
            evals += 1
            if len(nb) != cap or any(int(v) != 0 for v in nb) or nb is b.buffer:
                bad(f"{cn}._new_buffer", capacity=cap)
            for o in range(0, cap + 1):
                for n in range(0, cap - o + 1):
                    case = (cn, cap, o, n)
                    # --- update_from_buffer (bytes, bytearray, memoryview, ndarray.data)
                    for kind in ("bytes", "bytearray", "memoryview", "npdata"):
                        b = cls(capacity=cap, context=ctx)
                        before = poison(b)
                        pat = bytes((200 + i) % 256 for i in range(n))
                        src = {"bytes": pat, "bytearray": bytearray(pat), "memoryview": memoryview(pat), "npdata": np.frombuffer(pat, dtype="uint8").data}[kind]
                        b.update_from_buffer(o, src)
                        evals += 1
                        distinct.add(("ufb", kind) + case)
                        if buf_bytes(b) != before[:o] + pat + before[o + n:]:
                            bad(f"{cn}.update_from_buffer", capacity=cap, offset=o, nbytes=n, source_kind=kind)
                    # --- extraction primitives: independent copies
                    for meth in ("to_native", "to_bytearray", "to_pointer_arg"):
                        b = cls(capacity=cap, context=ctx)
                        before = poison(b)
                        r = getattr(b, meth)(o, n)
                        evals += 1
                        distinct.add((meth,) + case)
                        if bytes(bytearray(r)) != before[o:o + n] or buf_bytes(b) != before or len(b.buffer) != cap:
                            bad(f"{cn}.{meth}", capacity=cap, offset=o, nbytes=n, problem="content")
                        if meth != "to_pointer_arg" and n > 0:
                            r[0] = (int(r[0]) + 1) % 100
                            if buf_bytes(b) != before:
                                bad(f"{cn}.{meth}", capacity=cap, offset=o, nbytes=n, problem="extracted copy aliases the buffer")
                            b.buffer[o] = 77
                            r2 = getattr(b, meth)(o, n)
                            if int(r2[0]) != 77:
                                bad(f"{cn}.{meth}", capacity=cap, offset=o, nbytes=n, problem="stale")
                    # --- update_from_native / copy_to_native / update_from_xbuffer with every source offset
                    for scap in {n, n + 2}:
                        for so in range(0, scap - n + 1):
                            pat = bytes((150 + 3 * i) % 256 for i in range(scap))
                            b = cls(capacity=cap, context=ctx)
                            before = poison(b)
                            nat = b._new_buffer(scap)
                            nat[0:scap] = bytearray(pat) if isinstance(nat, bytearray) else np.frombuffer(pat, dtype="int8")
                            b.update_from_native(o, nat, so, n)
                            evals += 1
                            distinct.add(("ufn", scap, so) + case)
                            if buf_bytes(b) != before[:o] + pat[so:so + n] + before[o + n:] or bytes(bytearray(nat)) != pat:
                                bad(f"{cn}.update_from_native", capacity=cap, offset=o, nbytes=n, source_offset=so, source_len=scap)
                            # copy_to_native: self -> dest
                            b = cls(capacity=cap, context=ctx)
                            before = poison(b)
                            dest = b._new_buffer(scap)
                            dest[0:scap] = bytearray(pat) if isinstance(dest, bytearray) else np.frombuffer(pat, dtype="int8")
                            b.copy_to_native(dest, so, o, n)
                            evals += 1
                            distinct.add(("ctn", scap, so) + case)
                            if bytes(bytearray(dest)) != pat[:so] + before[o:o + n] + pat[so + n:] or buf_bytes(b) != before:
                                bad(f"{cn}.copy_to_native", capacity=cap, offset=o, nbytes=n, dest_offset=so, dest_len=scap)
                            # update_from_xbuffer from both classes, same and other context
                            for scls in classes:
                                for sctx in (ctx, ctx2):
                                    if sctx is ctx and scls is not cls:
                                        continue  # precondition: buffers of one context object share its native storage type
                                    b = cls(capacity=cap, context=ctx)
                                    before = poison(b)
                                    sb = scls(capacity=scap, context=sctx)
                                    sb.update_from_buffer(0, pat)
                                    try:
                                        b.update_from_xbuffer(o, sb, so, n)
                                        okx = buf_bytes(b) == before[:o] + pat[so:so + n] + before[o + n:] and buf_bytes(sb) == pat
                                    except Exception as e:  # noqa
                                        okx = f"{type(e).__name__}: {e}"
                                    evals += 1
                                    distinct.add(("ufx", scls.__name__, sctx is ctx, scap, so) + case)
                                    if okx is not True:
                                        bad(f"{cn}.update_from_xbuffer", capacity=cap, offset=o, nbytes=n, source_class=scls.__name__,
                                            same_context=sctx is ctx, source_offset=so, problem=str(okx))
                    # self-overlapping native copy inside one buffer
                    if n > 0:
                        for so in range(0, cap - n + 1):
                            b = cls(capacity=cap, context=ctx)
                            before = poison(b)
                            b.update_from_native(o, b.buffer, so, n)
                            evals += 1
                            distinct.add(("ufn_self", so) + case)
                            if buf_bytes(b) != before[:o] + before[so:so + n] + before[o + n:]:
                                bad(f"{cn}.update_from_native", capacity=cap, offset=o, nbytes=n, source_offset=so, problem="source is the buffer itself")
        # ---- typed views and numpy sources
        cap = 64
        for dt in DTYPES:
            isz = np.dtype(dt).itemsize
            for o in ([0, 1, 3, 8, 13] if tier == "quick" else list(range(0, 17))):
                for shape in [(0,), (1,), (3,), (2, 2), (1, 2, 2)]:
                    cnt = int(np.prod(shape))
                    if o + cnt * isz > cap:
                        continue
                    b = cls(capacity=cap, context=ctx)
                    before = poison(b)
                    v = b.to_nplike(o, dt, shape)
                    evals += 1
                    distinct.add((cn, "to_nplike", dt, o, shape))
                    want = np.frombuffer(before[o:o + cnt * isz], dtype=dt).reshape(shape)
                    if v.shape != tuple(shape) or v.dtype != np.dtype(dt) or v.tobytes() != want.tobytes() or buf_bytes(b) != before:
                        bad(f"{cn}.to_nplike", dtype=dt, offset=o, shape=shape, problem="content/shape")
                    elif cnt:
                        # alias both ways
                        idx = (0,) * len(shape)
                        newel = np.frombuffer(bytes([9] * isz), dtype=dt)[0]
                        try:
                            v[idx] = newel
                        except ValueError:
                            v = None
                        now = buf_bytes(b)
                        if v is None or now != before[:o] + bytes([9] * isz) + before[o + isz:]:
                            bad(f"{cn}.to_nplike", dtype=dt, offset=o, shape=shape, problem="a write through the typed view does not reach exactly its bytes of the buffer")
                        else:
                            b.update_from_buffer(o, bytes([5] * isz))
                            if v.tobytes()[:isz] != bytes([5] * isz):
                                bad(f"{cn}.to_nplike", dtype=dt, offset=o, shape=shape, problem="a buffer update is not visible through the typed view")
            for sdt in DTYPES + [">f8", ">i4", ">u2", ">f4", ">i8"]:
                base = (np.arange(6) % 5 + 1).astype(sdt)
                sources = {"C1d": base, "C2d": base.reshape(2, 3), "F2d": np.asfortranarray(base.reshape(2, 3)), "strided": np.repeat(base, 2)[::2],
                           "T3d": base.reshape(1, 2, 3).transpose(2, 0, 1), "empty": base[:0]}
                if np.dtype(sdt).isnative:
                    sources["list"] = [int(x) for x in base]
                for lname, src in sources.items():
                    o = rnd.choice([0, 1, 8, 11])
                    b = cls(capacity=cap, context=ctx)
                    before = poison(b)
                    want = np.asarray(src).astype(dt).tobytes()  # C-order bytes of the converted values
                    try:
                        b.update_from_nplike(o, np.dtype(dt), src)
                        got = buf_bytes(b)
                        ok = got == before[:o] + want + before[o + len(want):]
                        prob = "bytes differ from the C-order encoding of the converted values"
                    except Exception as e:  # noqa
                        ok = False
                        prob = f"raised {type(e).__name__}: {e}"
                    evals += 1
                    distinct.add((cn, "ufnp", dt, sdt, lname))
                    if not ok:
                        bad(f"{cn}.update_from_nplike", dest_dtype=dt, source_dtype=str(sdt), layout=lname, offset=o, problem=prob)
                    elif len(samples) < 3 and lname == "F2d" and dt != sdt:
                        samples.append({"class": cn, "primitive": "update_from_nplike", "dest_dtype": dt, "source_dtype": str(sdt), "layout": lname, "offset": o})
    # ---- the scalar helpers (NumpyScalar._to_buffer / _from_buffer) on memory that held something else: exactly the field's item size is
    # written, whatever python or numpy number type the value arrives in (narrower, wider, same kind or not), and it reads back converted
    kinds = ["Int8", "Int16", "Int32", "Int64", "UInt8", "UInt16", "UInt32", "UInt64", "Float32", "Float64"]
    for cls in classes:
        cn = cls.__name__
        for kn in kinds:
            T_ = getattr(X, kn)
            dt = T_._dtype
            for src_dt in ("int8", "int16", "int32", "int64", "uint8", "uint16", "uint32", "float32", "float64", None):
                for raw in (-2, 7, 3):
                    if src_dt is None:
                        val = raw
                    else:
                        sd = np.dtype(src_dt)
                        if sd.kind == "u" and raw < 0:
                            continue
                        val = sd.type(raw)
                    if dt.kind == "u" and raw < 0:
                        continue
                    b = cls(capacity=40, context=ctx)
                    before = poison(b)
                    o = 11
                    try:
                        T_._to_buffer(b, o, val)
                        got = buf_bytes(b)
                        want = dt.type(raw).tobytes()
                        ok = got == before[:o] + want + before[o + dt.itemsize:] and T_._from_buffer(b, o) == dt.type(raw)
                        prob = "the field's bytes are not the encoding of the converted value, or bytes outside the field changed"
                    except Exception as e:  # noqa
                        ok, prob = False, f"raised {type(e).__name__}: {e}"
                    evals += 1
                    distinct.add(("scalar", cn, kn, src_dt, raw))
                    if not ok:
                        bad(f"{cn}.scalar_to_buffer", field=kn, value_type=str(src_dt or "python int"), value=raw, offset=o, problem=prob)
    # ---- large transfers: sizes around the integer constants that occur in the buffer modules' source (block sizes, thresholds) and around
    # powers of two -- the small-scope enumeration above cannot reach a size-dependent code path
    sizes = sorted(boundary_sizes(tier))
    for cls in classes:
        cn = cls.__name__
        for scls in classes:
            for sctx in (ctx, ctx2):
                if sctx is ctx and scls is not cls:
                    continue
                for n in sizes:
                    o, so = 24, 40
                    cap, scap = o + n + 4096 + 2 * max(sizes) // 1, so + n + 4096 + 2 * max(sizes)
                    b = cls(capacity=cap, context=ctx)
                    b.buffer[:] = np.frombuffer(bytes([0xAB]) * cap, dtype="int8") if cn == "BufferNumpy" else bytes([0xAB]) * cap
                    before = buf_bytes(b)
                    pat = (np.arange(scap, dtype="int64") * 7 % 251).astype("uint8").tobytes()
                    sb = scls(capacity=scap, context=sctx)
                    sb.update_from_buffer(0, pat)
                    try:
                        b.update_from_xbuffer(o, sb, so, n)
                        got = buf_bytes(b)
                        okx = got == before[:o] + pat[so:so + n] + before[o + n:] and buf_bytes(sb) == pat and len(got) == cap
                    except Exception as e:  # noqa
                        okx = f"{type(e).__name__}: {e}"
                    evals += 1
                    distinct.add(("ufx-large", cn, scls.__name__, sctx is ctx, n))
                    if okx is not True:
                        bad(f"{cn}.update_from_xbuffer:large", nbytes=n, offset=o, source_offset=so, source_class=scls.__name__, same_context=sctx is ctx,
                            problem=str(okx) if okx is not False else "bytes outside the requested range changed, or the range holds other bytes")
        for n in sizes:
            # the other primitives at the same sizes
            cap = n + 64
            b = cls(capacity=cap, context=ctx)
            pat = (np.arange(cap, dtype="int64") * 5 % 253).astype("uint8").tobytes()
            b.update_from_buffer(0, pat)
            evals += 3
            distinct.add(("large", cn, n))
            if bytes(bytearray(b.to_bytearray(8, n))) != pat[8:8 + n] or bytes(bytearray(b.to_native(8, n))) != pat[8:8 + n]:
                bad(f"{cn}.to_bytearray/to_native:large", nbytes=n)
            b.update_from_native(16, b.to_native(8, n), 0, n)
            if buf_bytes(b) != pat[:16] + pat[8:8 + n] + pat[16 + n:]:
                bad(f"{cn}.update_from_native:large", nbytes=n)
    return {
        "evaluations": evals, "distinct_nontrivial": len(distinct),
        "rule": f"exhaustive: both buffer classes x capacity 0..{CAP} x every (offset,len) x update_from_buffer(4 source kinds)/to_native/"
                "to_bytearray/to_pointer_arg/update_from_native/copy_to_native/update_from_xbuffer(2 classes x same/other context) with every source offset, "
                "self-overlapping copies, whole-buffer comparison on poisoned buffers; typed views (10 dtypes x offsets incl. unaligned x shapes) "
                "aliasing both ways; update_from_nplike for 10 dest dtypes x 15 source dtypes (incl. foreign byte order) x layouts "
                "{C1d,C2d,F2d,strided,transposed 3-D,empty,list}; distinct by (primitive, class, capacity, offset, len, ...)",
        "exhaustive": True, "violations": _by_key(violations), "samples": samples,
    }


def boundary_sizes(tier):
    """transfer sizes worth trying beyond the small scope: c-1, c, c+1 and 2c+1 for every integer constant c >= 256 found in the source of the
    buffer modules (literals and constant shifts / products / powers of literals), and around 2^12, 2^16, 2^17 (2^20 thorough); capped at 2^22"""
    import ast
    import os
    from pyvc import source as src

    consts = {4096, 65536, 131072} | ({1 << 20} if tier != "quick" else set())
    for rel in ("xobjects/context.py", "xobjects/context_cpu.py"):
        try:
            tree = ast.parse(open(os.path.join(src.REPO, rel)).read())
        except OSError:
            continue
        for node in ast.walk(tree):
            try:
                v = ast.literal_eval(node) if isinstance(node, ast.Constant) else (
                    eval(compile(ast.Expression(node), "<const>", "eval"), {"__builtins__": {}}) if isinstance(node, ast.BinOp) and all(
                        isinstance(x, (ast.Constant, ast.BinOp, ast.operator)) for x in ast.walk(node) if not isinstance(x, (ast.Load,))) else None)
            except Exception:  # noqa
                v = None
            if isinstance(v, int) and not isinstance(v, bool) and 256 <= v <= (1 << 22):
                consts.add(v)
    out = set()
    for c in consts:
        out |= {c - 1, c, c + 1, 2 * c + 1}
    return {n for n in out if 0 < n <= (1 << 22) + 1}


def _by_key(violations, cap=12):
    """one representative per case key (known findings must not crowd out new violations)"""
    seen = {}
    for v in violations:
        seen.setdefault(v.get("case_key"), v)
    return list(seen.values())[:cap]
