"""Deductive part of C14, the collection side: which classes a set of kernels brings into the build.

Kernel.get_classes     for every argument list (any length; abstract Arg objects whose `atype` has an API or not) and every return
                       declaration (none / an Arg): every argument type that has an API is in the result, the return type too when it is
                       declared through an Arg and has an API; nothing else is.
                       The list comprehension is read through the assumed python semantics "[e(a) for a in L if c(a)] holds e(a) for exactly
                       the a in L with c(a)": obligations are that the element expression is the argument's type and the filter is exactly
                       "the type has an API" (no further condition), for a generic argument.
classes_from_kernels   for every dict of kernels (any size): every class that get_classes() of any kernel of the dict returns is a member of
                       the result (invariant over the loop: members so far include the classes of the kernels processed so far; set.update
                       adds, never removes).
With sort_classes (closure over dependencies) these give "the API of every class the kernels depend on is emitted".
"""
import z3

from pyvc.registry import reg
from pyvc.interp import Interp
from pyvc.interp_ext import LoopSpec
from pyvc.core import _Mut, SymObj, Unsupported, fresh_int, fresh_name, fresh_bool, to_z3, HARNESS_ERRORS
from .sortclasses_vc import _Fn

CTX = "xobjects/context.py"
I = z3.IntSort()
B = z3.BoolSort()
HASAPI = z3.Function("type_has_c_api", I, B)
ATYPE = z3.Function("type_of_argument", I, I)
KCLS = z3.Function("class_returned_by_get_classes", I, I, I)   # kernel, position -> class
KN = z3.Function("n_classes_of_kernel", I, I)


def _contract(qual):
    key = (CTX, qual)
    sp = type("spec_" + qual.replace(".", "_"), (), {"params": {}, "properties": ["C14"]})
    saved = reg.contracts.get(key)
    reg.contract(CTX, qual)(sp)
    c = reg.contracts[key]
    c.inline = True
    if saved is not None:
        reg.contracts[key] = saved
    return c


class TypeRef:
    def __init__(self, tid):
        self.tid = tid

    def has_attr(self, attr):
        if attr == "_gen_c_api":
            return HASAPI(self.tid)
        raise Unsupported(f"hasattr(type, {attr!r})")


class ArgRef:
    def __init__(self, aid):
        self.aid = aid

    def getattr(self, interp, st, attr, node):
        if attr == "atype":
            yield st, TypeRef(ATYPE(self.aid))
        elif attr in ("pointer", "const"):
            yield st, z3.Function("arg_" + attr, I, B)(self.aid)
        else:
            raise Unsupported(f"Arg.{attr}")

    def isinstance(self, interp, c):
        return getattr(c, "name", None) == "Arg"


class ArgSeq:
    """kernel.args: arguments A[0..n)"""

    def __init__(self):
        self.n = fresh_int("n_args")
        self.A = z3.Array(fresh_name("args"), I, I)


class ClsList(_Mut):
    """result list of get_classes: membership predicate (what the comprehension semantics gives) + appended elements"""

    def __init__(self, member):
        super().__init__()
        self.member = member  # python function: class id -> z3 Bool

    def clone_mut(self, cp):
        c = ClsList.__new__(ClsList)
        c.member = self.member
        return c

    def getattr(self, interp, st, attr, node):
        if attr == "append":
            def app(i, s, a, k, nd):
                me = i._relocate(s, self)
                old = me.member
                v = a[0].tid if isinstance(a[0], TypeRef) else to_z3(a[0])
                me.member = lambda x, old=old, v=v: z3.Or(old(x), x == v)
            yield st, _Fn(app)
        else:
            raise Unsupported(f"list.{attr}")


def vc_get_classes():
    obs = []
    its = []
    for ret in ("none", "arg", "not_an_arg"):
        it = Interp(reg)
        it.obligations = []
        it.path_counter = {}
        it.overrides = {}
        it.class_home = {"Kernel": CTX, "Arg": CTX}
        its.append(it)
        con = _contract("Kernel.get_classes")
        it.contract = con
        seq = ArgSeq()
        shape = {}

        def ev_ListComp(st, n, seq=seq, shape=shape, it=it):
            if len(n.generators) != 1:
                raise Unsupported("nested comprehension")
            g = n.generators[0]
            for st1, sq in it.ev(st, g.iter):
                if sq is not seq:
                    raise Unsupported("comprehension over something else than kernel.args")
                a = fresh_int("generic_arg")
                saved = dict(st1.locals)
                for _ in it.assign(st1, g.target, ArgRef(a)):
                    pass
                conds = [it.truth(st1, it.sv(st1, c)) for c in g.ifs]
                elt = it.sv(st1, n.elt)
                st1.frames[-1].locals = saved
                shape["a"], shape["conds"], shape["elt"] = a, conds, elt
                cond = z3.And(*[to_z3(c) for c in conds]) if conds else z3.BoolVal(True)
                eltz = elt.tid if isinstance(elt, TypeRef) else None

                def member(x, a=a, cond=cond, eltz=eltz):
                    # assumed python semantics of the comprehension: x is listed iff some argument of the list passes the filter and maps to x
                    k = z3.Int(fresh_name("k"))
                    if eltz is None:
                        return z3.BoolVal(False)
                    return z3.Exists([k], z3.And(0 <= k, k < seq.n, z3.substitute(cond, (a, seq.A[k])), z3.substitute(eltz, (a, seq.A[k])) == x))
                yield st1, ClsList(member)
        it.ev_ListComp = ev_ListComp
        rtype = fresh_int("ret_type")
        if ret == "none":
            rv = None
        elif ret == "arg":
            class RetArg(ArgRef):
                def getattr(self, interp, st, attr, node):
                    if attr == "atype":
                        yield st, TypeRef(rtype)
                    else:
                        raise Unsupported(f"Arg.{attr}")
            rv = RetArg(fresh_int("ret_arg"))
        else:
            rv = SymObj("Void", {})
            rv.closed = True
        kern = SymObj("Kernel", {"args": seq, "ret": rv, "c_name": None, "n_threads": 1})
        kern.closed = True
        try:
            for st, out in it.exec_function(con, {"self": kern}, pre=[seq.n >= 0]):
                ob = lambda c, g: it.oblige(st, "post", f"{c}[ret_{ret}]", g if not isinstance(g, bool) else z3.BoolVal(g))
                if out is None or out[0] != "return" or not isinstance(out[1], ClsList):
                    ob("returns_a_list", False)
                    continue
                res = it._relocate(st, out[1])
                k, x = z3.Int(fresh_name("k")), z3.Int(fresh_name("x"))
                ob("every_argument_type_with_an_api_is_listed", z3.ForAll([k], z3.Implies(z3.And(0 <= k, k < seq.n, HASAPI(ATYPE(seq.A[k]))), res.member(ATYPE(seq.A[k])))))
                extra = z3.And(HASAPI(rtype), x == rtype) if ret == "arg" else z3.BoolVal(False)
                kk = z3.Int(fresh_name("kk"))
                ob("nothing_else_is_listed", z3.ForAll([x], z3.Implies(res.member(x), z3.Or(extra, z3.Exists([kk], z3.And(0 <= kk, kk < seq.n, HASAPI(ATYPE(seq.A[kk])), ATYPE(seq.A[kk]) == x))))))
                if ret == "arg":
                    ob("return_type_with_an_api_is_listed", z3.Implies(HASAPI(rtype), res.member(rtype)))
        except HARNESS_ERRORS as e:
            vc_get_classes.undecided.append((ret, f"{type(e).__name__}: {e}"[:160]))
        obs += it.obligations
    vc_get_classes.interps = its
    return obs


class ClsSet(_Mut):
    def __init__(self):
        super().__init__()
        self.M = z3.K(I, z3.BoolVal(False))

    def clone_mut(self, cp):
        c = ClsSet.__new__(ClsSet)
        c.M = self.M
        return c

    def getattr(self, interp, st, attr, node):
        if attr == "update":
            def upd(i, s, a, k, nd):
                me = i._relocate(s, self)
                other = a[0]
                if not isinstance(other, KernelClasses):
                    raise Unsupported("set.update with something else than kernel.get_classes()")
                new = z3.Array(fresh_name("members"), I, B)
                x, j = z3.Int(fresh_name("x")), z3.Int(fresh_name("j"))
                # python: s.update(L) -- afterwards x in s  iff  x was in s or x is an element of L
                s.assume(z3.ForAll([x], new[x] == z3.Or(me.M[x], z3.Exists([j], z3.And(0 <= j, j < KN(other.kid), KCLS(other.kid, j) == x))), patterns=[new[x]]))
                me.M = new
            yield st, _Fn(upd)
        else:
            raise Unsupported(f"set.{attr}")


class KernelClasses:
    def __init__(self, kid):
        self.kid = kid


class KernelRef:
    def __init__(self, kid):
        self.kid = kid

    def getattr(self, interp, st, attr, node):
        if attr == "get_classes":
            yield st, _Fn(lambda i, s, a, k, n: KernelClasses(self.kid))
        else:
            raise Unsupported(f"kernel.{attr}")


class KernelDict:
    def __init__(self, loop):
        self.n = fresh_int("n_kernels")
        self.KS = z3.Array(fresh_name("kernels"), I, I)
        self.loop = loop

    def getattr(self, interp, st, attr, node):
        if attr in ("items", "values"):
            yield st, _Fn(lambda i, s, a, k, n: _View(self, attr))
        else:
            raise Unsupported(f"dict.{attr}")


class _View:
    def __init__(self, d, kind):
        self.d, self.kind = d, kind

    def iterate(self, interp, st, s):
        yield from self.d.loop.run(interp, st, s, self)


def vc_classes_from_kernels():
    it = Interp(reg)
    it.obligations = []
    it.path_counter = {}
    it.overrides = {}
    con = _contract("classes_from_kernels")
    it.contract = con
    holder = {}

    def inv(st, P):
        cs = it._relocate(st, holder["set"])
        d = holder["dict"]
        t, j = z3.Int(fresh_name("t")), z3.Int(fresh_name("j"))
        return [("bounds", z3.And(0 <= P, P <= d.n)),
                ("classes_of_processed_kernels_are_members",
                 z3.ForAll([t, j], z3.Implies(z3.And(0 <= t, t < P, 0 <= j, j < KN(d.KS[t])), cs.M[KCLS(d.KS[t], j)])))]

    def L_init(interp, st, k, node):
        for nm, f in inv(st, z3.IntVal(0)):
            interp.oblige(st, f"inv{k}.init", nm, f, node.lineno)

    def L_head(interp, st):
        cs = it._relocate(st, holder["set"])
        cs.M = z3.Array(fresh_name("members"), I, B)
        P = fresh_int("processed")
        for nm, f in inv(st, P):
            st.assume(f)
        st.ghost["__P"] = P
        return {"P": P}

    def L_alts():
        def mk_items(st):
            P = st.ghost["__loop_ghost"]["P"]
            st.assume(P < holder["dict"].n)
            return (fresh_int("kernel_name"), KernelRef(z3.Select(holder["dict"].KS, P)))
        yield "next_kernel", mk_items

    def L_pres(interp, st, g, label, elem, k, node):
        for nm, f in inv(st, g["P"] + 1):
            interp.oblige(st, f"inv{k}.preserve", nm, f, node.lineno)

    from .sortclasses_vc import LoopSpecX

    def L_exit(interp, st, g):
        st.assume(g["P"] == holder["dict"].n)
        st.ghost["__exit_P"] = g["P"]
    loop = LoopSpecX(L_init, L_head, L_alts, L_pres, L_exit)
    d = KernelDict(loop)
    holder["dict"] = d

    def mk_set(i, s, a, k, n):
        if a:
            raise Unsupported("set(...) with an argument")
        cs = ClsSet()
        holder.setdefault("set", cs)
        return cs
    it.extern_names = {"set": _Fn(mk_set)}
    it.bi_set = lambda st, f, args, kw, node: mk_set(it, st, args, kw, node)
    try:
        for st, out in it.exec_function(con, {"kernels": d}, pre=[d.n >= 0] + [KN(z3.Int("kq!")) >= 0]):
            if out is None or out[0] != "return" or not isinstance(out[1], ClsSet):
                it.oblige(st, "post", "returns_the_set", False)
                continue
            if st.ghost.get("__exit_P") is None:
                it.oblige(st, "post", "loop_ran_over_all_kernels", False)
                continue
            for nm, f in inv(st, d.n):
                it.oblige(st, "post", nm, f)
    except HARNESS_ERRORS as e:
        vc_classes_from_kernels.undecided.append(("classes_from_kernels", f"{type(e).__name__}: {e}"[:160]))
    vc_classes_from_kernels.interps = [it]
    return list(it.obligations)


def _wrap(name, fn, functions):
    def g():
        fn.undecided = []
        obs = fn()
        g.undecided = list(fn.undecided)
        its = getattr(fn, "interps", [])

        class _I:
            n_paths = len(obs)
            stats = {"inlined": set().union(*[i.stats["inlined"] for i in its]) if its else set()}
        g.interp = _I
        for o in obs:
            o.properties = ["C14"]
        return obs
    g.__name__ = name
    g.functions = functions
    return g


GROUPS = {"kernel_get_classes": (_wrap("Kernel.get_classes", vc_get_classes, [(CTX, "Kernel.get_classes")]), ["C14"]),
          "classes_from_kernels": (_wrap("classes_from_kernels", vc_classes_from_kernels, [(CTX, "classes_from_kernels")]), ["C14"])}


def targets():
    return [("<gen>", g) for g, _ in GROUPS.values()]
