"""Deductive part of C18 (the part of hybrid_class.py inside the python subset): HybridClass.move, HybridClass.copy,
HybridClass.__getstate__ on an abstract dressed object (its `_xobject` is an abstract struct instance whose class is callable:
calling it is the copy-construction of C09, recorded as an event; `_reinit_from_xobject` -- descriptors, computed attribute names
-- is used through its contract: "re-dresses the nested parts around the given xobject", recorded as an event).

move   refused (an error, nothing constructed, `_xobject` unchanged) when the object lives within another (`_movable` False) or
       its data holds references -- unless `_force_moveable`; otherwise exactly one new xobject is copy-constructed from the old one
       with the requested context / buffer / offset, it becomes `_xobject`, and the nested dressed parts are re-initialised from it
       (so they move too);
copy   exactly one new xobject copy-constructed from the old one (C09: equal, storage-disjoint) in the requested place -- the
       object's own context when neither context nor buffer is given -- wrapped in a new object of the same python class; the
       original's `_xobject` is unchanged;
state  __getstate__ is the state of the xobject (so C20's struct obligations apply).
Descriptors (_FieldOfDressed), MetaHybridClass.__new__, to_dict/from_dict stay with the bounded part.
"""
import z3

from pyvc.registry import reg
from pyvc.interp import Interp
from pyvc.core import SymObj, Unsupported, fresh_bool, fresh_int, HARNESS_ERRORS, same_value

HYB = "xobjects/hybrid_class.py"


def _contract(qualname):
    key = (HYB, qualname)
    if key not in reg.contracts:
        sp = type("spec_" + qualname.replace(".", "_"), (), {"params": {}, "properties": ["C18"]})
        reg.contract(HYB, qualname)(sp)
        reg.contracts[key].inline = True
    return reg.contracts[key]


class _Callable:
    def __init__(self, fn):
        self.fn = fn

    def call(self, interp, st, args, kwargs, node):
        yield st, self.fn(interp, st, args, kwargs, node)


def _env():
    it = Interp(reg)
    it.obligations = []
    it.path_counter = {}
    it.overrides = {}
    it.class_home = {"HybridClass": HYB}
    return it


def _model(it, movable, force, has_refs):
    """a dressed object: python class H (callable), data class X (callable: copy construction), xobject x"""
    def construct_x(i, st, a, k, n):
        new = SymObj("instance", {"__class__": X, "_buffer": SymObj("XBuffer", {"context": k.get("_context")}), "_offset": fresh_int("new_offset"), "_has_refs": has_refs})
        new.closed = True
        new.attrs["__getstate__"] = _Callable(lambda i_, s_, a_, k_, n_, uid=new.uid: ("xobject-state", uid))
        st.recorded = getattr(st, "recorded", []) + [("construct", "X", tuple(a), dict(k), new.uid)]
        st.ghost[f"__new{new.uid}"] = new
        return new
    X = SymObj("MetaStruct", {"__name__": "Data", "_has_refs": has_refs, "__call__": None})
    X.closed = True
    X.call = lambda interp, st, args, kwargs, node: iter([(st, construct_x(interp, st, args, kwargs, node))])
    own_ctx = SymObj("ContextCpu", {})
    own_ctx.closed = True
    own_buf = SymObj("XBuffer", {"context": own_ctx})
    own_buf.closed = True
    x = SymObj("instance", {"__class__": X, "_buffer": own_buf, "_offset": fresh_int("offset"), "_has_refs": has_refs,
                            "__getstate__": _Callable(lambda i, s, a, k, n: ("xobject-state", x.uid))})
    x.closed = True

    def construct_h(i, st, a, k, n):
        new = SymObj("instance", {"__class__": H, "_xobject": k.get("_xobject")})
        st.recorded = getattr(st, "recorded", []) + [("dress", "H", tuple(a), dict(k), new.uid)]
        st.ghost[f"__new{new.uid}"] = new
        return new
    H = SymObj("MetaHybridClass", {"__name__": "Dressed", "_XoStruct": X, "_movable": True, "_force_moveable": False})
    H.closed = True
    H.instance_class = "HybridClass"
    H.call = lambda interp, st, args, kwargs, node: iter([(st, construct_h(interp, st, args, kwargs, node))])
    h = SymObj("instance", {"__class__": H, "_xobject": x, "_movable": movable, "_force_moveable": force, "_XoStruct": X})
    h.closed = True
    return h, x, X, H, own_ctx


def vc_move():
    obs = []
    its = []
    con = _contract("HybridClass.move")
    for movable in (True, False):
        for force in (False,):  # `_force_moveable` is an internal override the statement does not speak about: not pinned
          for has_refs in (False, True):
            for target in ("other_buffer", "own_buffer", "no_buffer"):
                lab = f"{'top' if movable else 'nested'}:{'refs' if has_refs else 'ref_free'}{':forced' if force else ''}:to_{target}"
                it = _env()
                its.append(it)
                h, x, X, H, own_ctx = _model(it, movable, force, has_refs)

                def ov_reinit(i, st, f, a, k, n):
                    me = i._relocate(st, f.bound) if getattr(f, "bound", None) is not None else None
                    st.recorded = getattr(st, "recorded", []) + [("reinit", k.get("_xobject", a[0] if a else None))]
                    if me is not None:
                        me.attrs["_xobject"] = k.get("_xobject", a[0] if a else None)
                    yield st, None
                it.overrides[(HYB, "HybridClass._reinit_from_xobject")] = ov_reinit
                if target == "own_buffer":
                    tgt_buf = x.attrs["_buffer"]
                elif target == "other_buffer":
                    tgt_buf = SymObj("XBuffer", {"context": SymObj("ContextCpu", {})})
                    tgt_buf.closed = True
                else:
                    tgt_buf = None
                off = fresh_int("target_offset") if tgt_buf is not None else None
                try:
                    for st, out in it.exec_function(con, {"self": h, "_context": None, "_buffer": tgt_buf, "_offset": off}):
                        ob = lambda c, g: it.oblige(st, "post", f"{c}[{lab}]", g if not isinstance(g, bool) else z3.BoolVal(g))
                        me = it._relocate(st, h)
                        ev = getattr(st, "recorded", [])
                        cons = [e for e in ev if e[0] == "construct"]
                        refused = out is not None and out[0] == "raise"
                        must_refuse = (not movable or has_refs) and not force
                        if must_refuse:
                            ob("refused", refused)
                            ob("refused_move_constructs_nothing", len(cons) == 0)
                            ob("refused_move_keeps_the_xobject", me.attrs.get("_xobject") is x or getattr(me.attrs.get("_xobject"), "uid", None) == x.uid)
                            continue
                        ob("accepted", not refused)
                        ok = len(cons) == 1
                        ob("one_copy_construction", ok)
                        if ok:
                            c = cons[0]
                            ob("copied_from_the_old_xobject", len(c[2]) == 1 and getattr(c[2][0], "uid", None) == x.uid)
                            ob("into_the_requested_buffer", getattr(c[3].get("_buffer"), "uid", None) == getattr(tgt_buf, "uid", None) and (tgt_buf is not None or c[3].get("_buffer") is None))
                            ob("at_the_requested_offset", same_value(c[3].get("_offset"), off))
                            ob("new_xobject_installed", getattr(me.attrs.get("_xobject"), "uid", None) == c[4])
                            re_ = [e for e in ev if e[0] == "reinit"]
                            ob("nested_parts_reinitialised_from_the_new_xobject", len(re_) >= 1 and getattr(re_[-1][1], "uid", None) == c[4])
                except HARNESS_ERRORS as e:
                    vc_move.undecided.append((lab, f"{type(e).__name__}: {e}"[:160]))
                obs += it.obligations
    vc_move.interps = its
    return obs


def vc_copy():
    obs = []
    its = []
    con = _contract("HybridClass.copy")
    for place in ("default", "buffer", "context"):
        for has_refs in (False, True):
            lab = f"{place}:{'refs' if has_refs else 'ref_free'}"
            it = _env()
            its.append(it)
            h, x, X, H, own_ctx = _model(it, True, False, has_refs)
            tgt_buf = SymObj("XBuffer", {"context": SymObj("ContextCpu", {})})
            tgt_buf.closed = True
            tgt_ctx = SymObj("ContextCpu", {})
            tgt_ctx.closed = True
            args = {"self": h, "_context": tgt_ctx if place == "context" else None, "_buffer": tgt_buf if place == "buffer" else None, "_offset": None}
            try:
                for st, out in it.exec_function(con, args):
                    ob = lambda c, g: it.oblige(st, "post", f"{c}[{lab}]", g if not isinstance(g, bool) else z3.BoolVal(g))
                    me = it._relocate(st, h)
                    ev = getattr(st, "recorded", [])
                    cons = [e for e in ev if e[0] == "construct"]
                    dress = [e for e in ev if e[0] == "dress"]
                    ob("returns", out is not None and out[0] == "return")
                    ob("original_keeps_its_xobject", getattr(me.attrs.get("_xobject"), "uid", None) == x.uid)
                    ok = len(cons) == 1 and len(dress) == 1
                    ob("one_copy_construction_one_new_python_object", ok)
                    if ok:
                        c, d = cons[0], dress[0]
                        ob("copied_from_the_own_xobject", len(c[2]) == 1 and getattr(c[2][0], "uid", None) == x.uid)
                        if place == "buffer":
                            ob("into_the_requested_buffer", getattr(c[3].get("_buffer"), "uid", None) == tgt_buf.uid)
                        elif place == "context":
                            ob("in_the_requested_context", getattr(c[3].get("_context"), "uid", None) == tgt_ctx.uid and c[3].get("_buffer") is None)
                        else:
                            ob("in_its_own_context", getattr(c[3].get("_context"), "uid", None) == own_ctx.uid and c[3].get("_buffer") is None)
                        ob("new_object_wraps_the_copy", getattr(d[3].get("_xobject"), "uid", None) == c[4])
                        ob("result_is_the_new_object", out is not None and out[0] == "return" and getattr(out[1], "uid", None) == d[4])
                        # frame on the ownership flags: whether an object may be moved is decided where it is built or stored (the
                        # constructor, the field descriptor), copy() itself does not declare its result movable / forced
                        if out is not None and out[0] == "return" and isinstance(out[1], SymObj):
                            new = it._relocate(st, out[1])
                            ob("copy_does_not_set_ownership_flags_on_its_result", "_movable" not in new.attrs and "_force_moveable" not in new.attrs)
            except HARNESS_ERRORS as e:
                vc_copy.undecided.append((lab, f"{type(e).__name__}: {e}"[:160]))
            obs += it.obligations
    vc_copy.interps = its
    return obs


def vc_state():
    """__getstate__ of a dressed object -- top-level or living within another (nested field, target of a reference), with or without
    references in its data: the state is the state of its own xobject (buffer, offset), so objects pickled together keep sharing
    the buffer they shared (C20); nothing is constructed or copied on the way."""
    obs = []
    its = []
    con = _contract("HybridClass.__getstate__")
    for movable in (True, False):
        for has_refs in (False, True):
            lab = f"{'top' if movable else 'nested'}:{'refs' if has_refs else 'ref_free'}"
            it = _env()
            its.append(it)
            h, x, X, H, own_ctx = _model(it, movable, False, has_refs)
            try:
                for st, out in it.exec_function(con, {"self": h}):
                    cons = [e for e in getattr(st, "recorded", []) if e[0] in ("construct", "dress")]
                    it.oblige(st, "post", f"state_is_the_state_of_the_xobject[{lab}]", z3.BoolVal(out is not None and out[0] == "return" and out[1] == ("xobject-state", x.uid)))
                    it.oblige(st, "post", f"nothing_constructed[{lab}]", z3.BoolVal(len(cons) == 0))
            except HARNESS_ERRORS as e:
                vc_state.undecided.append((lab, f"{type(e).__name__}: {e}"[:160]))
            obs += it.obligations
    vc_state.interps = its
    return obs


def vc_setstate():
    """HybridClass.__setstate__ on a bare instance (what pickle makes) with the state (buffer, offset): the data object becomes the view
    that the data class rebuilds from exactly that buffer and offset (C06 / C20 struct obligations then apply to it), nothing is
    copy-constructed, and the nested dressed parts are re-initialised from that same view."""
    obs = []
    it = _env()
    con = _contract("HybridClass.__setstate__")
    h, x, X, H, own_ctx = _model(it, True, False, False)
    bare = SymObj("instance", {"__class__": H, "_XoStruct": X})
    bare.closed = True
    sbuf = SymObj("XBuffer", {"context": own_ctx})
    sbuf.closed = True
    soff = fresh_int("state_offset")

    def from_buffer(i, st, a, k, n):
        v = SymObj("instance", {"__class__": X, "_buffer": k.get("buffer", a[0] if a else None), "_offset": k.get("offset", a[1] if len(a) > 1 else None)})
        v.closed = True
        st.recorded = getattr(st, "recorded", []) + [("from_buffer", v.attrs["_buffer"], v.attrs["_offset"], v.uid)]
        st.ghost[f"__new{v.uid}"] = v
        return v
    X.attrs["_from_buffer"] = _Callable(from_buffer)

    def ov_reinit(i, st, f, a, k, n):
        # contract of _reinit_from_xobject: installs the given xobject as the data object and re-dresses the nested parts around it
        xo_ = k.get("_xobject", a[0] if a else None)
        st.recorded = getattr(st, "recorded", []) + [("reinit", xo_)]
        tgt = getattr(f, "bound_self", None) or getattr(f, "bound", None)
        if tgt is not None:
            i._relocate(st, tgt).attrs["_xobject"] = xo_
        yield st, None
    it.overrides[(HYB, "HybridClass._reinit_from_xobject")] = ov_reinit
    try:
        for st, out in it.exec_function(con, {"self": bare, "state": (sbuf, soff)}):
            ob = lambda c, g: it.oblige(st, "post", c, g if not isinstance(g, bool) else z3.BoolVal(g))
            if out is not None and out[0] == "raise":
                ob("never_raises", False)
                continue
            ev = getattr(st, "recorded", [])
            fb = [e for e in ev if e[0] == "from_buffer"]
            ob("nothing_copy_constructed", not [e for e in ev if e[0] in ("construct", "dress")])
            ok = len(fb) == 1
            ob("one_view_rebuilt", ok)
            if ok:
                ob("view_of_the_pickled_buffer_and_offset", getattr(fb[0][1], "uid", None) == sbuf.uid and same_value(fb[0][2], soff) is True)
                me = it._relocate(st, bare)
                ob("view_installed_as_the_data_object", getattr(me.attrs.get("_xobject"), "uid", None) == fb[0][3])
                re_ = [e for e in ev if e[0] == "reinit"]
                ob("nested_parts_reinitialised_from_the_view", len(re_) >= 1 and getattr(re_[-1][1], "uid", None) == fb[0][3])
    except HARNESS_ERRORS as e:
        vc_setstate.undecided.append(("setstate", f"{type(e).__name__}: {e}"[:160]))
    vc_setstate.interps = [it]
    return list(it.obligations)


GROUPS = {}


def _group(name, fn, functions, props):
    def g():
        fn.undecided = []
        obs = fn()
        g.undecided = list(fn.undecided)
        its = getattr(fn, "interps", [])

        class _I:
            n_paths = sum(getattr(i, "n_paths", 0) or 0 for i in its) or len(obs)
            stats = {"inlined": set().union(*[i.stats["inlined"] for i in its]) if its else set()}
        g.interp = _I
        for o in obs:
            o.properties = list(props)
        return obs
    g.__name__ = name
    g.functions = functions
    GROUPS[name] = (g, props)
    return g


_group("hybrid_move", vc_move, [(HYB, "HybridClass.move")], ["C18"])
_group("hybrid_copy", vc_copy, [(HYB, "HybridClass.copy")], ["C18"])
_group("hybrid_state", vc_state, [(HYB, "HybridClass.__getstate__")], ["C18", "C20"])
_group("hybrid_setstate", vc_setstate, [(HYB, "HybridClass.__setstate__")], ["C20"])


def targets(prop="C18"):
    return [("<gen>", g) for g, props in GROUPS.values() if prop in props]
