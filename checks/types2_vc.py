"""More obligations on the type layer (merged into checks/types_vc.GROUPS at import time).

  typeutils.allocate_on_buffer      wrong-owner arguments are refused before anything is allocated (C11); otherwise the returned
                                    offset is the explicit one or the result of buffer.allocate(size, align) (C01/C03 placement)
  array.Array._to_buffer            writer of static-item arrays over the generic sequence path: every item is written at the
                                    documented address o + D + w*pos(idx) (invariant over iter_index under its contract), header
                                    words at the documented positions, nothing outside the object (C03, C05, C01)
"""
import ast
import z3

from pyvc.core import SymObj, PList, PDict, ClassVal, fresh_int, fresh_bool, fresh_name, Unsupported, State, FuncVal
from pyvc.interp_ext import LoopSpec
from pyvc import xbuf as XB
from . import types_vc as T

TU = "xobjects/typeutils.py"
ARR = "xobjects/array.py"


def vc_allocate_on_buffer():
    obs = []
    its = []
    con = T._contract(TU, "allocate_on_buffer", [])
    ctx_a = SymObj("ContextCpu", {"__name__": "ctxA"})
    ctx_b = SymObj("ContextCpu", {"__name__": "ctxB"})

    def run(label, buffer, context, offset, check):
        it = T.new_interp()
        its.append(it)
        default_ctx = SymObj("ContextCpu", {"__name__": "default"})

        class NewBuffer:
            def call(self, interp, st, a, k, n):
                b = XB.XBuf("fresh", context=self.ctx)
                st.recorded = getattr(st, "recorded", []) + [("new_buffer", self.ctx, a[0])]
                st.ghost[f"__new{b.uid}"] = b
                yield st, b
        for c in (ctx_a, ctx_b, default_ctx):
            nb = NewBuffer()
            nb.ctx = c
            c.attrs["new_buffer"] = nb
            c.closed = True
        it.extern_names = {"context_default": default_ctx}
        size = fresh_int("size")
        try:
            for st, out in it.exec_function(con, {"size": size, "context": context, "buffer": buffer, "offset": offset}, pre=[size >= 0]):
                ob = lambda c, g: it.oblige(st, "post", f"{c}[{label}]", g if not isinstance(g, bool) else z3.BoolVal(g))
                check(st, out, ob, size)
        except Unsupported as e:
            vc_allocate_on_buffer.undecided.append((label, str(e)[:150]))
        return it.obligations

    def no_alloc(st):
        idx = {}
        from pyvc.interp import _index_muts

        _index_muts(st, idx)
        return all(not getattr(v, "allocs", None) for v in idx.values() if isinstance(v, XB.XBuf)) and not getattr(st, "recorded", [])

    # offset without buffer -> ValueError, nothing created
    def chk_raise(st, out, ob, size):
        ob("raises_ValueError", out is not None and out[0] == "raise" and out[1] == "ValueError")
        ob("nothing_allocated", no_alloc(st))
    obs += run("offset_without_buffer", None, None, fresh_int("offset"), chk_raise)
    obs += run("offset_without_buffer_with_context", None, ctx_a, fresh_int("offset"), chk_raise)
    # buffer of another context -> ValueError before allocate
    bufb = XB.XBuf("buf", context=ctx_b)
    obs += run("context_mismatch", bufb, ctx_a, None, chk_raise)
    obs += run("context_mismatch_with_offset", XB.XBuf("buf", context=ctx_b), ctx_a, fresh_int("offset"), chk_raise)

    # explicit integer offset: returned unchanged, no allocation
    def chk_explicit(st, out, ob, size):
        ok = out is not None and out[0] == "return" and isinstance(out[1], tuple) and len(out[1]) == 2
        ob("returns_pair", ok)
        if ok:
            ob("same_buffer", getattr(out[1][0], "uid", None) == bufa.uid)
            ob("offset_unchanged", out[1][1] is off_e)
            ob("nothing_allocated", not it_allocs(st, bufa))
    bufa = XB.XBuf("buf", context=ctx_a)
    off_e = fresh_int("offset")

    def it_allocs(st, b):
        idx = {}
        from pyvc.interp import _index_muts

        _index_muts(st, idx)
        bb = idx.get(b.uid)
        return bool(bb and bb.allocs)
    obs += run("explicit_offset", bufa, ctx_a, off_e, chk_explicit)
    obs += run("explicit_offset_no_context", bufa, None, off_e, chk_explicit)

    # no offset / 'aligned' / 'packed': exactly one allocation of `size` on the given buffer
    for lab, offv in (("allocated", None), ("aligned", "aligned"), ("packed", "packed")):
        bufc = XB.XBuf("buf", context=ctx_a)

        def chk_alloc(st, out, ob, size, bufc=bufc):
            ok = out is not None and out[0] == "return" and isinstance(out[1], tuple) and len(out[1]) == 2
            ob("returns_pair", ok)
            if ok:
                b = out[1][0]
                ob("same_buffer", getattr(b, "uid", None) == bufc.uid)
                ob("one_allocation_of_size", len(b.allocs) == 1 and b.allocs[0][1] is size)
                if b.allocs:
                    ob("offset_is_allocation_result", out[1][1] is b.allocs[0][0])
        obs += run(lab, bufc, ctx_a, offv, chk_alloc)

    # no buffer: a fresh buffer of capacity `size` on the given / default context, then one allocation
    def chk_fresh(st, out, ob, size):
        rec = getattr(st, "recorded", [])
        ok = out is not None and out[0] == "return" and isinstance(out[1], tuple)
        ob("returns_pair", ok)
        ob("one_new_buffer_of_capacity_size", len(rec) == 1 and rec[0][0] == "new_buffer" and rec[0][2] is size)
        if ok:
            ob("allocated_in_new_buffer", len(out[1][0].allocs) == 1 and out[1][1] is out[1][0].allocs[0][0])
    obs += run("no_buffer_given_context", None, ctx_a, None, chk_fresh)
    obs += run("no_buffer_default_context", None, None, None, chk_fresh)
    vc_allocate_on_buffer.interps = its
    return obs


T.group("allocate_on_buffer", vc_allocate_on_buffer, [(TU, "allocate_on_buffer")], ["C11", "C01", "C03"])


# ------------------------------------------------------------------------------------------------ Array._to_buffer (static items)
class IndexSeq:
    """iter_index(shape, order) under its contract: the k-th yielded index (k = 0 .. prod(shape)-1) is the index whose memory
    position is k (mixed radix over the axes in memory order).  Assumed here; validated natively for all shapes <= 3^3 x orders."""

    def __init__(self, shape, order, loop):
        self.shape, self.order, self.loop = shape, order, loop

    def iterate(self, interp, st, s):
        yield from self.loop.run(interp, st, s, self)


def mem_pos(idx, shape, order):
    r = len(shape)
    pos = z3.IntVal(0)
    for m in range(r):
        pos = pos + idx[order[m]] * T.prod([shape[order[n]] for n in range(m + 1, r)])
    return pos


class AbsValue:
    """the value to store: value[idx] is an opaque item"""

    def has_attr(self, attr):
        return attr == "shape"

    def getitem(self, interp, st, i, node):
        return ("item", i)


def vc_array_writer():
    """Array._to_buffer, generic-sequence path with statically sized items, given an Info satisfying ArrayInfoInv (shape, documented
    strides, size = slot(D + w*prod(shape))): header words at the documented positions, item idx written at o + D + w*pos(idx) =
    o + D + sum idx_k*stride_k, every write inside [o, o+size), nothing else changed."""
    from contracts import capi as K

    obs = []
    its = []
    con = T._contract(ARR, "Array._to_buffer", [])
    for rank, mask in K.array_masks():
        for order in T.perms(rank):
            lab = f"{'x'.join('N' if m else 's' for m in mask)}:order{''.join(map(str, order))}"
            it = T.new_interp()
            its.append(it)
            it.class_home.update({"Array": ARR, "NumpyScalar": "xobjects/scalar.py"})
            i64 = T.int64_scalar()
            it.extern_names = {"Int64": i64}
            XB.install_int64(it, i64)
            st0 = State()
            cls = T.array_class(st0, rank, mask, True, order)
            sp = cls.spec
            w, D, ndyn = sp["w"], sp["D"], sp["ndyn"]
            tc = T.TypeContractObj("Item", w, st0)
            item = tc.as_symobj()
            item.absent = {"_dtype", "_update"}
            cls.attrs["_itemtype"] = item
            shape = [sp["dims"][k] if not mask[k] else fresh_int(f"n{k}") for k in range(rank)]
            n_items = T.prod(shape)
            strides = T.doc_strides(shape, order, w)
            size = T.slot_int(D + w * n_items) if cls.attrs["_size"] is None else cls.attrs["_size"]
            buf = XB.XBuf("buf")
            o = fresh_int("offset")
            info = SymObj("Info", {"size": size, "shape": tuple(shape), "strides": tuple(strides), "order": PList(list(order)), "value": AbsValue(),
                                   "items": n_items})
            info.closed = True
            pre = list(st0.pc) + [T.SLOT_AX, o >= 0, buf.cap < 2 ** 62, o + size <= buf.cap] + [s >= 0 for s in shape] + [size < 2 ** 62]
            pre += [s < 2 ** 62 for s in shape] + [s < 2 ** 62 for s in strides]  # header words fit int64 (machine arithmetic treated as mathematical below 2^62)
            if cls.attrs["_size"] is not None:
                pre.append(cls.attrs["_size"] == T.slot_int(w * n_items))  # ArrayLayout (static shape and items)
            ghost = {}

            def make_loop(shape=shape, order=order, w=w, D=D, o=o, n_items=n_items, lab=lab, mask_=mask, ndyn_=ndyn, cls_size_none=(cls.attrs["_size"] is None)):
                def init(interp, st, k, node):
                    interp.oblige(st, f"inv{k}.init", f"running_offset_at_data_start[{lab}]", st.locals["ioffset"] == o + D, node.lineno)
                    # the state reaching the item loop holds the complete header: check it against the documented layout
                    bb = interp._relocate(st, st.locals["buffer"])
                    for (old, new, at) in getattr(st, "word_writes", []):
                        XB.same_word(st, new, bb.mem, at)
                    hob = lambda c, gl: interp.oblige(st, f"inv{k}.init", f"header.{c}[{lab}]", gl if not isinstance(gl, bool) else z3.BoolVal(gl), node.lineno)
                    dyn_obj = cls_size_none
                    if dyn_obj:
                        hob("size_word", XB.W8(bb.mem, o) == size)
                    j = 0
                    for a in range(len(shape)):
                        if mask_[a]:
                            hob(f"dim{a}", XB.W8(bb.mem, o + 8 + 8 * j) == shape[a])
                            j += 1
                    if ndyn_ and len(shape) > 1:
                        ds = T.doc_strides(shape, order, w)
                        for a in range(len(shape)):
                            hob(f"stride{a}", XB.W8(bb.mem, o + 8 + 8 * ndyn_ + 8 * a) == ds[a])
                    hob("frame", T.forall_x(lambda x: z3.Implies(z3.Or(x < o, x >= o + D), bb.mem[x] == m0[x])))

                def head(interp, st):
                    kk = fresh_int("k")
                    st.assume(z3.And(0 <= kk, kk < n_items))
                    st.locals["ioffset"] = o + D + w * kk
                    b = st.locals["buffer"]
                    # bytes outside the object are as at entry, whatever the earlier iterations wrote (frame invariant)
                    m = z3.Array(fresh_name("mloop"), z3.IntSort(), z3.IntSort())
                    x = z3.Int(fresh_name("x"))
                    st.assume(z3.ForAll([x], z3.Implies(z3.Or(x < o, x >= o + size), m[x] == m0[x]), patterns=[m[x]]))
                    b.mem = m
                    return {"k": kk}

                def alts():
                    def mk(st):
                        idx = tuple(fresh_int(f"i{a}") for a in range(len(shape)))
                        return idx if len(shape) > 1 else idx[0]
                    yield "index", mk

                def preserve(interp, st, g, label, elem, k, node):
                    idx = elem if isinstance(elem, tuple) else (elem,)
                    kk = g["k"]
                    wr = [r for r in getattr(st, "recorded", []) if r[0] == "write"]
                    ob = lambda c, gl: interp.oblige(st, f"inv{k}.preserve", f"{c}[{lab}]", gl if not isinstance(gl, bool) else z3.BoolVal(gl), node.lineno)
                    # contract of iter_index: this index is the one at memory position k, inside the shape
                    hyp = z3.And(mem_pos(idx, shape, order) == kk, *[z3.And(0 <= i, i < s) for i, s in zip(idx, shape)])
                    ob("one_item_written", len(wr) >= 1)
                    if wr:
                        r = wr[-1]
                        doc = o + D + sum(i * s for i, s in zip(idx, T.doc_strides(shape, order, w)))
                        ob("item_written_at_documented_address", z3.Implies(hyp, r[2] == doc))
                        ob("item_value_is_value_at_index", r[4] == ("item", elem))
                    ob("running_offset_advances_by_item_size", st.locals["ioffset"] == o + D + w * (kk + 1))
                    b = interp._relocate(st, st.locals["buffer"])
                    ob("frame_preserved", T.forall_x(lambda x: z3.Implies(z3.Or(x < o, x >= o + size), b.mem[x] == m0[x])))
                return LoopSpec(init, head, alts, preserve)
            loop = make_loop()

            def ov_iter_index(i, st, f, a, k, n, shape=shape, order=order, loop=loop):
                yield st, IndexSeq(shape, order, loop)
            it.overrides[(ARR, "iter_index")] = ov_iter_index
            m0 = buf.mem
            try:
                for st, out in it.exec_function(con, {"cls": cls, "buffer": buf, "offset": o, "value": AbsValue(), "info": info}, pre=pre):
                    if out is not None and out[0] == "raise":
                        it.oblige(st, "raises", f"never[{lab}]", False, out[2])
                        continue
                    b = it._relocate(st, buf)
                    ob = lambda c, g: it.oblige(st, "post", f"{c}[{lab}]", g if not isinstance(g, bool) else z3.BoolVal(g))
                    for (old, new, at) in getattr(st, "word_writes", []):
                        XB.same_word(st, new, b.mem, at)
                    ob("frame", T.forall_x(lambda x: z3.Implies(z3.Or(x < o, x >= o + size), b.mem[x] == m0[x])))
            except Unsupported as e:
                vc_array_writer.undecided.append((lab, str(e)[:160]))
            obs += it.obligations
    vc_array_writer.interps = its
    return obs


T.group("array_writer", vc_array_writer, [(ARR, "Array._to_buffer")], ["C03", "C05", "C01"])
