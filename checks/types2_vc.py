"""More obligations on the type layer (merged into checks/types_vc.GROUPS at import time).

  typeutils.allocate_on_buffer      wrong-owner arguments are refused before anything is allocated (C11); otherwise the returned
                                    offset is the explicit one or the result of buffer.allocate(size, align) (C01/C03 placement)
  array.Array._to_buffer            writer of static-item arrays over the generic sequence path: every item is written at the
                                    documented address o + D + w*pos(idx) (invariant over iter_index under its contract), header
                                    words at the documented positions, nothing outside the object (C03, C05, C01)
"""
import ast
import z3

from pyvc.core import SymObj, PList, PDict, ClassVal, fresh_int, fresh_bool, fresh_name, Unsupported, State, FuncVal, same_value, HARNESS_ERRORS
from pyvc.interp_ext import LoopSpec
from pyvc import xbuf as XB
from . import types_vc as T

zb = T.zb

TU = "xobjects/typeutils.py"
ARR = "xobjects/array.py"


def vc_allocate_on_buffer():
    obs = []
    its = []
    con = T._contract(TU, "allocate_on_buffer", [])
    ctx_a = SymObj("ContextCpu", {"__name__": "ctxA"})
    ctx_b = SymObj("ContextCpu", {"__name__": "ctxB"})

    def run(label, buffer, context, offset, check):
        it = T.new_interp()
        its.append(it)
        default_ctx = SymObj("ContextCpu", {"__name__": "default"})

        class NewBuffer:
            def call(self, interp, st, a, k, n):
                b = XB.XBuf("fresh", context=self.ctx)
                st.recorded = getattr(st, "recorded", []) + [("new_buffer", self.ctx, a[0])]
                st.ghost[f"__new{b.uid}"] = b
                yield st, b
        for c in (ctx_a, ctx_b, default_ctx):
            nb = NewBuffer()
            nb.ctx = c
            c.attrs["new_buffer"] = nb
            c.closed = True
        it.extern_names = {"context_default": default_ctx}
        size = fresh_int("size")
        try:
            for st, out in it.exec_function(con, {"size": size, "context": context, "buffer": buffer, "offset": offset}, pre=[size >= 0]):
                ob = lambda c, g: it.oblige(st, "post", f"{c}[{label}]", g if not isinstance(g, bool) else z3.BoolVal(g))
                check(st, out, ob, size)
        except HARNESS_ERRORS as e:
            vc_allocate_on_buffer.undecided.append((label, str(e)[:150]))
        return it.obligations

    def no_alloc(st):
        idx = {}
        from pyvc.interp import _index_muts

        _index_muts(st, idx)
        return all(not getattr(v, "allocs", None) for v in idx.values() if isinstance(v, XB.XBuf)) and not getattr(st, "recorded", [])

    # offset without buffer -> ValueError, nothing created
    def chk_raise(st, out, ob, size):
        ob("raises_an_error", out is not None and out[0] == "raise")
        ob("nothing_allocated", no_alloc(st))
    obs += run("offset_without_buffer", None, None, fresh_int("offset"), chk_raise)
    obs += run("offset_without_buffer_with_context", None, ctx_a, fresh_int("offset"), chk_raise)
    # buffer of another context -> ValueError before allocate
    bufb = XB.XBuf("buf", context=ctx_b)
    obs += run("context_mismatch", bufb, ctx_a, None, chk_raise)
    obs += run("context_mismatch_with_offset", XB.XBuf("buf", context=ctx_b), ctx_a, fresh_int("offset"), chk_raise)

    # explicit integer offset: returned unchanged, no allocation
    def chk_explicit(st, out, ob, size):
        ok = out is not None and out[0] == "return" and isinstance(out[1], tuple) and len(out[1]) == 2
        ob("returns_pair", ok)
        if ok:
            ob("same_buffer", getattr(out[1][0], "uid", None) == bufa.uid)
            ob("offset_unchanged", same_value(out[1][1], off_e))
            ob("nothing_allocated", not it_allocs(st, bufa))
    bufa = XB.XBuf("buf", context=ctx_a)
    off_e = fresh_int("offset")

    def it_allocs(st, b):
        idx = {}
        from pyvc.interp import _index_muts

        _index_muts(st, idx)
        bb = idx.get(b.uid)
        return bool(bb and bb.allocs)
    obs += run("explicit_offset", bufa, ctx_a, off_e, chk_explicit)
    obs += run("explicit_offset_no_context", bufa, None, off_e, chk_explicit)

    # no offset / 'aligned' / 'packed': exactly one allocation of `size` on the given buffer
    for lab, offv in (("allocated", None), ("aligned", "aligned"), ("packed", "packed")):
        bufc = XB.XBuf("buf", context=ctx_a)

        def chk_alloc(st, out, ob, size, bufc=bufc):
            ok = out is not None and out[0] == "return" and isinstance(out[1], tuple) and len(out[1]) == 2
            ob("returns_pair", ok)
            if ok:
                b = out[1][0]
                ob("same_buffer", getattr(b, "uid", None) == bufc.uid)
                ob("one_allocation_of_size", same_value(b.allocs[0][1], size) if len(b.allocs) == 1 else False)
                if b.allocs:
                    ob("offset_is_allocation_result", same_value(out[1][1], b.allocs[0][0]))
        obs += run(lab, bufc, ctx_a, offv, chk_alloc)

    # no buffer: a fresh buffer of capacity `size` on the given / default context, then one allocation
    def chk_fresh(st, out, ob, size):
        rec = getattr(st, "recorded", [])
        ok = out is not None and out[0] == "return" and isinstance(out[1], tuple)
        ob("returns_pair", ok)
        # one new buffer, large enough for the object (the property does not fix its capacity beyond that)
        ob("one_new_buffer_with_room_for_size", (XB.to_z3(rec[0][2]) >= size) if len(rec) == 1 and rec[0][0] == "new_buffer" else False)
        if ok:
            al = out[1][0].allocs
            ob("allocated_in_new_buffer", z3.And(zb(same_value(out[1][1], al[0][0])), zb(same_value(al[0][1], size))) if len(al) == 1 else False)
    obs += run("no_buffer_given_context", None, ctx_a, None, chk_fresh)
    obs += run("no_buffer_default_context", None, None, None, chk_fresh)
    vc_allocate_on_buffer.interps = its
    return obs


T.group("allocate_on_buffer", vc_allocate_on_buffer, [(TU, "allocate_on_buffer")], ["C11", "C01", "C03"])


# ------------------------------------------------------------------------------------------------ Array._to_buffer (static items)
class IndexSeq:
    """iter_index(shape, order) under its contract: the k-th yielded index (k = 0 .. prod(shape)-1) is the index whose memory
    position is k (mixed radix over the axes in memory order).  Used as a callee contract here; discharged on the real iter_index by
    group iter_index_contract (rank 1..3 x every axis order, relative to the contracts of range / np.ndindex); also validated natively."""

    def __init__(self, shape, order, loop):
        self.shape, self.order, self.loop = shape, order, loop

    def iterate(self, interp, st, s):
        yield from self.loop.run(interp, st, s, self)


def mem_pos(idx, shape, order):
    r = len(shape)
    pos = z3.IntVal(0)
    for m in range(r):
        pos = pos + idx[order[m]] * T.prod([shape[order[n]] for n in range(m + 1, r)])
    return pos


class AbsValue:
    """the value to store: value[idx] is an opaque item"""

    def has_attr(self, attr):
        return attr == "shape"

    def getitem(self, interp, st, i, node):
        return ("item", i)


def vc_array_writer():
    """Array._to_buffer, generic-sequence path with statically sized items, given an Info satisfying ArrayInfoInv (shape, documented
    strides, size = slot(D + w*prod(shape))): header words at the documented positions, item idx written at o + D + w*pos(idx) =
    o + D + sum idx_k*stride_k, every write inside [o, o+size), nothing else changed."""
    from contracts import capi as K

    obs = []
    its = []
    con = T._contract(ARR, "Array._to_buffer", [])
    for rank, mask in K.array_masks():
        for order in T.perms(rank):
            lab = f"{'x'.join('N' if m else 's' for m in mask)}:order{''.join(map(str, order))}"
            it = T.new_interp()
            its.append(it)
            it.class_home.update({"Array": ARR, "NumpyScalar": "xobjects/scalar.py"})
            i64 = T.int64_scalar()
            it.extern_names = {"Int64": i64}
            XB.install_int64(it, i64)
            st0 = State()
            cls = T.array_class(st0, rank, mask, True, order)
            sp = cls.spec
            w, D, ndyn = sp["w"], sp["D"], sp["ndyn"]
            tc = T.TypeContractObj("Item", w, st0)
            item = tc.as_symobj()
            item.absent = {"_dtype", "_update"}
            cls.attrs["_itemtype"] = item
            shape = [sp["dims"][k] if not mask[k] else fresh_int(f"n{k}") for k in range(rank)]
            n_items = T.prod(shape)
            strides = T.doc_strides(shape, order, w)
            size = T.slot_int(D + w * n_items) if cls.attrs["_size"] is None else cls.attrs["_size"]
            buf = XB.XBuf("buf")
            o = fresh_int("offset")
            info = SymObj("Info", {"size": size, "shape": tuple(shape), "strides": tuple(strides), "order": PList(list(order)), "value": AbsValue(),
                                   "items": n_items})
            info.closed = True
            pre = list(st0.pc) + [T.SLOT_AX, o >= 0, buf.cap < 2 ** 62, o + size <= buf.cap] + [s >= 0 for s in shape] + [size < 2 ** 62]
            pre += [s < 2 ** 62 for s in shape] + [s < 2 ** 62 for s in strides]  # header words fit int64 (machine arithmetic treated as mathematical below 2^62)
            if cls.attrs["_size"] is not None:
                pre.append(cls.attrs["_size"] == T.slot_int(w * n_items))  # ArrayLayout (static shape and items)
            ghost = {}

            def make_loop(shape=shape, order=order, w=w, D=D, o=o, n_items=n_items, lab=lab, mask_=mask, ndyn_=ndyn, cls_size_none=(cls.attrs["_size"] is None)):
                def init(interp, st, k, node):
                    interp.oblige(st, f"inv{k}.init", f"running_offset_at_data_start[{lab}]", st.locals["ioffset"] == o + D, node.lineno)
                    # the state reaching the item loop holds the complete header: check it against the documented layout
                    bb = interp._relocate(st, st.locals["buffer"])
                    for (old, new, at) in getattr(st, "word_writes", []):
                        XB.same_word(st, new, bb.mem, at)
                    hob = lambda c, gl: interp.oblige(st, f"inv{k}.init", f"header.{c}[{lab}]", gl if not isinstance(gl, bool) else z3.BoolVal(gl), node.lineno)
                    dyn_obj = cls_size_none
                    if dyn_obj:
                        hob("size_word", XB.W8(bb.mem, o) == size)
                    j = 0
                    for a in range(len(shape)):
                        if mask_[a]:
                            hob(f"dim{a}", XB.W8(bb.mem, o + 8 + 8 * j) == shape[a])
                            j += 1
                    if ndyn_ and len(shape) > 1:
                        ds = T.doc_strides(shape, order, w)
                        for a in range(len(shape)):
                            hob(f"stride{a}", XB.W8(bb.mem, o + 8 + 8 * ndyn_ + 8 * a) == ds[a])
                    hob("frame", T.forall_x(lambda x: z3.Implies(z3.Or(x < o, x >= o + D), bb.mem[x] == m0[x])))

                def head(interp, st):
                    kk = fresh_int("k")
                    st.assume(z3.And(0 <= kk, kk < n_items))
                    st.locals["ioffset"] = o + D + w * kk
                    b = st.locals["buffer"]
                    # bytes outside the object are as at entry, whatever the earlier iterations wrote (frame invariant)
                    m = z3.Array(fresh_name("mloop"), z3.IntSort(), z3.IntSort())
                    x = z3.Int(fresh_name("x"))
                    st.assume(z3.ForAll([x], z3.Implies(z3.Or(x < o, x >= o + size), m[x] == m0[x]), patterns=[m[x]]))
                    b.mem = m
                    return {"k": kk}

                def alts():
                    def mk(st):
                        idx = tuple(fresh_int(f"i{a}") for a in range(len(shape)))
                        return idx if len(shape) > 1 else idx[0]
                    yield "index", mk

                def preserve(interp, st, g, label, elem, k, node):
                    idx = elem if isinstance(elem, tuple) else (elem,)
                    kk = g["k"]
                    wr = [r for r in getattr(st, "recorded", []) if r[0] == "write"]
                    ob = lambda c, gl: interp.oblige(st, f"inv{k}.preserve", f"{c}[{lab}]", gl if not isinstance(gl, bool) else z3.BoolVal(gl), node.lineno)
                    # contract of iter_index: this index is the one at memory position k, inside the shape
                    hyp = z3.And(mem_pos(idx, shape, order) == kk, *[z3.And(0 <= i, i < s) for i, s in zip(idx, shape)])
                    ob("one_item_written", len(wr) >= 1)
                    if wr:
                        r = wr[-1]
                        doc = o + D + sum(i * s for i, s in zip(idx, T.doc_strides(shape, order, w)))
                        ob("item_written_at_documented_address", z3.Implies(hyp, r[2] == doc))
                        ob("item_value_is_value_at_index", r[4] == ("item", elem))
                    ob("running_offset_advances_by_item_size", st.locals["ioffset"] == o + D + w * (kk + 1))
                    b = interp._relocate(st, st.locals["buffer"])
                    ob("frame_preserved", T.forall_x(lambda x: z3.Implies(z3.Or(x < o, x >= o + size), b.mem[x] == m0[x])))
                return LoopSpec(init, head, alts, preserve)
            loop = make_loop()

            def ov_iter_index(i, st, f, a, k, n, shape=shape, order=order, loop=loop):
                yield st, IndexSeq(shape, order, loop)
            it.overrides[(ARR, "iter_index")] = ov_iter_index
            m0 = buf.mem
            try:
                for st, out in it.exec_function(con, {"cls": cls, "buffer": buf, "offset": o, "value": AbsValue(), "info": info}, pre=pre):
                    if out is not None and out[0] == "raise":
                        it.oblige(st, "raises", f"never[{lab}]", False, out[2])
                        continue
                    b = it._relocate(st, buf)
                    ob = lambda c, g: it.oblige(st, "post", f"{c}[{lab}]", g if not isinstance(g, bool) else z3.BoolVal(g))
                    for (old, new, at) in getattr(st, "word_writes", []):
                        XB.same_word(st, new, b.mem, at)
                    ob("frame", T.forall_x(lambda x: z3.Implies(z3.Or(x < o, x >= o + size), b.mem[x] == m0[x])))
            except HARNESS_ERRORS as e:
                vc_array_writer.undecided.append((lab, str(e)[:160]))
            obs += it.obligations
    vc_array_writer.interps = its
    return obs


T.group("array_writer", vc_array_writer, [(ARR, "Array._to_buffer")], ["C03", "C05", "C01", "C06"])


# ------------------------------------------------------------------------------------------------ setters (C10, C03)
def vc_setters():
    """Field.__set__ and Array.__setitem__ through a view (only HandleInv is known about the handle), for element types that are
    written in place (no _update method: scalars, references): exactly one write, at the documented address of the addressed
    element, of the element's own size -- hence inside the element's extent, which the layout groups show disjoint from every
    sibling; read-only fields raise AttributeError before any write."""
    import itertools
    from contracts import capi as K

    obs = []
    its = []
    STRUCT = T.STRUCT
    # ---- struct fields
    for n in range(1, 4):
        for pattern in itertools.product((False, True), repeat=n):
            lab = "".join("d" if d else "s" for d in pattern)
            it = T.struct_env()
            its.append(it)
            it.class_home.update({"Struct": STRUCT, "NumpyScalar": "xobjects/scalar.py"})
            i64 = T.int64_scalar()
            it.extern_names.update({"Int64": i64, "object": T.ObjectBuiltin()})
            XB.install_int64(it, i64)
            try:
                cls, F, tcs, pc = T.build_struct_class(it, pattern)
                it.obligations = []
                dyn = [k for k in range(n) if pattern[k]]
                buf = XB.XBuf("buf")
                o = fresh_int("offset")
                con = T._contract(STRUCT, "Struct._from_buffer", [])
                it.contract = T._contract(STRUCT, "Field.__set__", [])
                hdr = F[dyn[0]].attrs["offset"] if dyn else None
                pre = pc + [o >= 0, buf.cap >= 0, buf.cap < 2 ** 62]
                total = fresh_int("object_size")
                pre += [o + total <= buf.cap]
                if dyn:
                    pre += [hdr + 8 <= total]
                else:
                    pre += [total == cls.attrs["_size"]]
                m0 = buf.mem
                for st, out in it.exec_function(con, {"cls": cls, "buffer": buf, "offset": o}, pre=pre):
                    h = out[1]
                    n0 = len(it.obligations)
                    for k in range(n):
                        if pattern[k]:
                            continue  # dynamically sized field types are rewritten through their own _update / size logic (C11 findings)
                        fobj = F[k]
                        fobj.attrs.setdefault("is_union", None)
                        for ro in (False, True):
                            fobj.attrs["readonly"] = ro
                            stq = st.clone()
                            val = SymObj("Value", {})
                            rec0 = len(getattr(stq, "recorded", []))
                            for st2, res in it.call_function(stq, FuncVal(STRUCT, "Field.__set__", fobj), [it._relocate(stq, h), val], {}, None):
                                b = it._relocate(st2, buf)
                                wr = [r for r in getattr(st2, "recorded", [])[rec0:] if r[0] == "write"]
                                ob = lambda c, g: it.oblige(st2, "post", f"{c}[{lab}:f{k}{':readonly' if ro else ''}]", g if not isinstance(g, bool) else z3.BoolVal(g))
                                if ro:
                                    raised = res.__class__.__name__ == "_NoReturn"  # any error class
                                    ob("readonly_field_raises", bool(raised))
                                    ob("readonly_field_not_written", len(wr) == 0 and z3.eq(b.mem, m0))
                                    continue
                                ob("one_write", len(wr) == 1)
                                if len(wr) == 1:
                                    r = wr[0]
                                    ob("written_at_field_address", r[2] == o + fobj.attrs["offset"])
                                    ob("written_size_is_field_size", r[3] == tcs[k].static_size)
                                    ob("value_passed_through", getattr(r[4], "uid", None) == val.uid)
                                    ob("frame_is_the_field_extent", T.forall_x(lambda x: z3.Implies(z3.Or(x < o + fobj.attrs["offset"], x >= o + fobj.attrs["offset"] + tcs[k].static_size),
                                                                                                 b.mem[x] == m0[x])))
                        fobj.attrs["readonly"] = False
            except HARNESS_ERRORS as e:
                vc_setters.undecided.append((lab, str(e)[:160]))
            obs += it.obligations
    # ---- array items (statically sized items, no _update)
    for rank, mask in K.array_masks():
        for order in T.perms(rank):
            lab = f"{'x'.join('N' if m else 's' for m in mask)}:order{''.join(map(str, order))}"
            it = T.new_interp()
            its.append(it)
            it.class_home.update({"Array": ARR, "NumpyScalar": "xobjects/scalar.py"})
            i64 = T.int64_scalar()
            it.extern_names = {"Int64": i64, "object": T.ObjectBuiltin()}
            XB.install_int64(it, i64)
            st0 = State()
            cls = T.array_class(st0, rank, mask, True, order)
            sp = cls.spec
            w, D, ndyn = sp["w"], sp["D"], sp["ndyn"]
            tc = T.TypeContractObj("Item", w, st0)
            item = tc.as_symobj()
            item.absent = {"_dtype", "_update"}
            cls.attrs["_itemtype"] = item
            buf = XB.XBuf("buf")
            o = fresh_int("offset")
            hdr_shape = []
            j = 0
            for k in range(rank):
                if mask[k]:
                    hdr_shape.append(XB.W8(buf.mem, o + 8 + 8 * j))
                    j += 1
                else:
                    hdr_shape.append(sp["dims"][k])
            n_items = T.prod(hdr_shape)
            pre = list(st0.pc) + [o >= 0, buf.cap >= 0, buf.cap < 2 ** 62, o + D + w * n_items <= buf.cap] + [s >= 0 for s in hdr_shape]
            dstr = T.doc_strides(hdr_shape, order, w)
            if ndyn and rank > 1:
                pre += [XB.W8(buf.mem, o + 8 + 8 * ndyn + 8 * k) == dstr[k] for k in range(rank)]
            m0 = buf.mem
            con = T._contract(ARR, "Array._from_buffer", [])
            it.contract = T._contract(ARR, "Array.__setitem__", [])
            try:
                for st, out in it.exec_function(con, {"cls": cls, "buffer": buf, "offset": o}, pre=pre):
                    h = out[1]
                    it.obligations = [ob_ for ob_ in it.obligations if "__setitem__" in ob_.name]
                    idx = tuple(fresh_int(f"i{k}") for k in range(rank))
                    inr = z3.And(*[z3.And(0 <= i, i < s) for i, s in zip(idx, hdr_shape)])
                    arg = idx if rank > 1 else idx[0]
                    val = SymObj("Value", {})
                    for in_range in (True, False):
                        stq = st.clone()
                        stq.assume(inr if in_range else z3.Not(inr))
                        rec0 = len(getattr(stq, "recorded", []))
                        for st2, res in it.call_function(stq, FuncVal(ARR, "Array.__setitem__", it._relocate(stq, h)), [arg, val], {}, None):
                            b = it._relocate(st2, buf)
                            wr = [r for r in getattr(st2, "recorded", [])[rec0:] if r[0] == "write"]
                            ob = lambda c, g: it.oblige(st2, "post", f"{c}[{lab}]", g if not isinstance(g, bool) else z3.BoolVal(g))
                            if not in_range:
                                raised = res.__class__.__name__ == "_NoReturn"  # any error class
                                ob("out_of_range_index_raises", bool(raised))
                                ob("out_of_range_index_writes_nothing", len(wr) == 0 and z3.eq(b.mem, m0))
                                continue
                            addr = o + D + sum(i * s for i, s in zip(idx, dstr))
                            ob("one_write", len(wr) == 1)
                            if len(wr) == 1:
                                r = wr[0]
                                ob("written_at_item_address", r[2] == addr)
                                ob("written_size_is_item_size", r[3] == w)
                                ob("item_extent_inside_data_area", z3.And(addr >= o + D, addr + w <= o + D + w * n_items))
                                ob("frame_is_the_item_extent", T.forall_x(lambda x: z3.Implies(z3.Or(x < addr, x >= addr + w), b.mem[x] == m0[x])))
            except HARNESS_ERRORS as e:
                vc_setters.undecided.append((lab, str(e)[:160]))
            obs += it.obligations
    vc_setters.interps = its
    return obs


T.group("setters", vc_setters, [(T.STRUCT, "Field.__set__"), (ARR, "Array.__setitem__"), (T.STRUCT, "Field.get_offset"), (ARR, "bound_check"), (ARR, "get_offset")],
        ["C10", "C03", "C11"])


# ------------------------------------------------------------------------------------------------ Array._inspect_args (static items)
class ShapedValue:
    """an array-like initial value of which only the shape is observed (numpy arrays, xobject arrays)"""

    def __init__(self, shape):
        self.shape = shape

    def has_attr(self, attr):
        return attr == "shape"

    def getattr(self, interp, st, attr, node):
        if attr == "shape":
            yield st, self.shape
            return
        raise Unsupported(f"value.{attr}")


def vc_array_inspect_args():
    """Array._inspect_args for arrays of statically sized items: ArrayInfoInv -- the Info handed to _to_buffer / used by __init__
    carries the documented geometry: shape (class dims where static, the value's where dynamic), strides = documented strides of
    that shape and the class's axis order, size = slot(D + itemsize * prod(shape)); a value whose shape disagrees with a static
    dimension is refused with ValueError (C11); dimensions given as integers produce the same geometry with no value."""
    from contracts import capi as K

    obs = []
    its = []
    con = T._contract(ARR, "Array._inspect_args", [])
    for rank, mask in K.array_masks():
        ndyn = sum(mask)
        if ndyn == 0:
            continue  # static shape and static items: size is a class constant (ArrayLayout), nothing is computed from the value
        for order in T.perms(rank):
            for form in ("array_value", "dimensions"):
                if form == "dimensions" and list(order) != sorted(order):
                    continue  # the dimension form differs from the value form only in where the shape comes from
                lab = f"{'x'.join('N' if m else 's' for m in mask)}:order{''.join(map(str, order))}:{form}"
                it = T.new_interp()
                it.feas_timeout_ms = 80
                its.append(it)
                it.class_home.update({"Array": ARR})

                def construct_Info(st, args, kwargs, node):
                    o = SymObj("Info", dict(kwargs))
                    yield st, o
                it.construct_Info = construct_Info
                st0 = State()
                cls = T.array_class(st0, rank, mask, True, order)
                sp = cls.spec
                w, D = sp["w"], sp["D"]
                vshape = tuple(fresh_int(f"v{k}") for k in range(rank))
                pre = list(st0.pc) + [T.SLOT_AX] + [s >= 0 for s in vshape]
                if form == "array_value":
                    args = (ShapedValue(vshape),)
                else:
                    args = tuple(vshape[k] for k in range(rank) if mask[k])
                want_shape = [vshape[k] if mask[k] else sp["dims"][k] for k in range(rank)]
                try:
                    for st, out in it.exec_function(con, {"cls": cls, "args": args}, pre=pre):
                        ob = lambda c, g: it.oblige(st, "post", f"{c}[{lab}]", g if not isinstance(g, bool) else z3.BoolVal(g))
                        agree = z3.And(*[vshape[k] == sp["dims"][k] for k in range(rank) if not mask[k]]) if (form == "array_value" and not all(mask)) else z3.BoolVal(True)
                        if out is not None and out[0] == "raise":
                            it.oblige(st, "raises", f"error.only_for_a_shape_that_disagrees[{lab}]", z3.Not(agree), out[2])
                            continue
                        info = out[1]
                        a = info.attrs
                        ob("accepted_only_if_static_dimensions_agree", agree)
                        # Info is the private plan handed from _inspect_args to the writer: a plan without one of these entries is a
                        # different protocol, about which this harness says nothing (sub-case undecided), not a wrong plan
                        for key in ("shape", "strides", "size", "items", "order"):
                            if key not in a:
                                raise KeyError(f"Info has no entry `{key}` (the plan protocol between _inspect_args and _to_buffer changed)")
                        shp = a.get("shape")
                        shp = shp.items if isinstance(shp, PList) else (list(shp) if isinstance(shp, tuple) else None)
                        ob("shape_present", shp is not None and len(shp) == rank)
                        if shp is None or len(shp) != rank:
                            continue
                        for k in range(rank):
                            ob(f"shape{k}", shp[k] == want_shape[k])
                        ds = T.doc_strides(want_shape, order, w)
                        strd = a.get("strides")
                        ok = isinstance(strd, tuple) and len(strd) == rank
                        ob("strides_present", ok)
                        if ok:
                            for k in range(rank):
                                ob(f"stride{k}_documented", strd[k] == ds[k])
                        ob("size_is_slot_of_header_plus_items", a.get("size") == T.slot_int(D + w * T.prod(want_shape)))
                        ob("items", a.get("items") == T.prod(want_shape))
                        od = a.get("order")
                        ob("order", (od.items if isinstance(od, PList) else list(od)) == list(order))
                        if form == "dimensions":
                            ob("no_value", a.get("value") is None)
                        else:
                            ob("value_kept", a.get("value") is args[0] or same_value(a.get("value"), args[0]) is True)
                except HARNESS_ERRORS as e:
                    vc_array_inspect_args.undecided.append((lab, str(e)[:160]))
                obs += it.obligations
    vc_array_inspect_args.interps = its
    return obs


T.group("array_inspect_args", vc_array_inspect_args, [(ARR, "Array._inspect_args"), (ARR, "get_shape_from_array"), (ARR, "get_strides"), (ARR, "mk_order")],
        ["C05", "C03", "C11", "C01"])


# ------------------------------------------------------------------------------------------------ constructor handle == view (C06)
def vc_handle_equals_view():
    """Array.__init__ (statically sized items): the handle it returns carries exactly the geometry a view rebuilt from (buffer,
    offset) reads back.  _inspect_args, allocate_on_buffer and _to_buffer are used through their contracts proved in the groups
    array_inspect_args / allocate_on_buffer / array_writer (Info with the documented geometry; a region of info.size bytes; header
    words at the documented positions); then the real _from_buffer runs on the resulting memory and every cached attribute of the
    two handles is compared."""
    from contracts import capi as K

    obs = []
    its = []
    con = T._contract(ARR, "Array.__init__", [])
    for rank, mask in K.array_masks():
        ndyn = sum(mask)
        for order in T.perms(rank):
            lab = f"{'x'.join('N' if m else 's' for m in mask)}:order{''.join(map(str, order))}"
            it = T.new_interp()
            its.append(it)
            it.class_home.update({"Array": ARR, "NumpyScalar": "xobjects/scalar.py"})
            i64 = T.int64_scalar()
            it.extern_names = {"Int64": i64, "object": T.ObjectBuiltin()}
            XB.install_int64(it, i64)
            st0 = State()
            cls = T.array_class(st0, rank, mask, True, order)
            sp = cls.spec
            w, D = sp["w"], sp["D"]
            shape = [sp["dims"][k] if not mask[k] else fresh_int(f"n{k}") for k in range(rank)]
            strides = T.doc_strides(shape, order, w)
            static_obj = cls.attrs["_size"] is not None
            size = cls.attrs["_size"] if static_obj else T.slot_int(D + w * T.prod(shape))
            buf = XB.XBuf("buf")
            off = fresh_int("allocated_offset")
            info = SymObj("Info", {"size": size, "shape": tuple(shape), "strides": tuple(strides), "order": PList(list(order)), "value": None,
                                   "items": T.prod(shape), "dshape": PList([k for k in range(rank) if mask[k]])})
            info.closed = True

            def ov_inspect(i, st, f, a, k, n, info=info):
                yield st, info

            def ov_alloc(i, st, f, a, k, n, buf=buf, off=off):
                yield st, (i._relocate(st, buf), off)

            def ov_to_buffer(i, st, f, a, k, n, shape=shape, strides=strides, size=size, mask=mask, ndyn=ndyn, rank=rank, static_obj=static_obj):
                # contract of Array._to_buffer (group array_writer): header words at the documented positions, nothing outside the object
                b = i._relocate(st, a[0])
                o = a[1]
                m = z3.Array(fresh_name("written"), z3.IntSort(), z3.IntSort())
                b.mem = m
                if not static_obj:
                    st.assume(XB.W8(m, o) == size)
                j = 0
                for d in range(rank):
                    if mask[d]:
                        st.assume(XB.W8(m, o + 8 + 8 * j) == shape[d])
                        j += 1
                if ndyn and rank > 1:
                    for d in range(rank):
                        st.assume(XB.W8(m, o + 8 + 8 * ndyn + 8 * d) == strides[d])
                yield st, None
            it.overrides[(ARR, "Array._inspect_args")] = ov_inspect
            it.overrides[("xobjects/typeutils.py", "allocate_on_buffer")] = ov_alloc
            it.overrides[(ARR, "Array._to_buffer")] = ov_to_buffer
            selfo = SymObj("instance", {"__class__": cls})
            selfo.closed = True
            pre = list(st0.pc) + [T.SLOT_AX, off >= 0, off + size <= buf.cap, buf.cap < 2 ** 62] + [s >= 0 for s in shape]
            try:
                for st, out in it.exec_function(con, {"self": selfo, "args": (SymObj("Value", {}),), "_context": None, "_buffer": None, "_offset": None}, pre=pre):
                    if out is not None and out[0] == "raise":
                        it.oblige(st, "raises", f"never[{lab}]", False, out[2])
                        continue
                    h = it._relocate(st, selfo)
                    b = it._relocate(st, buf)
                    it.contract = T._contract(ARR, "Array._from_buffer", [])
                    for st2, v in it.call_function(st.clone(), FuncVal(ARR, "Array._from_buffer", cls), [b, off], {}, None):
                        ob = lambda c, g: it.oblige(st2, "post", f"{c}[{lab}]", g if not isinstance(g, bool) else z3.BoolVal(g))
                        hh = it._relocate(st2, h)
                        ob("same_buffer_and_offset", same_value(hh.attrs.get("_offset"), v.attrs.get("_offset")) if getattr(hh.attrs.get("_buffer"), "uid", 0) == getattr(v.attrs.get("_buffer"), "uid", 1) else False)
                        for attr in ("_size", "_shape", "_strides"):
                            ha, va = hh.attrs.get(attr), v.attrs.get(attr)
                            ob(f"{attr}_present_in_both_or_neither", (ha is None) == (va is None))
                            if ha is None or va is None:
                                continue
                            hs = ha.items if isinstance(ha, PList) else (list(ha) if isinstance(ha, tuple) else [ha])
                            vs = va.items if isinstance(va, PList) else (list(va) if isinstance(va, tuple) else [va])
                            ob(f"{attr}_same_length", len(hs) == len(vs))
                            for kk, (x, y) in enumerate(zip(hs, vs)):
                                ob(f"{attr}{kk}_equal", x == y)
                    it.contract = con
            except HARNESS_ERRORS as e:
                vc_handle_equals_view.undecided.append((lab, str(e)[:160]))
            obs += it.obligations
    vc_handle_equals_view.interps = its
    return obs


T.group("handle_equals_view", vc_handle_equals_view, [(ARR, "Array.__init__"), (ARR, "Array._from_buffer")], ["C06"])


# ------------------------------------------------------------------------------------------------ copies of structs (C09)
def vc_struct_copy():
    """Struct._to_buffer with a same-class object as value (copy-construction), classes of <= 3 fields:
    reference-free class  -> one byte copy of exactly value._size bytes from the source object to the new place (TC4: a
                             reference-free object is position independent, so the copy decodes to the same value);
    class with references -> never a byte copy: every field is rebuilt through its own type from the value read out of the
                             source (references are re-encoded relative to their new slot by Ref._to_buffer, group `ref`).
    In both cases nothing outside the new object's extent changes and the source buffer is not written."""
    import itertools

    obs = []
    its = []
    STRUCT = T.STRUCT
    for n in range(1, 4):
        for pattern in itertools.product((False, True), repeat=n):
            for has_refs in (False, True):
                lab = "".join("d" if d else "s" for d in pattern) + (":with_refs" if has_refs else ":ref_free")
                it = T.struct_env()
                its.append(it)
                it.class_home.update({"Struct": STRUCT, "NumpyScalar": "xobjects/scalar.py"})
                i64 = T.int64_scalar()
                it.extern_names.update({"Int64": i64, "object": T.ObjectBuiltin()})
                XB.install_int64(it, i64)

                def construct_Info(st, args, kwargs, node):
                    o = SymObj("Info", dict(kwargs))
                    o.closed = True
                    yield st, o
                it.construct_Info = construct_Info
                try:
                    cls, F, tcs, pc = T.build_struct_class(it, pattern)
                    it.obligations = []
                    cls.attrs["_has_refs"] = has_refs
                    dyn = [k for k in range(n) if pattern[k]]
                    hdr = F[dyn[0]].attrs["offset"] if dyn else None
                    buf = XB.XBuf("dest")
                    sbuf = XB.XBuf("source")
                    o, so, ssize = fresh_int("offset"), fresh_int("source_offset"), fresh_int("source_size")
                    offs = PDict({k: fresh_int(f"src_off{k}") for k in dyn})
                    src = SymObj("instance", {"__class__": cls, "_buffer": sbuf, "_offset": so, "_size": ssize, "_offsets": offs})
                    src.closed = True
                    pre = pc + [o >= 0, so >= 0, ssize >= 0, so + ssize <= sbuf.cap, o + ssize <= buf.cap, buf.cap < 2 ** 62, sbuf.cap < 2 ** 62, ssize < 2 ** 62]
                    for k in dyn:
                        # WellFormed source: its k-th dynamic part has some size s_k >= 8 and lies inside the source object
                        sk = fresh_int(f"part_size{k}")
                        tcs[k].SZ = (lambda sk: (lambda uid: sk))(sk)
                        pre += [sk >= 8, offs.items[k] + sk <= ssize]
                    if dyn:
                        # HandleInv of the source: cached size and offsets agree with its bytes; its parts lie inside it
                        pre += [XB.W8(sbuf.mem, so) == ssize, ssize >= hdr + 8]
                        pre += [offs.items[k] == XB.W8(sbuf.mem, so + F[k].attrs["offset"]) for k in dyn[1:]]
                        pre += [z3.And(offs.items[k] >= hdr, offs.items[k] + 8 <= ssize, offs.items[k] < 2 ** 62) for k in dyn]
                        pre += [offs.items[dyn[0]] == XB.W8(sbuf.mem, so + hdr)] if False else []
                    else:
                        pre += [ssize == cls.attrs["_size"]]
                    m0, s0 = buf.mem, sbuf.mem
                    con = T._contract(STRUCT, "Struct._to_buffer", [])
                    it.contract = con
                    for st, out in it.exec_function(con, {"cls": cls, "buffer": buf, "offset": o, "value": src, "info": None}, pre=pre):
                        if out is not None and out[0] == "raise":
                            it.oblige(st, "raises", f"never[{lab}]", False, out[2])
                            continue
                        b = it._relocate(st, buf)
                        sb = it._relocate(st, sbuf)
                        ob = lambda c, g: it.oblige(st, "post", f"{c}[{lab}]", g if not isinstance(g, bool) else z3.BoolVal(g))
                        wr = [r for r in getattr(st, "recorded", []) if r[0] == "write"]
                        ob("source_buffer_not_written", z3.eq(sb.mem, s0))
                        if has_refs:
                            # a byte copy would keep the relative offsets of the references, which then point from the new slots
                            ob("class_with_references_is_never_byte_copied", len(wr) > 0)
                        if len(wr) == 0:
                            ob("bytes_copied", T.forall_x(lambda x: z3.Implies(z3.And(0 <= x, x < ssize), b.mem[o + x] == s0[so + x])))
                            ob("frame", T.forall_x(lambda x: z3.Implies(z3.Or(x < o, x >= o + ssize), b.mem[x] == m0[x])))
                        else:
                            # (a reference-free class may be rebuilt field by field as well: same obligations as for a class with references)
                            ob("every_field_rebuilt_through_its_type", sorted(r[1] for r in wr) == [f"T{k}" for k in range(n)])
                            rd = [r for r in getattr(st, "recorded", []) if r[0] == "read"]
                            ob("field_values_read_from_the_source", len(rd) == n and all(getattr(r[2], "uid", None) == sbuf.uid for r in rd))
                            if dyn:
                                # the copy is a well-formed object of its own: its size word and the offset words of the 2nd.. dynamic
                                # fields are in place after all field writes (a view of the copy is built from exactly these words)
                                for (old, new, at) in getattr(st, "word_writes", []):
                                    XB.same_word(st, new, b.mem, at)
                                ob("size_word", XB.W8(b.mem, o) == ssize)
                                for k in dyn[1:]:
                                    ob(f"offset_word_field{k}", XB.W8(b.mem, o + F[k].attrs["offset"]) == offs.items[k])
                except HARNESS_ERRORS as e:
                    vc_struct_copy.undecided.append((lab, str(e)[:160]))
                obs += [x for x in it.obligations if x is not None]
    vc_struct_copy.interps = its
    return obs


T.group("struct_copy", vc_struct_copy, [(T.STRUCT, "Struct._to_buffer"), (T.STRUCT, "MetaStruct.__new__.<locals>._inspect_args"), (T.STRUCT, "Struct.__contains__"),
                                       (T.STRUCT, "Struct.__getitem__"), (T.STRUCT, "Field.value_from_args")], ["C09", "C03"])


# ------------------------------------------------------------------------------------------------ Array._to_buffer, dynamically sized items
class OffsetsTable:
    """info.offsets (an int64 ndarray in index space): offsets[idx] is a symbolic function of the index; its transpose into memory
    order is what _to_buffer stores.  Only OFF(idx) and the table's size are observed."""

    def __init__(self, rank, n_items):
        self.rank, self.n = rank, n_items
        self.OFF = z3.Function(fresh_name("OFF"), *([z3.IntSort()] * rank), z3.IntSort())
        self.transposed_by = None

    def getitem(self, interp, st, i, node):
        idx = i if isinstance(i, tuple) else (i,)
        return self.OFF(*[XB.to_z3(x) for x in idx])

    def getattr(self, interp, st, attr, node):
        if attr == "size":
            yield st, self.n
        elif attr == "transpose":
            def mk(i, s, a, k, n):
                t = OffsetsTable.__new__(OffsetsTable)
                t.rank, t.n, t.OFF = self.rank, self.n, self.OFF
                t.transposed_by = tuple(int(x) for x in i.concrete_items(s, a[0]))
                return t
            yield st, XB._M(mk)
        else:
            raise Unsupported(f"offsets.{attr}")


def vc_array_writer_dyn():
    """Array._to_buffer for dynamically sized items (generic sequence path), given an Info with ArrayInfoInv for dynamic items
    (every item extent [OFF(idx), OFF(idx)+size(idx)) lies behind the offset table and inside the object): the offset table is
    stored transposed into memory order directly after the header; item idx is written at o + OFF(idx) with its own Info; the
    table and the header are not overwritten by the items; nothing outside the object changes."""
    from contracts import capi as K

    obs = []
    its = []
    con = T._contract(ARR, "Array._to_buffer", [])
    for rank, mask in K.array_masks():
        for order in T.perms(rank):
            lab = f"{'x'.join('N' if m else 's' for m in mask)}:order{''.join(map(str, order))}"
            it = T.new_interp()
            its.append(it)
            it.class_home.update({"Array": ARR, "NumpyScalar": "xobjects/scalar.py"})
            i64 = T.int64_scalar()
            it.extern_names = {"Int64": i64}
            XB.install_int64(it, i64)
            st0 = State()
            cls = T.array_class(st0, rank, mask, False, order)
            sp = cls.spec
            D, ndyn = sp["D"], sp["ndyn"]
            tc = T.TypeContractObj("Item", None, st0)
            item = tc.as_symobj()
            item.absent = {"_dtype", "_update"}
            cls.attrs["_itemtype"] = item
            shape = [sp["dims"][k] if not mask[k] else fresh_int(f"n{k}") for k in range(rank)]
            n_items = T.prod(shape)
            strides = T.doc_strides(shape, order, 8)
            size = fresh_int("size")
            table = OffsetsTable(rank, n_items)
            isz = z3.Function(fresh_name("ISZ"), *([z3.IntSort()] * rank), z3.IntSort())  # size of item idx (its own Info.size)

            class Extra:
                def getattr(self, interp, st, attr, node):
                    if attr == "get":
                        def mk(i, s, a, k, n):
                            idx = a[0] if isinstance(a[0], tuple) else (a[0],)
                            o_ = SymObj("Info", {"size": isz(*[XB.to_z3(x) for x in idx])})
                            o_.closed = True
                            return o_
                        yield st, XB._M(mk)
                        return
                    raise Unsupported(f"extra.{attr}")
            buf = XB.XBuf("buf")
            o = fresh_int("offset")
            info = SymObj("Info", {"size": size, "shape": tuple(shape), "strides": tuple(strides), "order": PList(list(order)), "value": AbsValue(),
                                   "items": n_items, "offsets": table, "extra": Extra()})
            info.closed = True
            qs = [z3.Int(f"q{k}") for k in range(rank)]
            inr_q = z3.And(*[z3.And(0 <= q, q < s) for q, s in zip(qs, shape)])
            pre = list(st0.pc) + [T.SLOT_AX, o >= 0, buf.cap < 2 ** 62, o + size <= buf.cap, size < 2 ** 62, D + 8 * n_items <= size] + [s >= 0 for s in shape]
            pre += [s < 2 ** 62 for s in shape] + [s < 2 ** 62 for s in strides]
            # ArrayInfoInv (dynamic items): every item extent lies behind the offset table and inside the object
            pre += [z3.ForAll(qs, z3.Implies(inr_q, z3.And(table.OFF(*qs) >= D + 8 * n_items, isz(*qs) >= 8, table.OFF(*qs) + isz(*qs) <= size)))]
            m0 = buf.mem
            state_box = {}

            def ov_arr_to(i, st, f, a, k, n, table=table, lab=lab, n_items=n_items, D=D):
                bufv, at, ws = a
                if isinstance(ws, OffsetsTable):
                    # contract of Int64._array_to_buffer for an int64 ndarray: its C-order bytes, i.e. word j holds the j-th element in C order of
                    # the (transposed) array -- here element idx of the table lands at position mem_pos(idx) because it was transposed by `order`
                    b = i._relocate(st, bufv)
                    i.oblige(st, "pre@call", f"offset_table.in_bounds[{lab}]", b.in_range(at, 8 * n_items), getattr(n, "lineno", None))
                    # semantic form (its own small path condition: only the extents): in the C-order flattening of the table transposed by
                    # the permutation the code passed, the element of index idx sits at idx's memory position.  numpy: transpose(p) gives
                    # shape'[k] = shape[p[k]] and element j of the result is element idx with idx[p[k]] = j[k].
                    p = ws.transposed_by if ws.transposed_by is not None else tuple(range(len(shape)))
                    lem = State()
                    lem.pc = [s >= 1 for s in shape] + [z3.And(0 <= q, q < s) for q, s in zip(qs, shape)]
                    lem.abstraction = st.abstraction
                    cpos = z3.IntVal(0)
                    for kk in range(len(shape)):
                        cpos = cpos + qs[p[kk]] * T.prod([shape[p[nn]] for nn in range(kk + 1, len(shape))])
                    i.oblige(lem, "post", f"offset_table_stored_in_memory_order[{lab}]",
                             cpos == mem_pos(qs, shape, order))
                    i.oblige(st, "post", f"offset_table_directly_after_header[{lab}]", XB.to_z3(at) == o + D)
                    new = z3.Array(fresh_name("m"), z3.IntSort(), z3.IntSort())
                    x = z3.Int(fresh_name("x"))
                    st.assume(z3.ForAll([x], z3.Implies(z3.Or(x < XB.to_z3(at), x >= XB.to_z3(at) + 8 * n_items), new[x] == b.mem[x]), patterns=[new[x]]))
                    st.assume(z3.ForAll(qs, z3.Implies(inr_q, XB.W8(new, XB.to_z3(at) + 8 * mem_pos(qs, shape, order)) == table.OFF(*qs))))
                    b.mem = new
                    st.table_mem = new
                    yield st, None
                    return
                items = i.concrete_items(st, ws)
                b = i._relocate(st, bufv)
                for kk, w_ in enumerate(items):
                    b.write_word(i, st, XB.to_z3(at) + 8 * kk, w_, n, "Int64._array_to_buffer")
                yield st, None

            def make_loop(shape=shape, order=order, o=o, lab=lab, size=size):
                def init(interp, st, k, node):
                    pass

                def head(interp, st):
                    b = st.locals["buffer"]
                    m = z3.Array(fresh_name("mloop"), z3.IntSort(), z3.IntSort())
                    x = z3.Int(fresh_name("x"))
                    # frame invariant: outside the object nothing changed; the header and the offset table are as written before the loop
                    st.assume(z3.ForAll([x], z3.Implies(z3.Or(x < o, x >= o + size), m[x] == m0[x]), patterns=[m[x]]))
                    tm = getattr(st, "table_mem", None)
                    if tm is not None:
                        st.assume(z3.ForAll([x], z3.Implies(z3.And(o <= x, x < o + D + 8 * n_items), m[x] == tm[x]), patterns=[m[x]]))
                    b.mem = m
                    return {"tm": tm}

                def alts():
                    def mk(st):
                        idx = tuple(fresh_int(f"i{a}") for a in range(len(shape)))
                        st.assume(z3.And(*[z3.And(0 <= i_, i_ < s_) for i_, s_ in zip(idx, shape)]))
                        return idx if len(shape) > 1 else idx[0]
                    yield "index", mk

                def preserve(interp, st, g, label, elem, k, node):
                    idx = elem if isinstance(elem, tuple) else (elem,)
                    wr = [r for r in getattr(st, "recorded", []) if r[0] == "write"]
                    ob = lambda c, gl: interp.oblige(st, f"inv{k}.preserve", f"{c}[{lab}]", gl if not isinstance(gl, bool) else z3.BoolVal(gl), node.lineno)
                    ob("one_item_written", len(wr) >= 1)
                    b = interp._relocate(st, st.locals["buffer"])
                    if wr:
                        r = wr[-1]
                        ob("item_written_at_its_table_offset", r[2] == o + table.OFF(*idx))
                        ob("item_written_with_its_own_size", r[3] == isz(*idx))
                        ob("item_value_is_value_at_index", r[4] == ("item", elem))
                    ob("frame_preserved", T.forall_x(lambda x: z3.Implies(z3.Or(x < o, x >= o + size), b.mem[x] == m0[x])))
                    if g["tm"] is not None:
                        ob("header_and_offset_table_not_overwritten", T.forall_x(lambda x: z3.Implies(z3.And(o <= x, x < o + D + 8 * n_items), b.mem[x] == g["tm"][x])))
                return LoopSpec(init, head, alts, preserve)
            loop = make_loop()

            def ov_iter_index(i, st, f, a, k, n, shape=shape, order=order, loop=loop):
                yield st, IndexSeq(shape, order, loop)
            it.overrides[(ARR, "iter_index")] = ov_iter_index
            it.overrides[("xobjects/scalar.py", "NumpyScalar._array_to_buffer")] = ov_arr_to
            try:
                for st, out in it.exec_function(con, {"cls": cls, "buffer": buf, "offset": o, "value": AbsValue(), "info": info}, pre=pre):
                    if out is not None and out[0] == "raise":
                        it.oblige(st, "raises", f"never[{lab}]", False, out[2])
                        continue
                    b = it._relocate(st, buf)
                    it.oblige(st, "post", f"frame[{lab}]", T.forall_x(lambda x: z3.Implies(z3.Or(x < o, x >= o + size), b.mem[x] == m0[x])))
            except HARNESS_ERRORS as e:
                vc_array_writer_dyn.undecided.append((lab, str(e)[:160]))
            obs += it.obligations
    vc_array_writer_dyn.interps = its
    return obs


T.group("array_writer_dynamic_items", vc_array_writer_dyn, [(ARR, "Array._to_buffer")], ["C03", "C05", "C01", "C06"])


# ------------------------------------------------------------------------------------------------ Struct.__init__: handle == view
def vc_struct_handle_equals_view():
    """Struct.__init__ (classes of <= 3 fields): the handle's cached size and offsets are exactly what a view rebuilt from
    (buffer, offset) reads back.  _inspect_args is the class's real closure; allocate_on_buffer and Struct._to_buffer are used
    through their contracts (a region of info.size bytes; size word and offset words as proved in group struct_small)."""
    import itertools

    obs = []
    its = []
    STRUCT = T.STRUCT
    for n in range(1, 4):
        for pattern in itertools.product((False, True), repeat=n):
            lab = "".join("d" if d else "s" for d in pattern)
            it = T.struct_env()
            its.append(it)
            it.class_home.update({"Struct": STRUCT, "NumpyScalar": "xobjects/scalar.py"})
            i64 = T.int64_scalar()
            it.extern_names.update({"Int64": i64, "object": T.ObjectBuiltin()})
            XB.install_int64(it, i64)

            def construct_Info(st, args, kwargs, node):
                o = SymObj("Info", dict(kwargs))
                o.closed = True
                yield st, o
            it.construct_Info = construct_Info
            try:
                cls, F, tcs, pc = T.build_struct_class(it, pattern)
                it.obligations = []
                dyn = [k for k in range(n) if pattern[k]]
                buf = XB.XBuf("buf")
                off = fresh_int("allocated_offset")

                def ov_alloc(i, st, f, a, k, nd, buf=buf, off=off):
                    st.assume(z3.And(off >= 0, off + XB.to_z3(a[0]) <= buf.cap, buf.cap < 2 ** 62))
                    yield st, (i._relocate(st, buf), off)

                def ov_to_buffer(i, st, f, a, k, nd, F=F, dyn=dyn):
                    # contract of Struct._to_buffer (group struct_small): size word = info.size, offset word of every later dynamic
                    # field = info._offsets[index]; everything else inside the object is unconstrained here
                    b = i._relocate(st, a[0])
                    o = a[1]
                    info = a[3]
                    m = z3.Array(fresh_name("written"), z3.IntSort(), z3.IntSort())
                    b.mem = m
                    if dyn:
                        st.assume(XB.W8(m, o) == info.attrs["size"])
                        for kk in dyn[1:]:
                            st.assume(XB.W8(m, o + F[kk].attrs["offset"]) == info.attrs["_offsets"].items[kk])
                        st.assume(XB.W8(m, o + F[dyn[0]].attrs["offset"]) == fresh_int("junk"))
                    yield st, None
                it.overrides[("xobjects/typeutils.py", "allocate_on_buffer")] = ov_alloc
                it.overrides[(STRUCT, "Struct._to_buffer")] = ov_to_buffer
                selfo = SymObj("instance", {"__class__": cls})
                selfo.closed = True
                vals = {f"f{k}": SymObj("Value", {}) for k in range(n)}
                con = T._contract(STRUCT, "Struct.__init__", [])
                it.contract = con
                for st, out in it.exec_function(con, {"self": selfo, "args": (), "_context": None, "_buffer": None, "_offset": None, "kwargs": PDict(dict(vals))}, pre=pc + [T.SLOT_AX]):
                    if out is not None and out[0] == "raise":
                        it.oblige(st, "raises", f"never[{lab}]", False, out[2])
                        continue
                    h = it._relocate(st, selfo)
                    b = it._relocate(st, buf)
                    it.contract = T._contract(STRUCT, "Struct._from_buffer", [])
                    for st2, v in it.call_function(st.clone(), FuncVal(STRUCT, "Struct._from_buffer", cls), [b, off], {}, None):
                        ob = lambda c, g: it.oblige(st2, "post", f"{c}[{lab}]", g if not isinstance(g, bool) else z3.BoolVal(g))
                        hh = it._relocate(st2, h)
                        ob("same_offset", same_value(hh.attrs.get("_offset"), v.attrs.get("_offset")))
                        ob("size_equal", hh.attrs.get("_size") == v.attrs.get("_size") if dyn else hh.attrs.get("_size") == cls.attrs["_size"])
                        ho, vo = hh.attrs.get("_offsets"), v.attrs.get("_offsets")
                        if len(dyn) >= 2:
                            ok = isinstance(ho, PDict) and isinstance(vo, PDict)
                            ob("offsets_cached_in_both", ok)
                            if ok:
                                for kk in dyn[1:]:
                                    ob(f"offset{kk}_equal", ho.items[kk] == vo.items[kk])
                    it.contract = con
            except HARNESS_ERRORS as e:
                vc_struct_handle_equals_view.undecided.append((lab, str(e)[:160]))
            obs += it.obligations
    vc_struct_handle_equals_view.interps = its
    return obs


T.group("struct_handle_equals_view", vc_struct_handle_equals_view, [(T.STRUCT, "Struct.__init__"), (T.STRUCT, "Struct._from_buffer"),
                                                                   (T.STRUCT, "MetaStruct.__new__.<locals>._inspect_args")], ["C06"])


# ------------------------------------------------------------------------------------------------ iter_index: the contract the array writers use
class _AbsSeq:
    def __init__(self, loop, tag):
        self.loop, self.tag = loop, tag

    def iterate(self, interp, st, s):
        yield from self.loop.run(interp, st, s, self)


def vc_iter_index():
    """array.iter_index(shape, order), rank 1..3 x every axis order, symbolic extents: the k-th value it yields (k counted by a ghost
    counter over the real loops, which are cut at the invariant "k values yielded so far") is the index whose memory position is k
    -- mem_pos as the documented layout defines it --, lies inside the shape, has the array's rank (a bare integer for rank 1), and
    when the generator is exhausted exactly prod(shape) values were yielded.  This is the contract under which the array writer
    groups iterate (IndexSeq).  Assumed contracts on dependencies: range(n) yields 0..n-1 in order; np.ndindex(*dims) yields, as its
    k-th element, the digits of k in the mixed radix `dims` (C order), for k = 0 .. prod(dims)-1."""
    obs = []
    its = []
    con = T._contract(ARR, "iter_index", [])
    for rank in (1, 2, 3):
        for order in T.perms(rank):
            lab = f"rank{rank}:order{''.join(map(str, order))}"
            it = T.new_interp()
            its.append(it)
            st0 = State()
            shape = tuple(fresh_int(f"n{k}") for k in range(rank))
            total = T.prod(list(shape))
            pre = [s >= 0 for s in shape]
            box = {}

            def on_yield(st, v, node, shape=shape, order=order, lab=lab, rank=rank, it=it):
                k = st.ghost["__k"]
                idx = v if isinstance(v, tuple) else (v,)
                ob = lambda c, g: it.oblige(st, "yield", f"{c}[{lab}]", g if not isinstance(g, bool) else z3.BoolVal(g), getattr(node, "lineno", None))
                ob("index_has_the_rank_of_the_shape", (len(idx) == rank) and (isinstance(v, tuple) == (rank > 1)))
                if len(idx) == rank:
                    ob("index_inside_shape", z3.And(*[z3.And(0 <= XB.to_z3(i_), XB.to_z3(i_) < s_) for i_, s_ in zip(idx, shape)]))
                    ob("kth_yielded_index_is_at_memory_position_k", mem_pos([XB.to_z3(i_) for i_ in idx], list(shape), list(order)) == k)
                st.ghost["__k"] = k + 1
            it.yield_hook = on_yield

            def make_loop(kind, dims_box):
                # one cut for both loop forms of the function: `for ii in range(n)` and `for ii in np.ndindex(*dims)`
                def init(interp, st, k_, node):
                    interp.oblige(st, f"inv{k_}.init", f"nothing_yielded_before_the_loop[{lab}]", st.ghost["__k"] == 0, node.lineno)

                def head(interp, st):
                    return {}

                def alts():
                    def mk(st):
                        dims = dims_box["dims"]
                        k = fresh_int("k")
                        st.assume(z3.And(0 <= k, k < T.prod(list(dims))))
                        st.ghost["__k"] = k  # invariant: k values were yielded before the k-th element is taken
                        if kind == "range":
                            return k
                        d = tuple(fresh_int(f"d{m}") for m in range(len(dims)))
                        for m in range(len(dims)):
                            st.assume(z3.And(0 <= d[m], d[m] < dims[m]))
                        st.assume(sum((d[m] * T.prod(list(dims[m + 1:])) for m in range(len(dims))), z3.IntVal(0)) == k)  # AX-ndindex
                        box["elem_k"] = k
                        return d
                    yield kind, mk

                def preserve(interp, st, g, label, elem, k_, node):
                    k0 = elem if kind == "range" else box["elem_k"]
                    interp.oblige(st, f"inv{k_}.preserve", f"one_value_yielded_per_element[{lab}]", st.ghost["__k"] == XB.to_z3(k0) + 1, node.lineno)
                return LoopSpec(init, head, alts, preserve)

            dims_box = {}

            def ov_range(i, st, a, kw, nd, dims_box=dims_box, make_loop=make_loop):
                if len(a) != 1:
                    raise Unsupported("range with more than one argument")
                dims_box["dims"] = (XB.to_z3(a[0]),)
                return _AbsSeq(make_loop("range", dims_box), "range")

            def bi_ndindex(st, f, args, kw, node, dims_box=dims_box, make_loop=make_loop):
                dims_box["dims"] = tuple(XB.to_z3(x) for x in args)
                return _AbsSeq(make_loop("ndindex", dims_box), "ndindex")
            it.bi_np_ndindex = bi_ndindex
            it.extern_names = {}
            if rank == 1:
                it.extern_names["range"] = XB._M(ov_range)
            try:
                st0.ghost["__k"] = z3.IntVal(0)
                for st, out in it.exec_function(con, {"shape": tuple(shape), "order": PList(list(order))}, pre=pre, ghost={"__k": z3.IntVal(0)}):
                    if out is not None and out[0] == "raise":
                        it.oblige(st, "raises", f"never[{lab}]", False, out[2])
                        continue
                    # the state after the loop is the loop head's: the cut yields nothing itself; exhaustion = every element taken once,
                    # so prod(dims) values were yielded, and dims is a permutation of the shape
                    dims = dims_box.get("dims")
                    it.oblige(st, "post", f"as_many_values_as_items[{lab}]", z3.BoolVal(dims is not None) if dims is None else T.prod(list(dims)) == total)
            except HARNESS_ERRORS as e:
                vc_iter_index.undecided.append((lab, str(e)[:200]))
            obs += it.obligations
    vc_iter_index.interps = its
    return obs


T.group("iter_index_contract", vc_iter_index, [(ARR, "iter_index")], ["C03", "C05", "C01", "C06"])
