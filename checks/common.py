"""Shared runner for the per-property checks (bin/vcheck).

Flow of one check run (property P, tier T):
  1. load sidecar contracts, re-read /repo's current source, generate obligations for every
     function/lemma the property depends on (pyvc.interp), keep those tagged with P;
  2. discharge them with the solver portfolio (pyvc.solve);
  3. vacuity guards: obligation count > 0 and equal to the committed lock, preconditions satisfiable;
  4. run the bounded native stand-in / cross-check of the property (labelled bounded);
  5. triage failures: known finding -> KNOWN-FINDING line; otherwise counter-example search on the
     real code -> VIOLATION line (exit 1) with a replay file;
  6. write evidence/<P>.json.
Exit codes: 0 held / 1 violation / 3 checker fault.
"""
import json
import os
import re
import sys
import time
import traceback
import importlib
import hashlib
import zlib

ROOT = os.path.dirname(os.path.dirname(os.path.abspath(__file__)))
sys.path.insert(0, ROOT)

from pyvc.registry import reg  # noqa: E402
from pyvc.interp import Interp  # noqa: E402
from pyvc import solve, source as src  # noqa: E402
from pyvc.core import PyvcError  # noqa: E402

REPO = src.REPO
KNOWN = os.path.join(ROOT, "known_findings.json")
LOCK = os.path.join(ROOT, "obligations.lock.json")
# where evidence/ and replay/ are written (default: /verif itself); set to run several trees side by side (tools/canary.sh)
OUT = os.environ.get("VERIF_OUT", ROOT)

GLOBAL_ASSUMPTIONS = [
    "pyvc itself (AST front end, symbolic semantics of the python subset as listed in DESIGN 2.3, VC generation) and the SMT solvers z3 4.8.12 / z3 5.1 / cvc5 1.0.3",
    "python int treated as mathematical integers (exact); machine words read from buffers assumed < 2^62",
    "class attributes fixed after class creation; no monkey patching of the functions under contract",
]


def load_known():
    if not os.path.exists(KNOWN):
        return []
    with open(KNOWN) as fh:
        return json.load(fh)["entries"]


def load_lock():
    if not os.path.exists(LOCK):
        return {}
    with open(LOCK) as fh:
        return json.load(fh)


class FunctionResult:
    def __init__(self, relpath, qualname):
        self.relpath = relpath
        self.qualname = qualname
        self.obligations = []
        self.error = None
        self.paths = 0
        self.hash = None
        self.gen_s = 0.0
        self.assumed_used = []
        self.inlined = []
        self.cover = None


def generate(targets, prop):
    """targets: list of (relpath, qualname) | ('<lemma>', name) | ('<gen>', callable)"""
    out = []
    for t in targets:
        relpath, q = t[0], t[1]
        fr = FunctionResult(relpath, q if isinstance(q, str) else getattr(q, "__name__", "gen"))
        t0 = time.time()
        try:
            if relpath == "<gen>":
                obs = q()
                it = getattr(q, "interp", None)
                fr.paths = getattr(it, "n_paths", 1) if it is not None else 1
                if it is not None:
                    fr.inlined = sorted(it.stats["inlined"])
                    fr.assumed_used = sorted(getattr(q, "assumed", []))
                und = getattr(q, "undecided", None)
                if und:
                    fr.error = "sub-cases outside the deductive subset: " + "; ".join(f"{l}: {r}" for l, r in und[:6])
                fns = getattr(q, "functions", None)
                if fns:
                    fr.hash = ",".join(f"{qq}:{src.source_hash(rp, qq)}" for rp, qq in fns)
            else:
                if relpath == "<lemma>":
                    con = [l for l in reg.lemmas if l.qualname == q][0]
                else:
                    con = reg.contracts[(relpath, q)]
                    fr.hash = src.source_hash(relpath, q)
                it = Interp(reg)
                obs = it.verify(con)
                fr.paths = it.n_paths
                fr.assumed_used = sorted(it.assumed_used)
                fr.inlined = sorted(it.stats["inlined"])
                fr.cover = [pc for (_, pc) in getattr(it, "cover_pre", [])]
            fr.obligations = [o for o in obs if (not o.properties) or prop in o.properties]
        except PyvcError as e:
            fr.error = f"{type(e).__name__}: {e}"
        except KeyError as e:
            fr.error = f"function not found in current source: {e}"
        except RecursionError:
            fr.error = "interpreter recursion limit"
        except Exception as e:  # noqa
            # a harness that looks up attributes / keys / positions the unchanged code produces fails this way when the code was
            # restructured: nothing is decided for this target (on the unchanged tree the lock comparison shows the missing obligations)
            fr.error = f"harness error ({type(e).__name__}: {str(e)[:200]}): the code under contract no longer has the shape this harness speaks about"
        fr.gen_s = time.time() - t0
        out.append(fr)
    return out


def isolated_call(modname, funcname, kwargs, timeout=3600):
    """run checks.<modname>.<funcname>(**kwargs) in a child interpreter (native code under test may crash the
    process); returns ('ok', result) | ('crash', {signal, stderr}) | ('error', text)"""
    import subprocess
    import tempfile

    d = os.path.join(ROOT, ".cache")
    os.makedirs(d, exist_ok=True)
    fd, out = tempfile.mkstemp(dir=d, suffix=".json")
    os.close(fd)
    code = (
        "import json,sys\n"
        f"sys.path.insert(0, {ROOT!r})\n"
        "import importlib\n"
        f"m = importlib.import_module({modname!r})\n"
        f"r = getattr(m, {funcname!r})(**json.loads({json.dumps(kwargs)!r}))\n"
        f"json.dump(r, open({out!r}, 'w'), default=str)\n"
    )
    env = dict(os.environ)
    env["PYTHONDONTWRITEBYTECODE"] = "1"
    try:
        p = subprocess.run([sys.executable, "-c", code], cwd=ROOT, env=env, capture_output=True, text=True, timeout=timeout)
        rc, err = p.returncode, p.stderr
    except subprocess.TimeoutExpired as e:
        rc, err = 124, "timeout"
    try:
        if rc == 0:
            with open(out) as fh:
                return "ok", json.load(fh)
        if rc < 0 or rc in (134, 135, 136, 139):
            return "crash", {"signal": -rc if rc < 0 else rc - 128, "stderr": err[-1500:]}
        return "error", err[-3000:]
    finally:
        try:
            os.unlink(out)
        except OSError:
            pass


def bounded_entry(prop, tier, seed):
    from . import main as _main

    check = _main.get_check(prop)
    for m in check.CONTRACT_MODULES:
        importlib.import_module("contracts." + m)
    return check.bounded(tier, seed, None)


def run_bounded(check, tier, seed):
    if os.environ.get("VERIF_NO_ISOLATE"):
        return check.bounded(tier, seed, None)
    st, r = isolated_call("checks.common", "bounded_entry", {"prop": check.PROP, "tier": tier, "seed": seed})
    if st == "ok":
        return r
    if st == "crash":
        return {"evaluations": 1, "distinct_nontrivial": 1, "rule": "native part crashed", "samples": [],
                "violations": [{"case_key": "native:crash", "problem": f"the real code (compiled accessors / kernels) crashed the "
                                f"interpreter with signal {r['signal']} while the bounded native part was running", "stderr": r["stderr"]}]}
    # an exception escaping the bounded part: on the unchanged tree this never happens (it would be a checker fault there and is
    # fixed in the harness); after a change to /repo it is the real code failing in a way the harness did not anticipate
    last = [l for l in r.strip().split("\n") if l.strip()][-1] if r.strip() else "unknown error"
    in_repo = "/xobjects/" in r
    if not in_repo:
        raise RuntimeError("bounded part failed:\n" + r)
    return {"evaluations": 1, "distinct_nontrivial": 1, "rule": "native part aborted by an exception raised inside xobjects", "samples": [],
            "violations": [{"case_key": "native:exception:" + last.split(":")[0][:40], "problem": last[:300], "traceback": r[-1500:]}]}


class ObRec:
    """picklable record of a solved obligation (what the triage and the evidence need)"""

    FIELDS = ("name", "base", "kind", "line", "abstraction", "status", "backend", "time", "properties", "owners", "n_hyp", "goal", "sub", "failed_sub")

    def __init__(self, ob):
        self.name, self.base, self.kind, self.line, self.abstraction = ob.name, ob.base, ob.kind, ob.line, ob.abstraction
        self.status, self.backend, self.time = ob.status, ob.backend, ob.time
        self.properties = list(getattr(ob, "properties", []) or [])
        self.owners = getattr(ob, "owners", None)
        self.n_hyp = len(ob.pc)
        self.pc = [None] * self.n_hyp
        # printing z3 terms is slow: keep the goal text only where it is reported (failed obligations, a sample of the others)
        keep = ob.status != "discharged" or (zlib.crc32(ob.name.encode()) % 211 == 0)
        self.goal = str(ob.goal)[:3000] if keep else ""
        self.sub = [{k: (str(v)[:2000] if k == "goal" else v) for k, v in (s_ or {}).items()
                     if k in ("status", "backend", "time", "answers") or (keep and k in ("outputs", "goal"))}
                    for s_ in (ob.sub or [])]
        fs = getattr(ob, "failed_sub", None)
        self.failed_sub = {"goal": str(fs.get("goal"))[:3000], "backend": fs.get("backend")} if fs else None


class MetaOb:
    def __init__(self, d):
        self.name = self.base = d["name"]
        self.kind, self.line, self.abstraction = "lemma", None, False
        self.status = d["status"]
        self.backend, self.time = "inspection of the supporting obligations", 0.0
        self.properties, self.owners = [], None
        self.n_hyp, self.pc = d.get("support", 0), []
        self.goal = f"every supporting obligation exists and is discharged ({d.get('support')} found; missing {d.get('missing')}; undischarged {d.get('undischarged')})"
        self.sub = [{"status": "unsat" if d["status"] == "discharged" else "sat", "backend": self.backend, "time": 0.0, "answers": {}}]
        self.failed_sub = None if d["status"] == "discharged" else {"goal": self.goal, "backend": self.backend}


class TargetTimeout(Exception):
    pass


def _worker(args):
    """generate + discharge one target in a forked child (targets are closures: addressed by index into the inherited list)"""
    idx, prop, budget, all_solvers, jobs = args
    os.environ["VERIF_JOBS"] = str(jobs)
    t = _WORK["targets"][idx]
    # watchdog: a target whose generation does not end (path explosion after a change to the code) is reported as undecided with
    # the reason, it must not hang the check.  Solver calls carry their own budgets.
    import signal

    limit = int(os.environ.get("VERIF_TARGET_TIMEOUT", "1500" if budget is solve.QUICK else "7200"))

    def _alarm(signum, frame):
        raise TargetTimeout(f"generation of the obligations did not end within {limit} s")
    old_h = signal.signal(signal.SIGALRM, _alarm)
    signal.alarm(limit)
    try:
        frs = generate([t], prop)
        fr = frs[0]
    except TargetTimeout as e:
        relpath, q = t
        fr = FunctionResult(relpath, q if isinstance(q, str) else getattr(q, "__name__", "gen"))
        fr.error = f"TargetTimeout: {e}"
    finally:
        signal.alarm(0)
        signal.signal(signal.SIGALRM, old_h)
    if fr.obligations:
        solve.discharge_all(fr.obligations, budget, all_solvers=all_solvers)
    vac = {}
    if fr.cover:
        for k, pc in enumerate(fr.cover):
            stt, be = solve.check_sat(pc, solve.QUICK)
            vac[f"{fr.qualname}#cover.pre[{k}]"] = stt
    fr.cover = None
    fr.vac = vac
    fr.obligations = [ObRec(o) for o in fr.obligations]
    return idx, fr


_WORK = {}


def generate_and_discharge(check, prop, budget, all_solvers):
    """all targets of a check, generated and discharged in parallel worker processes; returns FunctionResults holding ObRecs"""
    import multiprocessing as mp

    targets = check.targets()
    if not targets:
        return [], 0.0
    t0 = time.time()
    nproc = max(1, min(len(targets), int(os.environ.get("VERIF_PROCS", "6"))))
    if nproc == 1 or os.environ.get("VERIF_SERIAL"):
        results = generate(targets, prop)
        obs = [o for fr in results for o in fr.obligations]
        if obs:
            solve.discharge_all(obs, budget, all_solvers=all_solvers)
        for fr in results:
            vac = {}
            for k, pc in enumerate(fr.cover or []):
                stt, be = solve.check_sat(pc, solve.QUICK)
                vac[f"{fr.qualname}#cover.pre[{k}]"] = stt
            fr.vac = vac
            fr.obligations = [ObRec(o) for o in fr.obligations]
        return results, time.time() - t0
    _WORK["targets"] = targets
    jobs = int(os.environ.get("VERIF_JOBS_PER_PROC", "10"))
    ctx = mp.get_context("fork")
    out = [None] * len(targets)
    with ctx.Pool(nproc) as pool:
        for idx, fr in pool.imap_unordered(_worker, [(i, prop, budget, all_solvers, jobs) for i in range(len(targets))]):
            out[idx] = fr
    return out, time.time() - t0


def sanitize(name):
    return re.sub(r"[^A-Za-z0-9_.#@\[\]-]", "_", name)[:150]


def write_replay(prop, name, payload):
    d = os.path.join(OUT, "replay", prop)
    os.makedirs(d, exist_ok=True)
    path = os.path.join(d, sanitize(name) + ".json")
    with open(path, "w") as fh:
        json.dump(payload, fh, indent=1, default=str)
    return path


def run_check(check, tier, seed):
    """check: module-like object with PROP, CONTRACT_MODULES, targets(), bounded(tier, seed, focus), LEVEL ..."""
    t_start = time.time()
    prop = check.PROP
    for m in check.CONTRACT_MODULES:
        importlib.import_module("contracts." + m)
    budget = solve.THOROUGH if tier == "thorough" else solve.QUICK
    known = [k for k in load_known() if k["property"] == prop]
    lock = load_lock().get(prop, {})
    lines = []
    violations = []
    faults = []

    # ---- 1/2 deductive part
    results, solve_wall = generate_and_discharge(check, prop, budget, tier == "thorough")
    all_obs = [o for fr in results for o in fr.obligations]
    undecided = {f"{fr.relpath}:{fr.qualname}": fr.error for fr in results if fr.error}
    meta = getattr(check, "meta_obligations", None)
    if meta is not None and all_obs:
        # coverage lemmas over the obligations of this run (e.g. the induction over the type grammar): discharged by inspection of
        # the named supporting obligations, reported like any other obligation
        frm = FunctionResult("<lemma>", "coverage")
        for md in meta(all_obs):
            o = MetaOb(md)
            frm.obligations.append(o)
            all_obs.append(o)
        frm.paths = len(frm.obligations)
        results.append(frm)

    # ---- 3 vacuity (checked in the workers)
    vac = {}
    for fr in results:
        for lab, st in (getattr(fr, "vac", None) or {}).items():
            vac[lab] = st
            if st == "unsat":
                faults.append(f"precondition of {fr.qualname} is unsatisfiable (vacuous contract)")
    bases = {}
    for o in all_obs:
        bases[o.base] = bases.get(o.base, 0) + 1
    shape_changed = []
    if lock:
        cur = {lock_key(b) for b in bases}
        for b, n in lock.get("bases", {}).items():
            if b not in cur:
                shape_changed.append(b)
    if not all_obs and not undecided and not getattr(check, "NO_DEDUCTIVE", False):
        faults.append("zero obligations generated")

    # ---- 4 bounded native part
    bres = None
    try:
        bres = run_bounded(check, tier, seed)
    except Exception:
        faults.append("bounded part crashed: " + traceback.format_exc()[-1500:])

    # ---- 5 triage
    def known_for_ob(ob):
        for k in known:
            if k["status"] == "finding" and k.get("obligation") and ob.base.startswith(k["obligation"]):
                return k
        return None

    def known_for_case(case_key):
        for k in known:
            if k["status"] == "finding" and case_matches(k, case_key):
                return k
        return None

    failed = [o for o in all_obs if o.status != "discharged"]
    known_hit = {}
    for ob in failed:
        if ob.status == "conflict":
            faults.append(f"solvers disagree on {ob.name}")
            continue
        k = known_for_ob(ob)
        if k is not None:
            known_hit[k["id"]] = k
            continue
        # not discharged and not a known finding: look for a failing input on the real code
        cex = None
        try:
            cex = check.find_counterexample(ob, seed)
        except Exception:
            cex = None
            faults.append("counterexample search crashed: " + traceback.format_exc()[-800:])
        was_discharged = lock.get("bases", {}).get(lock_key(ob.base)) is not None
        payload = {
            "property": prop,
            "obligation": ob.name,
            "status": ob.status,
            "solver_answers": [s.get("answers") for s in ob.sub if s and s.get("status") != "unsat"],
            "solver_output": [s.get("outputs") for s in ob.sub if s and s.get("status") != "unsat"][:2],
            "goal": str((getattr(ob, "failed_sub", None) or {}).get("goal", ob.goal))[:3000],
            "function": f"{check_relname(ob)}",
            "discharged_on_baseline": was_discharged,
            "counterexample": cex,
        }
        owners = getattr(ob, "owners", None) or ([ob.properties[0]] if getattr(ob, "properties", None) else [prop])
        owner = prop if prop in owners else owners[0]
        is_aux = ob.kind.startswith("inv") or ob.kind in ("pre@call", "dec")
        if cex is not None:
            path = write_replay(prop, ob.name, payload)
            violations.append((ob.name, path, ""))
        elif is_aux and owner != prop:
            # an auxiliary proof obligation shared with (and owned by) another property failed and no input violating
            # this property's own clauses was found: the proof of this property is incomplete, not refuted
            undecided[ob.name] = (f"auxiliary obligation owned by {owner} is {ob.status}; no violation of {prop}'s clauses "
                                  f"found by the bounded native search")
        elif was_discharged:
            # an obligation that is discharged on the unchanged tree (obligations.lock.json) and no longer is
            path = write_replay(prop, ob.name, payload)
            violations.append((ob.name, path, " no-failing-input-found"))
        else:
            # an obligation the unchanged tree does not have (the code was restructured) that is not discharged -- even when the
            # solver has a model: harness states over-approximate (abstract lists, havocked callee effects), so a model that does
            # not replay on the real code decides nothing
            undecided[ob.name] = f"solver answer {ob.status}; obligation not in baseline lock and no failing input found on the real code"
    if bres is not None:
        for v in bres.get("violations", []):
            k = known_for_case(v.get("case_key"))
            if k is not None:
                known_hit[k["id"]] = k
                continue
            path = write_replay(prop, "bounded_" + v.get("case_key", "case"), {"property": prop, "bounded": True, **v})
            violations.append(("bounded:" + v.get("case_key", "case"), path, ""))

    # known findings: re-run their recorded failing input; report while it still fails
    for k in known:
        if k["status"] != "finding":
            continue
        still = None
        try:
            still = check.reproduce_known(k)
        except Exception:
            still = None
        if still or k["id"] in known_hit:
            lines.append(f"KNOWN-FINDING: property={prop} {k['what']}")

    # ---- 6 evidence
    n_ob = len(all_obs)
    n_dis = sum(1 for o in all_obs if o.status == "discharged")
    by_backend = {}
    for o in all_obs:
        for s in o.sub:
            if s and s.get("status") == "unsat":
                by_backend[s.get("backend")] = by_backend.get(s.get("backend"), 0) + 1
    n_known_failed = sum(1 for o in failed if known_for_ob(o) is not None)
    deductive_complete = (not undecided) and (not shape_changed) and n_ob > 0 and (n_dis + n_known_failed == n_ob)
    level = check.LEVEL if deductive_complete and not violations else ("exploration" if bres else "other")
    if level == "proof" and n_dis != n_ob:
        level = "other"
    samples = []
    with_text = [o for o in all_obs if getattr(o, "goal", "")]
    for o in (with_text or all_obs)[:: max(1, len(with_text or all_obs) // 4)][:4]:
        samples.append({"obligation": o.name, "status": o.status, "backend": o.backend,
                        "goal": str(o.goal)[:400], "n_hypotheses": len(o.pc)})
    if bres:
        samples.extend(bres.get("samples", [])[:4])
        if not samples:
            samples.append({"bounded_rule": bres.get("rule", "")[:300], "evaluations": bres.get("evaluations")})
    cov = {
        "obligations": n_ob,
        "discharged": n_dis,
        "checker_cmd": f"bin/vcheck {prop} --tier {tier}",
        "trusted_base": sorted(set(check.TRUSTED + [a for fr in results for a in fr.assumed_used])),
        "functions_under_contract": [
            {"function": f"{fr.relpath}:{fr.qualname}", "source_sha": fr.hash, "paths": fr.paths,
             "obligations": len(fr.obligations),
             "discharged": sum(1 for o in fr.obligations if o.status == "discharged"),
             "inlined_from_source": fr.inlined, "error": fr.error} for fr in results],
        "discharged_by_backend": by_backend,
        "solver_time_s": round(sum((o.time or 0) for o in all_obs), 2),
        "solver_wall_s": round(solve_wall, 2),
        "not_discharged": [{"obligation": o.name, "status": o.status,
                            "known_finding": (known_for_ob(o) or {}).get("id")} for o in failed][:50],
        "undecided": undecided,
        "shape_changed_vs_lock": shape_changed,
        "vacuity": vac,
        "samples": samples,
        "explanation": check.EXPLANATION,
    }
    if bres:
        cov["bounded"] = {k: v for k, v in bres.items() if k not in ("violations", "samples")}
        cov["evaluations"] = bres.get("evaluations", 0)
        cov["distinct_nontrivial"] = bres.get("distinct_nontrivial", 0)
        cov["rule"] = bres.get("rule", "")
        cov["exhaustive"] = bres.get("exhaustive", False)
    ev = {
        "property_id": prop,
        "tier": tier,
        "seed": seed,
        "level": level,
        "coverage": cov,
        "assumptions": GLOBAL_ASSUMPTIONS + check.ASSUMPTIONS,
        "wall_s": round(time.time() - t_start, 2),
        "violations": len(violations),
    }
    os.makedirs(os.path.join(OUT, "evidence"), exist_ok=True)
    with open(os.path.join(OUT, "evidence", f"{prop}.json"), "w") as fh:
        json.dump(ev, fh, indent=1, default=str)

    for l in lines:
        print(l)
    print(f"[{prop}] tier={tier} obligations={n_ob} discharged={n_dis} known={n_known_failed} "
          f"undecided={len(undecided)} bounded_evals={bres.get('evaluations') if bres else 0} "
          f"wall={ev['wall_s']}s level={level}")
    for u, why in undecided.items():
        print(f"UNDECIDED {u}: {why}")
    if faults:
        for f in faults:
            print("CHECKER-FAULT:", f)
    if violations:
        for name, path, suffix in violations:
            print(f"VIOLATION property={prop} replay={path}{suffix}")
        print(f"  ({len(violations)} failing obligations/cases; first: {violations[0][0]})")
        return 1
    if faults:
        return 3
    return 0


def case_matches(k, case_key):
    """a recorded finding names one failing case (`case`) or a family of cases sharing a prefix (`case_prefix`)"""
    if case_key is None:
        return False
    if k.get("case") and k["case"] == case_key:
        return True
    return any(case_key.startswith(p) for p in k.get("case_prefix", []))


def lock_key(base):
    return re.sub(r"@L\d+", "", base)


def check_relname(ob):
    return ob.name.split("#")[0]


def write_lock(check):
    """record the obligation bases of the unchanged tree (run by the maintainer of /verif, never by a check)"""
    prop = check.PROP
    for m in check.CONTRACT_MODULES:
        importlib.import_module("contracts." + m)
    results = generate(check.targets(), prop)
    all_obs = [o for fr in results for o in fr.obligations]
    solve.discharge_all(all_obs, solve.QUICK)
    bases = {}
    for o in all_obs:
        if o.status == "discharged":
            bases[lock_key(o.base)] = bases.get(lock_key(o.base), 0) + 1
    lock = load_lock()
    lock[prop] = {"bases": bases, "functions": {f"{fr.relpath}:{fr.qualname}": fr.hash for fr in results}}
    with open(LOCK, "w") as fh:
        json.dump(lock, fh, indent=1, sort_keys=True)
    return len(bases), len(all_obs)
