"""Deductive part of C14, second function: `sort_classes` closes the set of classes under "depends on" -- for every input list
and every dependency relation, of any size.

The real function body is executed symbolically over abstract classes:
  a class is an integer id; NAME(c) its `__name__`; `_get_inner_types()` / `_depends_on` are abstract lists of classes of
  unknown length and content (present or not: hasattr is an uninterpreted predicate);
  `classes` is a list (length, array) that GROWS while it is iterated; `class_by_name` a symbolic dict (key set NK, values NV);
  `deps` a symbolic dict name -> list of names (key set DK, lengths DL, contents DV); IDX is a ghost witness map.
Invariant of the main loop (cut with a ghost counter P of processed classes; on exit P == len(classes)):
  J1  every known name is the name of a listed class:        NK[x]  =>  0 <= IDX[x] < n  and  NAME(classes[IDX[x]]) == x
  J2  every listed class has a known name:                    i < n  =>  NK[NAME(classes[i])]
  J3  every processed class has its entry in deps:            i < P  =>  DK[NAME(classes[i])]
  J4  every recorded dependency name is known:                DK[x] and j < DL[x]  =>  NK[DV[x][j]]
  J5  every key of deps is a known name:                      DK[x]  =>  NK[x]
The inner loop over the dependencies of one class keeps J1..J5 and "every name collected so far is known".
Obligations:
  closure      at the call of topological_sort: every name listed as a dependency is itself a key of deps (so every class a class
               depends on, transitively, takes part in the sort and is emitted);
  cycle        on the path where topological_sort reports a cycle the function raises (no list is returned);
  lookup       every sorted name is looked up in class_by_name without KeyError.
Assumed (contract of topological_sort, whose no-duplicates part is proved in toposort_vc; the rest is validated natively for all
graphs <= 3 nodes): the returned names are keys of its argument or names listed as parents.
Python semantics assumed: a dict comprehension over a list has exactly the names of the listed classes as keys; iterating a list
that is appended to during the loop visits the appended elements too.
"""
import ast

import z3

from pyvc.registry import reg
from pyvc.interp import Interp
from pyvc.interp_ext import LoopSpec
from pyvc.core import _Mut, Unsupported, fresh_int, fresh_bool, fresh_name, to_z3

CTX = "xobjects/context.py"
I = z3.IntSort()
B = z3.BoolSort()
NAME = z3.Function("class_name", I, I)
HAS = {a: z3.Function("has_" + a.strip("_"), I, B) for a in ("_get_inner_types", "_depends_on", "_gen_c_api")}
LEN = {k: z3.Function("n_" + k, I, I) for k in ("inner", "dep")}
ELEM = {k: z3.Function("elem_" + k, I, I, I) for k in ("inner", "dep")}


def _contract():
    key = (CTX, "sort_classes")
    sp = type("spec_sort_classes", (), {"params": {}, "properties": ["C14"]})
    saved = reg.contracts.get(key)
    reg.contract(CTX, "sort_classes")(sp)
    c = reg.contracts[key]
    c.inline = True
    if saved is not None:
        reg.contracts[key] = saved
    return c


class _Fn:
    def __init__(self, fn):
        self.fn = fn

    def call(self, interp, st, args, kwargs, node):
        yield st, self.fn(interp, st, args, kwargs, node)


class ClassRef:
    """a class object"""

    def __init__(self, cid):
        self.cid = cid

    def getattr(self, interp, st, attr, node):
        if attr == "__name__":
            yield st, NAME(self.cid)
        elif attr == "_get_inner_types":
            yield st, _Fn(lambda i, s, a, k, n: DepList(self.cid, "inner"))
        elif attr == "_depends_on":
            yield st, DepList(self.cid, "dep")
        else:
            raise Unsupported(f"class attribute {attr}")

    def has_attr(self, attr):
        if attr in HAS:
            return HAS[attr](self.cid)
        raise Unsupported(f"hasattr(class, {attr!r})")


class DepList:
    """cls._get_inner_types() / cls._depends_on: classes of unknown number and identity"""

    def __init__(self, cid, kind):
        self.cid, self.kind = cid, kind


def cid_of(v):
    return v.cid if isinstance(v, ClassRef) else to_z3(v)


class GList(_Mut):
    """a python list of classes (ids) or of names: (length, array); may grow while iterated"""

    def __init__(self, n, arr, of_classes, loop=None):
        super().__init__()
        self.n, self.arr, self.of_classes, self.loop = n, arr, of_classes, loop
        self.tracks_idx = False  # True for the `classes` list: append updates the ghost witness map

    def clone_mut(self, cp):
        c = GList.__new__(GList)
        c.n, c.arr, c.of_classes, c.loop, c.tracks_idx = self.n, self.arr, self.of_classes, self.loop, self.tracks_idx
        return c

    def getattr(self, interp, st, attr, node):
        if attr == "append":
            yield st, _Fn(lambda i, s, a, k, nd: self._append(i, s, a[0]))
        elif attr == "extend":
            yield st, _Fn(lambda i, s, a, k, nd: self._extend(i, s, a[0]))
        else:
            raise Unsupported(f"list.{attr}")

    def _append(self, interp, st, v):
        me = interp._relocate(st, self)
        c = cid_of(v)
        if me.tracks_idx:
            st.ghost["IDX"] = z3.Store(st.ghost["IDX"], NAME(c), me.n)
        me.arr = z3.Store(me.arr, me.n, c)
        me.n = me.n + 1

    def _extend(self, interp, st, other):
        me = interp._relocate(st, self)
        if not isinstance(other, DepList):
            raise Unsupported("extend with something else than a dependency list")
        ln = LEN[other.kind](other.cid)
        new = z3.Array(fresh_name("cat"), I, I)
        x = z3.Int(fresh_name("x"))
        st.assume(ln >= 0)
        st.assume(z3.ForAll([x], new[x] == z3.If(x < me.n, me.arr[x], ELEM[other.kind](other.cid, x - me.n)), patterns=[new[x]]))
        me.arr = new
        me.n = me.n + ln
        me.of_classes = True

    def iterate(self, interp, st, s):
        if self.loop is None:
            raise Unsupported("iteration over a list without a loop specification")
        yield from self.loop.run(interp, st, s, self)

    def length(self, interp, st):
        return interp._relocate(st, self).n


class NameDict(_Mut):
    """class_by_name"""

    def __init__(self, NK, NV):
        super().__init__()
        self.NK, self.NV = NK, NV

    def clone_mut(self, cp):
        return NameDict.__new_like(self)

    @staticmethod
    def __new_like(o):
        n = NameDict.__new__(NameDict)
        n.NK, n.NV = o.NK, o.NV
        return n

    def contains(self, interp, st, x):
        return z3.Select(interp._relocate(st, self).NK, to_z3(x))

    def setitem(self, interp, st, k, v, node):
        me = interp._relocate(st, self)
        me.NK = z3.Store(me.NK, to_z3(k), z3.BoolVal(True))
        me.NV = z3.Store(me.NV, to_z3(k), cid_of(v))

    def getitem(self, interp, st, k, node):
        me = interp._relocate(st, self)
        interp.safety(st, "KeyError", z3.Select(me.NK, to_z3(k)), node)
        return ClassRef(z3.Select(me.NV, to_z3(k)))


class DepsDict(_Mut):
    """deps: name -> list of names"""

    def __init__(self):
        super().__init__()
        self.DK = z3.K(I, z3.BoolVal(False))
        self.DL = z3.K(I, z3.IntVal(0))
        self.DV = z3.K(I, z3.K(I, z3.IntVal(0)))

    def clone_mut(self, cp):
        n = DepsDict.__new__(DepsDict)
        n.DK, n.DL, n.DV = self.DK, self.DL, self.DV
        return n

    def setitem(self, interp, st, k, v, node):
        me = interp._relocate(st, self)
        if not isinstance(v, GList):
            raise Unsupported("deps[...] = something else than a list of names")
        vv = interp._relocate(st, v)
        kk = to_z3(k)
        me.DK = z3.Store(me.DK, kk, z3.BoolVal(True))
        me.DL = z3.Store(me.DL, kk, vv.n)
        me.DV = z3.Store(me.DV, kk, vv.arr)


class LoopSpecX(LoopSpec):
    """LoopSpec with a hook on the exit state (what is known when the iteration is exhausted)"""

    def __init__(self, init, head, alternatives, preserve, at_exit):
        super().__init__(init, head, alternatives, preserve)
        self.at_exit = at_exit

    def run(self, interp, st, s, seq):
        k = interp.loop_ordinal(st, s)
        self.init(interp, st, k, s)
        sth = st.clone()
        sth.abstraction = True
        g = self.head(interp, sth)
        sth.ghost["__loop_ghost"] = g
        for label, ctor in self.alternatives():
            stb = sth.clone()
            elem = ctor(stb)
            for st1 in interp.assign(stb, s.target, elem):
                for st2, out in interp.exec_block(st1, s.body):
                    if out is None or out[0] == "continue":
                        self.preserve(interp, st2, g, label, elem, k, s)
                    elif out[0] == "break":
                        yield st2, None
                    else:
                        yield st2, out
        self.at_exit(interp, sth, g)
        yield from interp.exec_block(sth, s.orelse)


def vc_sort_classes():
    con = _contract()
    it = Interp(reg)
    it.obligations = []
    it.path_counter = {}
    it.overrides = {}
    holder = {}

    def inv(st, P=None, names=None):
        cl, nd, dd, IDX = holder["classes"], holder["nd"], holder["deps"], st.ghost["IDX"]
        cl, nd, dd = it._relocate(st, cl), it._relocate(st, nd), it._relocate(st, dd)
        x, i, j = z3.Int(fresh_name("x")), z3.Int(fresh_name("i")), z3.Int(fresh_name("j"))
        out = [
            ("J1_known_names_belong_to_listed_classes", z3.ForAll([x], z3.Implies(nd.NK[x], z3.And(0 <= IDX[x], IDX[x] < cl.n, NAME(cl.arr[IDX[x]]) == x)))),
            ("J2_listed_classes_have_known_names", z3.ForAll([i], z3.Implies(z3.And(0 <= i, i < cl.n), nd.NK[NAME(cl.arr[i])]))),
            ("J4_recorded_dependency_names_are_known", z3.ForAll([x, j], z3.Implies(z3.And(dd.DK[x], 0 <= j, j < dd.DL[x]), nd.NK[dd.DV[x][j]]))),
            ("J5_keys_of_deps_are_known_names", z3.ForAll([x], z3.Implies(dd.DK[x], nd.NK[x]))),
        ]
        if P is not None:
            out.append(("J3_processed_classes_have_their_entry", z3.And(0 <= P, P <= cl.n, z3.ForAll([i], z3.Implies(z3.And(0 <= i, i < P), dd.DK[NAME(cl.arr[i])])))))
        ent = st.ghost.get("__dep_loop_entry")
        if names is not None and ent is not None:
            # the list is only appended to: what was listed when the inner loop started is still there, at the same positions
            out.append(("classes_listed_before_stay_in_place", z3.And(cl.n >= ent[0], z3.ForAll([i], z3.Implies(z3.And(0 <= i, i < ent[0]), cl.arr[i] == ent[1][i])))))
        if names is not None:
            nm = it._relocate(st, names)
            out.append(("collected_names_are_known", z3.And(nm.n >= 0, z3.ForAll([j], z3.Implies(z3.And(0 <= j, j < nm.n), nd.NK[nm.arr[j]])))))
        return out

    def havoc(st, with_deps):
        cl, nd, dd = it._relocate(st, holder["classes"]), it._relocate(st, holder["nd"]), it._relocate(st, holder["deps"])
        cl.n, cl.arr = fresh_int("n_classes"), z3.Array(fresh_name("classes"), I, I)
        nd.NK, nd.NV = z3.Array(fresh_name("NK"), I, B), z3.Array(fresh_name("NV"), I, I)
        st.ghost["IDX"] = z3.Array(fresh_name("IDX"), I, I)
        if with_deps:
            dd.DK, dd.DL, dd.DV = z3.Array(fresh_name("DK"), I, B), z3.Array(fresh_name("DL"), I, I), z3.Array(fresh_name("DV"), I, z3.ArraySort(I, I))
        st.assume(cl.n >= 0)

    # ---- main loop over the growing list `classes`
    def M_init(interp, st, k, node):
        for nm, f in inv(st, P=z3.IntVal(0)):
            interp.oblige(st, f"inv{k}.init", nm, f, node.lineno)

    def M_head(interp, st):
        havoc(st, True)
        P = fresh_int("processed")
        for nm, f in inv(st, P=P):
            st.assume(f)
        return {"P": P}

    def M_alts():
        def mk(st):
            P = st.ghost["__loop_ghost"]["P"]
            cl = it._relocate(st, holder["classes"])
            st.assume(P < cl.n)  # the iteration has not reached the (current) end of the list
            return ClassRef(z3.Select(cl.arr, P))
        yield "next_class", mk

    def M_pres(interp, st, g, label, elem, k, node):
        for nm, f in inv(st, P=g["P"] + 1):
            interp.oblige(st, f"inv{k}.preserve", nm, f, node.lineno)

    def M_exit(interp, st, g):
        st.assume(g["P"] == it._relocate(st, holder["classes"]).n)  # exhausted: every listed class was processed

    main_loop = LoopSpecX(M_init, M_head, M_alts, M_pres, M_exit)

    # ---- inner loop over the dependencies of one class
    def D_init(interp, st, k, node):
        P = st.ghost.get("__loop_ghost", {}).get("P")
        cl0 = it._relocate(st, holder["classes"])
        st.ghost["__dep_loop_entry"] = (cl0.n, cl0.arr)
        for nm, f in inv(st, P=P, names=holder.get("names")):
            interp.oblige(st, f"inv{k}.init", nm, f, node.lineno)

    def D_head(interp, st):
        P = st.ghost.get("__loop_ghost", {}).get("P")
        havoc(st, False)
        nmz = it._relocate(st, holder["names"])
        nmz.n, nmz.arr = fresh_int("n_names"), z3.Array(fresh_name("names"), I, I)
        for nm, f in inv(st, P=P, names=holder["names"]):
            st.assume(f)
        return {"P": P}

    def D_alts():
        yield "any_dependency", lambda st: ClassRef(fresh_int("dep_class"))

    def D_pres(interp, st, g, label, elem, k, node):
        for nm, f in inv(st, P=g["P"], names=holder["names"]):
            interp.oblige(st, f"inv{k}.preserve", nm, f, node.lineno)

    dep_loop = LoopSpec(D_init, D_head, D_alts, D_pres)

    # ---- hooks for the literals and comprehensions of the function
    def ev_DictComp(st, n):
        # {cls.__name__: cls for cls in classes}
        if len(n.generators) != 1 or n.generators[0].ifs:
            raise Unsupported("dict comprehension shape")
        for st1, seq in it.ev(st, n.generators[0].iter):
            if not isinstance(seq, GList):
                raise Unsupported("dict comprehension over something else than the class list")
            cl = it._relocate(st1, seq)
            saved = dict(st1.locals)
            g = fresh_int("g")
            for _ in it.assign(st1, n.generators[0].target, ClassRef(z3.Select(cl.arr, g))):
                pass
            kx, vx = it.sv(st1, n.key), it.sv(st1, n.value)
            st1.frames[-1].locals = saved
            if not (z3.eq(z3.simplify(to_z3(kx)), z3.simplify(NAME(z3.Select(cl.arr, g)))) and isinstance(vx, ClassRef) and z3.eq(vx.cid, z3.Select(cl.arr, g))):
                raise Unsupported("dict comprehension is not {cls.__name__: cls for cls in classes}")
            NK, NV, IDX = z3.Array(fresh_name("NK"), I, B), z3.Array(fresh_name("NV"), I, I), z3.Array(fresh_name("IDX"), I, I)
            i, x = z3.Int(fresh_name("i")), z3.Int(fresh_name("x"))
            # assumed python semantics: the keys are exactly the names of the listed classes; each key maps to a listed class of that name
            st1.assume(z3.ForAll([i], z3.Implies(z3.And(0 <= i, i < cl.n), NK[NAME(cl.arr[i])])))
            st1.assume(z3.ForAll([x], z3.Implies(NK[x], z3.And(0 <= IDX[x], IDX[x] < cl.n, NAME(cl.arr[IDX[x]]) == x, NV[x] == cl.arr[IDX[x]]))))
            st1.ghost["IDX"] = IDX
            nd = NameDict(NK, NV)
            holder["nd"] = nd
            yield st1, nd
    it.ev_DictComp = ev_DictComp

    def ev_Dict(st, n):
        if n.keys:
            raise Unsupported("non-empty dict literal")
        d = DepsDict()
        holder["deps"] = d
        yield st, d
    it.ev_Dict = ev_Dict

    def ev_List(st, n):
        if n.elts:
            raise Unsupported("non-empty list literal")
        lst = GList(z3.IntVal(0), z3.K(I, z3.IntVal(0)), False, dep_loop)
        yield st, lst
    it.ev_List = ev_List

    orig_assign = it.assign

    def assign(st, target, value):
        # remember which local list collects the dependency names of the current class
        if isinstance(target, ast.Name) and target.id == "cls_dep_names" and isinstance(value, GList):
            holder["names"] = value
        return orig_assign(st, target, value)
    it.assign = assign

    def ev_ListComp(st, n):
        # [class_by_name[cn] for cn in classes if hasattr(class_by_name[cn], "_gen_c_api")]: every sorted name is looked up
        if len(n.generators) != 1:
            raise Unsupported("nested comprehension")
        g = n.generators[0]
        for st1, seq in it.ev(st, g.iter):
            if not isinstance(seq, GList):
                raise Unsupported("comprehension over something else than the sorted names")
            sq = it._relocate(st1, seq)
            t = fresh_int("t")
            st1.assume(z3.And(0 <= t, t < sq.n))
            saved = dict(st1.locals)
            for _ in it.assign(st1, g.target, z3.Select(sq.arr, t)):
                pass
            for c in g.ifs:
                it.sv(st1, c)
            it.sv(st1, n.elt)  # raises the KeyError safety obligations for a generic position t
            st1.frames[-1].locals = saved
            yield st1, GList(fresh_int("n_out"), z3.Array(fresh_name("out"), I, I), True)
    it.ev_ListComp = ev_ListComp

    def ov_toposort(i, st, f, a, k, node):
        dd = i._relocate(st, a[0])
        if not isinstance(dd, DepsDict):
            raise Unsupported("topological_sort called with something else than deps")
        x, j = z3.Int(fresh_name("x")), z3.Int(fresh_name("j"))
        i.oblige(st, "pre@call", "dependency_names_are_keys_of_deps(closure)",
                 z3.ForAll([x, j], z3.Implies(z3.And(dd.DK[x], 0 <= j, j < dd.DL[x]), dd.DK[dd.DV[x][j]])), getattr(node, "lineno", None))
        cl = i._relocate(st, holder["classes"])
        ii = z3.Int(fresh_name("i"))
        i.oblige(st, "pre@call", "every_listed_class_is_a_key_of_deps", z3.ForAll([ii], z3.Implies(z3.And(0 <= ii, ii < cl.n), dd.DK[NAME(cl.arr[ii])])),
                 getattr(node, "lineno", None))
        res = GList(fresh_int("n_sorted"), z3.Array(fresh_name("sorted"), I, I), False)
        t = z3.Int(fresh_name("t"))
        # assumed contract of topological_sort: the returned names are keys of its argument or names listed as parents
        st.assume(res.n >= 0)
        st.assume(z3.ForAll([t], z3.Implies(z3.And(0 <= t, t < res.n),
                                            z3.Or(dd.DK[res.arr[t]], z3.Exists([x, j], z3.And(dd.DK[x], 0 <= j, j < dd.DL[x], dd.DV[x][j] == res.arr[t]))))))
        hc = fresh_bool("has_cycle")
        st.ghost["__has_cycle"] = hc
        yield st, (res, hc)
    it.overrides[(CTX, "topological_sort")] = ov_toposort

    n0 = fresh_int("n_given")
    classes = GList(n0, z3.Array(fresh_name("given"), I, I), True, main_loop)
    classes.tracks_idx = True
    holder["classes"] = classes
    n = 0
    for st, out in it.exec_function(con, {"classes": classes}, pre=[n0 >= 0]):
        n += 1
        hc = st.ghost.get("__has_cycle")
        if hc is None:
            it.oblige(st, "post", "path_reaches_the_sort", False)
            continue
        raised = out is not None and out[0] == "raise"
        returned = out is not None and out[0] == "return"
        it.oblige(st, "post", "cycle_is_reported_as_an_error", z3.Implies(hc, z3.BoolVal(raised)))
        it.oblige(st, "post", "acyclic_input_returns_a_list", z3.Implies(z3.Not(hc), z3.BoolVal(returned and isinstance(out[1], GList))))
    it.n_paths = n
    for o in it.obligations:
        o.properties = ["C14"]
    return it.obligations, it


def targets():
    def g():
        g.undecided = []
        try:
            obs, it = vc_sort_classes()
        except KeyError as e:
            raise Unsupported(f"sort_classes no longer has the shape this harness speaks about ({e})")
        g.interp = it
        return obs
    g.__name__ = "sort_classes"
    g.functions = [(CTX, "sort_classes")]
    return [("<gen>", g)]


GROUPS = {"sort_classes": (targets()[0][1], ["C14"])}
