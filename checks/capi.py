"""C02 / C07 / C15: the generated C accessor API.

Deductive part (checks/capi_vc.py): the real generator functions of xobjects/capi.py are executed symbolically (template
strings), the emitted text is read with the mini-C semantics and compared with AddrSpec, the address expression of the
documented layout, for all field offsets, strides, header words, indices and base offsets; the path loop of
gen_method_offset is cut at an invariant, one obligation per shape of path part, so paths of any length are covered.
Bounded part (checks/capi_native.py, never counted as proved): compile the emitted source through the library's own
cffi path and compare every accessor with the Python accessors on the grammar slice.
"""
import os
import random
import re
import sys

from . import common, capi_vc, capi_native, grammar
from pyvc import solve

CAPI = "xobjects/capi.py"
OFFSET_FUNCS = [(CAPI, q) for q in ("gen_method_offset", "Index_get_c_offset", "Field_get_c_offset", "Ref_get_c_offset", "int_from_obj", "gen_pointer")]
METHOD_FUNCS = [(CAPI, q) for q in ("gen_c_pointed", "gen_c_type_from_arg", "gen_c_size_from_arg", "is_compound")]


def _props_for(name, method):
    if "pointer_qualified" in name:
        return ["C15"]
    if method == "offset":
        return ["C02", "C07"]
    if method == "set":
        return ["C07", "C02"]
    # getters: what they return is C02's clause; where they read (address, width, no store) is also C07's in-bounds clause
    return ["C02", "C07"]


def _wrap(gen, method, functions):
    def g():
        obs = gen()
        g.interp = getattr(gen, "interp", None)
        for o in obs:
            o.properties = _props_for(o.name, method)
            if method == "offset" and "pointer_qualified" not in o.name:
                o.owners = ["C02", "C07"]  # the address arithmetic is a clause of both properties
        return obs

    g.__name__ = gen.__name__
    g.functions = functions
    g.assumed = ["xobjects/capi.py:gen_c_decl_from_kernel (text of the declaration line: assumed in the accessor proofs; gen_fun_kernel's argument list "
                 "is verified separately for paths of up to 3 parts, and the whole is exercised natively by compiling and calling the emitted functions)"] if method != "offset" else []
    return g


def _wrap_plain(gen, functions):
    def g():
        obs = gen()
        g.interp = getattr(gen, "interp", None)
        return obs
    g.__name__ = gen.__name__
    g.functions = functions
    return g


class CapiCheck:
    CONTRACT_MODULES = []
    LEVEL = "proof"

    def __init__(self, prop):
        self.PROP = prop
        self.TRUSTED = [
            "pyvc/minic.py: C semantics of the statement forms emitted by the generator (declaration, +=, =, return, casts, "
            "dereference, subscript); cross-checked natively by compiling the same text (bounded)",
            "AddrSpec (contracts/capi.py: step_spec) as the reading of the documented layout (Architecture.md, docs/architecture/types.rst)",
            "class-layout invariants StructLayout/ArrayLayout as preconditions on path parts (field.offset >= 0, "
            "_data_offset = 8*[size word] + 8*ndyn + 8*rank*[ndyn>0 and rank>1], _strides present iff static shape or rank 1): proved as "
            "postconditions of MetaStruct.__new__ / MetaArray.__new__ in checks/types_vc.py (groups struct_layout_loops, array_layout)",
            "sizeof(C type of a scalar kind) == numpy itemsize of that kind (table obligation over scalar.py, checked natively)",
            "integer arithmetic of the emitted C treated as mathematical (int64 range not proved in this version)",
        ]
        self.ASSUMPTIONS = [
            "array rank 1..3 as in the properties' grammar (one obligation family per rank and per static/dynamic mask)",
            "conf is typeutils.default_conf (its values are opaque tokens in the proof); GPU targets specialise the same text",
            "non-null references on accessor paths; indices in range (preconditions of the accessors)",
            "the bounded native part (grammar slice compiled through cffi) is a cross-check and counterexample finder, not part of the proof",
        ]
        self.EXPLANATION = {
            "C02": "Proved on the real generator source: the text emitted for a path computes AddrSpec(path) (loop invariant of "
                   "gen_method_offset, one obligation per part shape: class, field static/reference, Ref, index x rank 1..3 x "
                   "static/dynamic dims x static/dynamic items), and get/getp/len/typeid/member return the value/address/"
                   "product/word the documented layout prescribes.",
            "C07": "Proved: the setter performs exactly one store, at AddrSpec(path), of the width of the leaf type, of the passed "
                   "value, and dereferences nothing else; the address arithmetic is the one proved for C02. Bounded: bytes "
                   "outside the element unchanged as observed from Python for every path/index of the grammar slice; the emitted "
                   "source compiled with clang ASan+UBSan and every accessor called on objects in exactly sized heap blocks "
                   "(the sanitizer clause is decided by this bounded run only).",
            "C15": "Proved: every pointer type written by the generator (casts and declarations, all part shapes, all accessor "
                   "kinds) is prefixed by the global-memory qualifier placeholder; specialize_source is checked separately.",
        }[prop]

    def targets(self):
        t = []
        gens = dict((g.__name__, g) for _, g in capi_vc.targets())
        t.append(("<gen>", _wrap(gens["capi.gen_method_offset"], "offset", OFFSET_FUNCS)))
        for m in capi_vc.METHODS:
            t.append(("<gen>", _wrap(gens["capi.gen_method_" + m], m, [(CAPI, "gen_method_" + m)] + METHOD_FUNCS)))
        ex = dict((g.__name__, g) for _, g in capi_vc._EXTRA_TARGETS)
        if self.PROP == "C15":
            from . import specsrc_vc

            t.append(("<gen>", _wrap_plain(ex["capi.declarations"], [(CAPI, "gen_typedef"), (CAPI, "gen_c_arg_from_arg")])))
            t += specsrc_vc.targets(self.PROP)
        if self.PROP in ("C02", "C07"):
            t.append(("<gen>", _wrap_plain(ex["capi.gen_fun_kernel"], [(CAPI, "gen_fun_kernel")])))
        if self.PROP == "C07":
            # layout facts behind the in-bounds / alignment clause (see meta_obligations): array items and struct parts lie inside
            # their parent's extent at slot / item-size multiples
            from . import types_vc

            t += types_vc.targets("C07")
        if self.PROP == "C02":
            # the Python side of the claim: the library's own accessors address AddrSpec too (views: HandleInv), and the class-layout
            # invariants assumed on path parts are postconditions of the metaclasses
            from . import types_vc

            t += types_vc.targets("C02")
        return t

    # The in-bounds / alignment clause of C07 for every path, by composition (checked on every run like the TypeContract induction of
    # the object properties: the named supporting obligations must exist in this run and be discharged):
    #   the emitted accessor dereferences exactly AddrSpec(path) with the leaf's width (address / width obligations);
    #   AddrSpec adds, per path part, an offset that lies inside the parent's extent: array items inside the data area for in-range
    #   indices and at multiples of the item size (stride arithmetic), struct parts consecutive from the header at multiples of 8
    #   (layout loops); references resolve inside the buffer image (WellFormed object: C08, assumed here);
    #   hence, by induction over the path, every access lies inside the object's buffer image at an aligned position.
    COMPOSITION = {
        "in_bounds": [r"gen_method_set#post\.addr", r"gen_method_get#post\.addr", r"gen_method_getp#post\.addr", r"gen_method_set#post\.width", r"gen_method_get#post\.width",
                      r"get_offset#post\.item_inside_data", r"get_offset#post\.nonneg", r"MetaStruct\.__new__#inv\d+\.preserve\.next_part_after_this_one",
                      r"MetaStruct\.__new__#inv\d+\.preserve\.field_placed_at_running_offset"],
        "aligned_relative_to_object_start": [r"get_offset#post\.multiple_of_itemsize", r"MetaStruct\.__new__#inv\d+\.preserve\.offset_after_header_multiple_of_8"],
        "single_store": [r"gen_method_set#post\.one_store", r"gen_method_set#post\.no_other_deref", r"gen_method_set#post\.value"],
    }

    def meta_obligations(self, all_obs):
        import re

        if self.PROP != "C07":
            return []
        out = []
        for clause, pats in self.COMPOSITION.items():
            matched, missing = [], []
            for pat in pats:
                m = [o for o in all_obs if re.search(pat, o.name)]
                (matched.extend(m) if m else missing.append(pat))
            ok = not missing and all(o.status == "discharged" for o in matched)
            out.append({"name": f"<lemma>:C07#composition.{clause}", "status": "discharged" if ok else "refuted", "support": len(matched),
                        "missing": missing, "undischarged": [o.name for o in matched if o.status != "discharged"][:3]})
        return out

    # ------------------------------------------------------------------ bounded native part
    def bounded(self, tier, seed, focus):
        if self.PROP == "C15":
            from . import specsrc_native

            return specsrc_native.bounded_c15(tier, seed)
        ev, d, viol, samples = capi_native.run(tier, seed)
        viol = [v for v in viol if self._mine(v)]
        san = None
        if self.PROP == "C07":
            from . import sanitizer_native

            san = sanitizer_native.run(tier, seed)
            viol = viol + san["violations"]
            ev += san["evaluations"]
            samples = samples + san["samples"]
        return {
            "evaluations": ev,
            "distinct_nontrivial": len(d),
            "rule": "grammar slice (checks/grammar.py: structs static/dynamic/nested/with refs and unionref, arrays rank 1..3 static/"
                    "dynamic dims, several axis orders, scalar/struct/string items), objects placed after other allocations; every "
                    "path x every in-range index tuple (<= 40 per path) x every emitted accessor, C result vs Python accessor; "
                    "distinct by (class, accessor, indices); all non-trivial (a real compiled call)",
            "exhaustive": False,
            "violations": _by_key(viol),
            "samples": samples,
            "sanitizer_run": (san["rule"] if san else None),
        }

    def _mine(self, v):
        if v.get("case_key") == "native:crash" or str(v.get("case_key", "")).startswith("sanitizer"):
            return True
        is_set = "_set" in v["accessor"]
        return is_set if self.PROP == "C07" else True

    def find_counterexample(self, ob, seed):
        if "_cex" not in self.__dict__:
            st, r = common.isolated_call("checks.capi_native", "run_first", {"seed": seed})
            if st == "ok":
                viol = r
            elif st == "crash":
                viol = [{"class": "?", "path": "?", "accessor": "_set" if self.PROP == "C07" else "?", "indices": [],
                         "c_result": f"process killed by signal {r['signal']} inside a compiled accessor", "python_result": "no crash",
                         "case_key": "native:crash"}]
            else:
                viol = []
            viol = [v for v in viol if self._mine(v)]
            c = viol[0] if viol else None
            if c is not None:
                c["script"] = replay_script(c)
            self._cex = c
        return self._cex

    def reproduce_known(self, k):
        return None


def replay_script(c):
    return (
        "# the emitted accessor (below) disagrees with the Python accessor on this object/path\n"
        f"# class {c['class']} path {c['path']} accessor {c['accessor']} indices {c['indices']}\n"
        f"# C result: {c['c_result']}   Python: {c['python_result']}\n"
        "import sys; sys.path.insert(0, '/verif')\n"
        "from checks import capi_native\n"
        "ev, d, viol, s = capi_native.run('thorough', 0, want_first=True)\n"
        "print(viol[0] if viol else 'no disagreement')\n"
    )


def _by_key(violations, cap=12):
    """one representative per case key (known findings must not crowd out new violations)"""
    seen = {}
    for v in violations:
        seen.setdefault(v.get("case_key"), v)
    return list(seen.values())[:cap]
