"""Decoder of object bytes written ONLY from the documented layout (Architecture.md, docs/architecture/types.rst, the module
docstrings of array.py / string.py / ref.py) -- independent of the library's readers.  Used as the oracle of the bounded
native parts (C01, C03, C05, C06, C08, C09, C10) and as the executable form of `Val_T` / `AddrSpec` of DESIGN section 3.

  8-byte slots.  slot(n) = n rounded up to a multiple of 8.
  scalar            its bytes, numpy dtype of the kind
  String            [size] | utf-8 data | at least one NUL, up to size
  Struct            static: fields at consecutive slot-rounded offsets from 0.
                    dynamic: [size] | static fields | one offset word per dynamic field after the first | first dynamic field | others
  Array             [size] if not (static shape and static items) | dynamic dims | strides (if rank>1 and a dim is dynamic) |
                    items in memory order  or  [item offsets in memory order] | items
  Ref               offset relative to its own slot; -2**63 = null
  UnionRef          that offset | member index (-1 for null)
`decode` returns (value, extent) and records every part as (kind, start, end) in self.parts for containment/overlap checks.
"""
import struct

import numpy as np

NULL = -(2 ** 63)


def slot(n):
    return (n + 7) // 8 * 8


class LayoutError(Exception):
    pass


class Decoder:
    def __init__(self, X, mem, check_alignment=True):
        self.X = X
        self.mem = bytes(mem)
        self.parts = []
        self.check_alignment = check_alignment
        self.depth = 0

    # ---- type classification from the type expression only
    def kind(self, T):
        X = self.X
        if X.scalar.is_scalar(T):
            return "scalar"
        if T is X.String or (isinstance(T, type) and issubclass(T, X.String)):
            return "string"
        if X.struct.is_struct(T):
            return "struct"
        if X.array.is_array(T):
            return "array"
        if X.ref.is_ref(T):
            return "ref"
        if X.ref.is_unionref(T):
            return "unionref"
        raise LayoutError(f"unknown type {T}")

    def static_size(self, T):
        """size in bytes if T is statically sized per the docs, else None"""
        k = self.kind(T)
        if k == "scalar":
            return T._dtype.itemsize
        if k == "string":
            return None
        if k == "ref":
            return 8
        if k == "unionref":
            return 16
        if k == "struct":
            tot = 0
            for f in T._fields:
                s = self.static_size(f.ftype)
                if s is None:
                    return None
                tot += slot(s)
            return tot
        if k == "array":
            s = self.static_size(T._itemtype)
            if s is None or any(d is None for d in T._shape):
                return None
            n = 1
            for d in T._shape:
                n *= d
            return slot(s * n)

    def word(self, a):
        if a < 0 or a + 8 > len(self.mem):
            raise LayoutError(f"word at {a} outside the buffer image")
        return struct.unpack_from("<q", self.mem, a)[0]

    def aligned(self, what, rel):
        if self.check_alignment and rel % 8:
            raise LayoutError(f"{what} starts at {rel}, not on a slot boundary of the object")

    # ---- decoding
    def decode(self, T, off, part="root"):
        k = self.kind(T)
        self.depth += 1
        try:
            if self.depth > 40:
                raise LayoutError(f"{part} at {off}: nesting deeper than any type of the grammar (corrupt offsets)")
            v, size = getattr(self, "dec_" + k)(T, off)
        except (ValueError, MemoryError, OverflowError, struct.error, UnicodeDecodeError, RecursionError) as e:
            # garbage in the image (e.g. an absurd dimension): the bytes do not follow the layout
            raise LayoutError(f"{part} at {off}: {type(e).__name__}: {e}")
        finally:
            self.depth -= 1
        self.parts.append((part, off, off + size))
        return v, size

    def dec_scalar(self, T, off):
        n = T._dtype.itemsize
        if off < 0 or off + n > len(self.mem):
            raise LayoutError(f"scalar at {off} outside the buffer image")
        return np.frombuffer(self.mem[off:off + n], dtype=T._dtype)[0], n

    def dec_string(self, T, off):
        size = self.word(off)
        if size < 9 or off + size > len(self.mem):
            raise LayoutError(f"string at {off}: bad size {size}")
        data = self.mem[off + 8:off + size]
        z = data.find(b"\x00")
        if z < 0:
            raise LayoutError(f"string at {off} is not NUL terminated within its size {size}")
        return data[:z].decode("utf8"), size

    def dec_ref(self, T, off):
        rel = self.word(off)
        if rel == NULL:
            return None, 8
        n0 = len(self.parts)
        v, _ = self.decode(T._reftype, off + rel, part="ref-target")
        del self.parts[n0:]  # a referent (and its parts) is not a part of the holder
        return v, 8

    def dec_unionref(self, T, off):
        rel, tid = self.word(off), self.word(off + 8)
        if rel == NULL:
            if tid != -1:
                raise LayoutError(f"null union reference at {off} with member index {tid}")
            return None, 16
        if not 0 <= tid < len(T._reftypes):
            raise LayoutError(f"union reference at {off}: member index {tid}")
        M = T._reftypes[tid]
        n0 = len(self.parts)
        v, _ = self.decode(M, off + rel, part="ref-target")
        del self.parts[n0:]
        return (M.__name__, v), 16

    def dec_struct(self, T, off):
        out = {}
        ssize = self.static_size(T)
        if ssize is not None:
            cur = 0
            for f in T._fields:
                v, n = self.decode(f.ftype, off + cur, part=f"{T.__name__}.{f.name}")
                out[f.name] = v
                cur += slot(n)
            return out, ssize
        size = self.word(off)
        cur = 8
        dyn = []
        for f in T._fields:
            if self.static_size(f.ftype) is None:
                dyn.append(f)
        for f in T._fields:
            s = self.static_size(f.ftype)
            if s is not None:
                v, n = self.decode(f.ftype, off + cur, part=f"{T.__name__}.{f.name}")
                out[f.name] = v
                cur += slot(n)
        words = {}
        for f in dyn[1:]:
            words[f.name] = self.word(off + cur)
            cur += 8
        end = cur
        for j, f in enumerate(dyn):
            rel = cur if j == 0 else words[f.name]
            self.aligned(f"field {f.name} of {T.__name__}", rel)
            v, n = self.decode(f.ftype, off + rel, part=f"{T.__name__}.{f.name}")
            if rel < end and j > 0:
                raise LayoutError(f"dynamic field {f.name} of {T.__name__} at {rel} overlaps the preceding part ending at {end}")
            end = max(end, rel + n)
            out[f.name] = v
        if end > size:
            raise LayoutError(f"{T.__name__} at {off}: parts end at {end}, beyond its size {size}")
        if size % 8:
            raise LayoutError(f"{T.__name__} at {off}: size {size} is not a whole number of slots")
        return {f.name: out[f.name] for f in T._fields}, size

    def order_of(self, T, rank):
        o = T._order
        if o == "C":
            return list(range(rank))
        if o == "F":
            return list(range(rank - 1, -1, -1))
        return list(o)

    def dec_array(self, T, off):
        rank = len(T._shape)
        isz = self.static_size(T._itemtype)
        ssize = self.static_size(T)
        cur = 0
        size = ssize
        if ssize is None:
            size = self.word(off)
            cur = 8
        shape = []
        for d in T._shape:
            if d is None:
                shape.append(self.word(off + cur))
                cur += 8
            else:
                shape.append(d)
        if any(s < 0 for s in shape):
            raise LayoutError(f"array at {off}: negative dimension {shape}")
        order = self.order_of(T, rank)
        w = isz if isz is not None else 8
        # documented strides: item size times the extents of the faster axes in memory order
        dstr = [0] * rank
        acc = w
        for ax in reversed(order):
            dstr[ax] = acc
            acc *= shape[ax]
        if rank > 1 and any(d is None for d in T._shape):
            hstr = [self.word(off + cur + 8 * k) for k in range(rank)]
            cur += 8 * rank
            if list(hstr) != dstr and all(s > 0 for s in shape):
                raise LayoutError(f"array at {off}: stored strides {hstr} differ from the documented strides {dstr} for shape {shape} order {order}")
        n = 1
        for s in shape:
            n *= s
        if cur + n * w > len(self.mem) - off or n > len(self.mem):
            raise LayoutError(f"array at {off}: shape {shape} does not fit in the buffer image")
        D = cur
        val = np.empty(shape, dtype=object)
        end = D + n * w
        for idx in np.ndindex(*shape):
            pos = sum(i * s for i, s in zip(idx, dstr))
            if isz is not None:
                v, _ = self.decode(T._itemtype, off + D + pos, part=f"{T.__name__}{list(idx)}")
            else:
                rel = self.word(off + D + pos)
                self.aligned(f"item {list(idx)} of {T.__name__}", rel)
                if rel < D + n * 8:
                    raise LayoutError(f"item {list(idx)} of {T.__name__} at {rel} lies inside the header/offset table")
                v, m = self.decode(T._itemtype, off + rel, part=f"{T.__name__}{list(idx)}")
                end = max(end, rel + m)
            val[idx] = v
        if end > size:
            raise LayoutError(f"{T.__name__} at {off}: items end at {end}, beyond its size {size}")
        if size % 8:
            raise LayoutError(f"{T.__name__} at {off}: size {size} is not a whole number of slots")
        return val.tolist(), size


def check_parts(parts, root):
    """every part inside the root extent; sibling parts (same parent prefix) disjoint"""
    problems = []
    r0, r1 = root
    for name, a, b in parts:
        if a < r0 or b > r1:
            problems.append(f"part {name} [{a},{b}) outside its object [{r0},{r1})")
    by_parent = {}
    for name, a, b in parts:
        by_parent.setdefault(name.split(".")[0].split("[")[0], []).append((a, b, name))
    for sibs in by_parent.values():
        sibs.sort()
        for (a, b, n1), (c, d, n2) in zip(sibs, sibs[1:]):
            if c < b and b > a and d > c and not (a <= c and d <= b):
                problems.append(f"parts {n1} [{a},{b}) and {n2} [{c},{d}) overlap")
    return problems
