"""Deductive part of C17, the declaration side: `cdef_from_kernel` (the C signature handed to cffi, against which cffi checks and
converts every argument -- AX-ffi-cast), on kernels with 0..3 arguments of abstract C types, with and without a return value, with
and without an explicit C name.  Arg.get_c_type is inlined from the current source (its own contract: group argument_c_types).
  post: the signature is  `<ret> <name>(<t0>,<t1>,...);`  where <ret> is `void` or the declared type of kernel.ret, <name> is the
        kernel's C name (the python name when none was given -- and that name is stored on the kernel), and <tk> is the declared C
        type of the k-th argument: every argument, once, in declaration order, pointer arguments with their `*`.
"""
import z3

from pyvc.core import SymObj, PList, HARNESS_ERRORS, State
from pyvc.tmpl import Atom, Tmpl, mk
from . import kernels_vc as K

CPU, CTX = K.CPU, K.CTX


def _arg(k, pointer):
    at = SymObj("NumpyScalar", {"_c_type": Atom(f"ctype{k}", role="type", ends_star=False), "__name__": f"T{k}"})
    at.closed = True
    a = SymObj("Arg", {"atype": at, "pointer": pointer, "name": f"a{k}", "const": False, "factory": None})
    a.closed = True
    return a


def _text(v):
    return v.render() if isinstance(v, Tmpl) else (v if isinstance(v, str) else "{" + str(v) + "}" if isinstance(v, Atom) else None)


def vc_cdef_from_kernel():
    import itertools

    obs = []
    its = []
    for nargs in range(0, 4):
        for ptrs in itertools.product((False, True), repeat=nargs):
            for ret in ("void", "value", "pointer"):
                for named in (True, False):
                    lab = f"{nargs}args:{''.join('p' if p else 'v' for p in ptrs) or '-'}:ret_{ret}:{'c_name' if named else 'pyname'}"
                    it = K.env()
                    its.append(it)
                    it.class_home = dict(getattr(it, "class_home", {}) or {})
                    it.class_home.update({"Arg": CTX, "Kernel": CTX})
                    args = [_arg(k, p) for k, p in enumerate(ptrs)]
                    rarg = None if ret == "void" else _arg(9, ret == "pointer")
                    cname, pyname = Atom("c_name", role="name"), Atom("py_name", role="name")
                    kern = SymObj("Kernel", {"c_name": cname if named else None, "args": PList(args), "ret": rarg, "n_threads": 1})
                    kern.closed = True
                    it.contract = K._contract(CPU, "cdef_from_kernel")
                    try:
                        for st, out in it.exec_function(it.contract, {"kernel": kern, "pyname": pyname}):
                            ob = lambda c, g: it.oblige(st, "post", f"{c}[{lab}]", z3.BoolVal(bool(g)))
                            if out is None or out[0] != "return":
                                ob("returns", False)
                                continue
                            kk = it._relocate(st, kern)
                            nm = cname if named else pyname
                            ob("kernel_is_known_under_the_declared_name", kk.attrs.get("c_name") is nm)
                            rt = "void" if rarg is None else mk([rarg.attrs["atype"].attrs["_c_type"]] + (["*"] if ret == "pointer" else []))
                            parts = [rt, " ", nm, "("]
                            for k, a in enumerate(args):
                                if k:
                                    parts.append(",")
                                parts.append(a.attrs["atype"].attrs["_c_type"])
                                if ptrs[k]:
                                    parts.append("*")
                            parts.append(");")
                            want = _text(mk(parts))
                            got = _text(out[1])
                            ob("signature_declares_every_argument_in_order", got is not None and got.replace(" ,", ",").replace(", ", ",") == want)
                    except HARNESS_ERRORS as e:
                        vc_cdef_from_kernel.undecided.append((lab, f"{type(e).__name__}: {e}"[:160]))
                    obs += it.obligations
    vc_cdef_from_kernel.interps = its
    return obs


K._group("kernel_declaration", vc_cdef_from_kernel, [(CPU, "cdef_from_kernel"), (CTX, "Arg.get_c_type")])
