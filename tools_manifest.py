"""regenerates MANIFEST.json from the table below (keeps it schema-valid at all times)"""
import json, os
HERE = os.path.dirname(os.path.abspath(__file__))
BASE = "cd /repo && /venv/bin/python -m pytest -ra -q -p no:cacheprovider --timeout=900 --continue-on-collection-errors tests"

CHECKS = {
 "C04": dict(level="proof", technique="contract-based deductive verification (pyvc: AST->VC symbolic execution of the real XBuffer methods, z3/cvc5 portfolio); bounded native cross-check",
   text="Every obligation generated from the current source of XBuffer.__init__/allocate/grow/free and _align (representation invariant, frame over an arbitrary set of live regions, alignment, bounds, byte preservation, two history-induction lemmas) is discharged by the solver portfolio for all inputs and all iterations; hence the four clauses hold after every finite history. A small-scope exhaustive native run of the same contracts and random histories cross-check the encoding (bounded, not part of the proof).",
   note="Trusted: pyvc's encoding of the python subset, SMT solvers, interface contracts of _new_buffer/copy_to_native (abstract methods), arithmetic link between the bit-vector proof of _align and align_up, client protocol (free only live regions, power-of-two alignment).", ref="5 C04, 4.1, Appendix A"),
 "C12": dict(level="proof", technique="contract-based deductive verification (pyvc) with loop invariants (first-fit scan, sorted insert, merge), recursion variant; bounded native cross-check against an executable first-fit model",
   text="First-fit (no earlier chunk fits), growth only when nothing fits, capacity monotone, termination variant of the retry, free never raises (all implicit-exception obligations of free discharged), coalescing (pairwise non-touching free list after every operation and freed region contained in one chunk) are postconditions/invariants proved on the real code for all inputs. The free-total accounting clause and CPython stack depth are decided only by the bounded native part (stated in evidence); the recursion-depth defect is a recorded known finding.",
   note="As C04; additionally the accounting clause (sum of chunk sizes) is checked natively only (exhaustive small scope + model-based histories), not proved.", ref="5 C12, Appendix A"),
}
NA = {}

def main():
    props = [json.loads(l) for l in open(os.path.join(HERE, "properties.jsonl"))]
    checks = []
    for pid, c in CHECKS.items():
        checks.append({
            "property_id": pid,
            "quick_cmd": f"bin/vcheck {pid} --tier quick",
            "thorough_cmd": f"bin/vcheck {pid} --tier thorough",
            "evidence_file": f"/verif/evidence/{pid}.json",
            "replay_cmd_template": "bin/vcheck replay {path}",
            "engine": "pyvc",
            "level_claimed": {"category": c["level"], "text": c["text"], "design_ref": c["ref"]},
            "level_note": c["note"],
            "technique": c["technique"],
        })
    na = []
    for p in props:
        if p["id"] not in CHECKS:
            na.append({"property_id": p["id"], "reason": NA.get(p["id"], "check not built yet in this session (work in progress; see DESIGN.md section 9)")})
    man = {
        "version": 1,
        "setup_cmd": "bash setup.sh",
        "hooks": {"guard": "XOBJECTS_VERIF", "enable": "no hooks in /repo: contracts are sidecar files in /verif, run-time checks are installed from /verif", "baseline_off_cmd": BASE, "source_commits": [], "add_only": True},
        "engines": [{"name": "pyvc", "path": "/verif/pyvc", "serves_properties": sorted(CHECKS), "kind_free_text": "home-built VC generator (symbolic execution of the python AST of /repo's current source against sidecar contracts) + SMT portfolio z3 4.8.12 / z3 5.1 / cvc5; native run-time evaluation of the same contracts for replay and bounded stand-ins"}],
        "checks": checks,
        "not_applicable": na,
        "notes": "fix commits in /repo: see known_findings.json ('fixed' entries). Exit codes of checks: 0 held, 1 violation (VIOLATION line), 3 checker fault.",
    }
    json.dump(man, open(os.path.join(HERE, "MANIFEST.json"), "w"), indent=1)
    import jsonschema
    jsonschema.validate(man, json.load(open("/root/.vp/MANIFEST.schema.json")))
    for pid in CHECKS:
        f = os.path.join(HERE, "evidence", pid + ".json")
        if os.path.exists(f):
            jsonschema.validate(json.load(open(f)), json.load(open("/root/.vp/EVIDENCE.schema.json")))
    print("MANIFEST ok:", len(checks), "checks,", len(na), "not applicable")

if __name__ == "__main__":
    main()
