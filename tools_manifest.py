"""regenerates MANIFEST.json from the table below (keeps it schema-valid at all times)"""
import json, os
HERE = os.path.dirname(os.path.abspath(__file__))
BASE = "cd /repo && /venv/bin/python -m pytest -ra -q -p no:cacheprovider --timeout=900 --continue-on-collection-errors tests"

CHECKS = {
 "C04": dict(level="proof", technique="contract-based deductive verification (pyvc: AST->VC symbolic execution of the real XBuffer methods, z3/cvc5 portfolio); bounded native cross-check",
   text="Every obligation generated from the current source of XBuffer.__init__/allocate/grow/free and _align (representation invariant, frame over an arbitrary set of live regions, alignment, bounds, byte preservation, two history-induction lemmas) is discharged by the solver portfolio for all inputs and all iterations; hence the four clauses hold after every finite history. A small-scope exhaustive native run of the same contracts and random histories cross-check the encoding (bounded, not part of the proof).",
   note="Trusted: pyvc's encoding of the python subset, SMT solvers, interface contracts of _new_buffer/copy_to_native (abstract methods), arithmetic link between the bit-vector proof of _align and align_up, client protocol (free only live regions, power-of-two alignment).", ref="5 C04, 4.1, Appendix A"),
 "C12": dict(level="proof", technique="contract-based deductive verification (pyvc) with loop invariants (first-fit scan, sorted insert, merge), recursion variant; bounded native cross-check against an executable first-fit model",
   text="First-fit (no earlier chunk fits), growth only when nothing fits, capacity monotone, termination variant of the retry, free never raises (all implicit-exception obligations of free discharged), coalescing (pairwise non-touching free list after every operation and freed region contained in one chunk) are postconditions/invariants proved on the real code for all inputs. The free-total accounting clause and CPython stack depth are decided only by the bounded native part (stated in evidence); the recursion-depth defect is a recorded known finding.",
   note="As C04; additionally the accounting clause (sum of chunk sizes) is checked natively only (exhaustive small scope + model-based histories), not proved.", ref="5 C12, Appendix A"),
   "C02": dict(level="proof", technique="contract-based deductive verification of the generator (pyvc symbolic execution of capi.py with template strings + mini-C semantics of the emitted text vs AddrSpec, loop invariant over the access path); bounded native cross-check (cffi compile)",
   text="For every shape of path part (class, static/reference field, Ref, index of rank 1..3 with every static/dynamic dimension mask and static/dynamic items) the text emitted by the real gen_method_offset computes the documented layout's address expression for all field offsets, strides, header words, indices and base offsets (loop invariant, so for paths of any length), and get/getp/len/typeid/member return the load/address/product/word that AddrSpec prescribes: all obligations discharged. The Python accessors are compared with the compiled C accessors only natively (grammar slice, bounded).",
   note="Trusted: mini-C reading of the emitted statement forms, AddrSpec as reading of the docs, ArrayLayout/StructLayout preconditions on path parts, gen_fun_kernel/gen_c_decl_from_kernel (declaration line, checked natively), C integer arithmetic treated as mathematical.", ref="5 C02, 4.6, Appendix C"),
 "C07": dict(level="proof", technique="contract-based deductive verification (pyvc + mini-C): postcondition on the emitted setter (one store, at AddrSpec, of the leaf width, of the passed value); bounded native run comparing whole-buffer bytes",
   text="Proved on the real generator: the emitted setter performs exactly one store, to AddrSpec(path), through a pointer to the leaf's C type whose size equals the leaf size, storing the passed value, and dereferences nothing else; the address arithmetic is the one proved under C02. 'Changes nothing else as observed from Python' and the in-bounds clause are cross-checked natively on the grammar slice (bytes outside the element unchanged). The sanitizer clause (signed overflow, misalignment) is not decided deductively in this version.",
   note="As C02; additionally sibling disjointness and int64 range of intermediates are not proved here (bounded native only).", ref="5 C07"),
 "C15": dict(level="proof", technique="contract-based deductive verification (pyvc): qualifier obligations on every pointer type emitted by capi.py; symbolic execution of specialize_source over abstract lines (result = replace-chain with target-dependent constants only); bounded host compile + token comparison",
   text="Proved: every pointer type written by the generator (casts and declarations, all part shapes, all accessor kinds) is prefixed by the global-memory placeholder; specialize_source maps marker-free text to R(R(R(R(text,kern),fun),glmem),restrict) where only the four replacement constants depend on the target, and the constants are the target keywords the property names (OpenCL: __global). Hence the four specialisations of the accessor source differ only in qualifiers and compute the address proved under C02. Bounded: token identity after deleting qualifiers, host syntax check with keywords defined away, __global on every pointer of the OpenCL form, for the grammar slice.",
   note="Trusted: string axioms for abstract lines, str.replace uninterpreted, mini-C; declaration lines (gen_c_decl_from_kernel, gen_typedef) are checked only by the bounded host compile and the OpenCL pointer scan.", ref="5 C15"),
 "C16": dict(level="proof", technique="contract-based deductive verification (pyvc): loop invariants of both loops of specialize_source over abstract source lines, per line shape and target; SMT proof of the CUDA grid arithmetic taken from KernelCupy.__call__; bounded native runs (real CPU contexts, host simulation of GPU forms)",
   text="Proved for all sources built from the annotation vocabulary (abstract list of lines of any length): per target, vectorize_over/end_vectorize expand to the loop/guard forms of the property, context-restricted lines are active exactly on the named targets, include lines for other contexts add nothing, all other text is unchanged, nested blocks raise; the CUDA grid covers [0,n) exactly once (empty for n=0) and the OpenCL global size is n. What a real OpenCL/CUDA runtime or OpenMP does is not applicable (no device); included files for the named target are covered by the bounded native part only.",
   note="Trusted: string axioms, C semantics of the emitted for/if constructs, exact real arithmetic for n/B, the runtimes launching exactly the requested geometry.", ref="5 C16"),
   "C13": dict(level="proof", technique="contract-based deductive verification (pyvc symbolic execution of the real primitives against a byte-map storage model, whole-buffer postconditions, z3/cvc5); library behaviour of bytearray/numpy as named assumed contracts; exhaustive small-scope native validation",
   text="Every byte-copy primitive of both CPU buffer classes (and update_from_xbuffer on both dispatch branches) is verified for all capacities, offsets and lengths: exactly the addressed bytes change to the source bytes, all other bytes, the length and the source are unchanged, extracted copies are fresh storage, typed views alias the buffer at the requested offset, update_from_nplike stores the C-order encoding for every source layout. The proof is relative to eight named axioms about bytearray/numpy slicing, copying, frombuffer, astype, .data and view (the bulk of the trusted base), which the bounded part validates exhaustively for capacity <= 10/14 and the dtype/layout lists.",
   note="Trusted: storage axioms of pyvc/storage.py (assumed contracts on dependencies), dtype conversion opaque; precondition: in-range offsets, one buffer class per context object.", ref="5 C13, 4.5"),
   "C14": dict(level="other", technique="contract-based deductive verification of the no-duplicate clause (pyvc: symbolic dict/list model of topological_sort, four loop invariants, z3/cvc5); bounded run-time contract for order, cycle reporting and compilation",
   text="Proved for every dependency graph: the list returned by the real topological_sort contains no node twice when no cycle is reported (invariants: counters non-negative and positive only for keys with parents; listed nodes are pairwise distinct and have no open parent, a child is appended only when its counter goes 1->0). 'Before first use', 'cycles are reported' and 'the emitted source compiles' are decided by the bounded part only: all graphs over <= 3 nodes plus a slice of 4-node graphs, and real class graphs of every kind (fieldless structs with dependents, arrays, refs, unions, _depends_on incl. hybrid classes, cycles) with compilation.",
   note="Mixed level: one clause proved, the others bounded. Trusted: pyvc, comprehension/dict-key semantics, DFS cycle oracle, host compiler.", ref="5 C14"),
   "C01": dict(level="exploration", technique="bounded stand-in: run-time contracts on real objects of a grammar slice (documented-layout decoder as oracle, poisoned buffers, views vs handles, misuse catalogue); deductive obligations on the underlying layout functions are being added (see evidence)",
   text="Read-back through every accessor equals the constructor argument. Decided in this version by the bounded native part only: types of the grammar slice x generated values x input forms x placements with allocation history; every byte of the buffer is compared. Labelled bounded, never counted as proved.",
   note="Not a proof. Trusted: checks/layoutdec.py (decoder written from the docs). Known findings are listed in known_findings.json.", ref="5 C01, 4.3"),
   "C03": dict(level="exploration", technique="bounded stand-in: run-time contracts on real objects of a grammar slice (documented-layout decoder as oracle, poisoned buffers, views vs handles, misuse catalogue); deductive obligations on the underlying layout functions are being added (see evidence)",
   text="Bytes change only inside the object's extent or in regions allocated during construction; parts nest and siblings are disjoint; reported size equals extent. Decided in this version by the bounded native part only: types of the grammar slice x generated values x input forms x placements with allocation history; every byte of the buffer is compared. Labelled bounded, never counted as proved.",
   note="Not a proof. Trusted: checks/layoutdec.py (decoder written from the docs). Known findings are listed in known_findings.json.", ref="5 C03, 4.3"),
   "C05": dict(level="exploration", technique="bounded stand-in: run-time contracts on real objects of a grammar slice (documented-layout decoder as oracle, poisoned buffers, views vs handles, misuse catalogue); deductive obligations on the underlying layout functions are being added (see evidence)",
   text="The documented-layout decoder recovers the written value; every part is slot-aligned. Decided in this version by the bounded native part only: types of the grammar slice x generated values x input forms x placements with allocation history; every byte of the buffer is compared. Labelled bounded, never counted as proved.",
   note="Not a proof. Trusted: checks/layoutdec.py (decoder written from the docs). Known findings are listed in known_findings.json.", ref="5 C05, 4.3"),
   "C06": dict(level="exploration", technique="bounded stand-in: run-time contracts on real objects of a grammar slice (documented-layout decoder as oracle, poisoned buffers, views vs handles, misuse catalogue); deductive obligations on the underlying layout functions are being added (see evidence)",
   text="A view from (buffer, offset) equals the handle in value, shape, strides, size; writes through either are seen through the other. Decided in this version by the bounded native part only: types of the grammar slice x generated values x input forms x placements with allocation history; every byte of the buffer is compared. Labelled bounded, never counted as proved.",
   note="Not a proof. Trusted: checks/layoutdec.py (decoder written from the docs). Known findings are listed in known_findings.json.", ref="5 C06, 4.3"),
   "C08": dict(level="exploration", technique="bounded stand-in: run-time contracts on real objects of a grammar slice (documented-layout decoder as oracle, poisoned buffers, views vs handles, misuse catalogue); deductive obligations on the underlying layout functions are being added (see evidence)",
   text="Reference histories: bind-to-existing aliases, bind-to-value/foreign copies, null encodings, resolution after growth. Decided in this version by the bounded native part only: types of the grammar slice x generated values x input forms x placements with allocation history; every byte of the buffer is compared. Labelled bounded, never counted as proved.",
   note="Not a proof. Trusted: checks/layoutdec.py (decoder written from the docs). Known findings are listed in known_findings.json.", ref="5 C08, 4.3"),
   "C09": dict(level="exploration", technique="bounded stand-in: run-time contracts on real objects of a grammar slice (documented-layout decoder as oracle, poisoned buffers, views vs handles, misuse catalogue); deductive obligations on the underlying layout functions are being added (see evidence)",
   text="Copy-construction in same/other buffer/context: equal value, disjoint storage, writes do not show through. Decided in this version by the bounded native part only: types of the grammar slice x generated values x input forms x placements with allocation history; every byte of the buffer is compared. Labelled bounded, never counted as proved.",
   note="Not a proof. Trusted: checks/layoutdec.py (decoder written from the docs). Known findings are listed in known_findings.json.", ref="5 C09, 4.3"),
   "C10": dict(level="exploration", technique="bounded stand-in: run-time contracts on real objects of a grammar slice (documented-layout decoder as oracle, poisoned buffers, views vs handles, misuse catalogue); deductive obligations on the underlying layout functions are being added (see evidence)",
   text="Assigning a fitting leaf through handle or view changes exactly that leaf (value, decoder and whole-buffer byte comparison). Decided in this version by the bounded native part only: types of the grammar slice x generated values x input forms x placements with allocation history; every byte of the buffer is compared. Labelled bounded, never counted as proved.",
   note="Not a proof. Trusted: checks/layoutdec.py (decoder written from the docs). Known findings are listed in known_findings.json.", ref="5 C10, 4.3"),
   "C11": dict(level="exploration", technique="bounded stand-in: run-time contracts on real objects of a grammar slice (documented-layout decoder as oracle, poisoned buffers, views vs handles, misuse catalogue); deductive obligations on the underlying layout functions are being added (see evidence)",
   text="Misuse catalogue (bad index, wrong-length update, too-large string, non-member union, wrong owner) raises and leaves every byte unchanged. Decided in this version by the bounded native part only: types of the grammar slice x generated values x input forms x placements with allocation history; every byte of the buffer is compared. Labelled bounded, never counted as proved.",
   note="Not a proof. Trusted: checks/layoutdec.py (decoder written from the docs). Known findings are listed in known_findings.json.", ref="5 C11, 4.3"),
}
NA = {}

def main():
    props = [json.loads(l) for l in open(os.path.join(HERE, "properties.jsonl"))]
    checks = []
    for pid, c in CHECKS.items():
        checks.append({
            "property_id": pid,
            "quick_cmd": f"bin/vcheck {pid} --tier quick",
            "thorough_cmd": f"bin/vcheck {pid} --tier thorough",
            "evidence_file": f"/verif/evidence/{pid}.json",
            "replay_cmd_template": "bin/vcheck replay {path}",
            "engine": "pyvc",
            "level_claimed": {"category": c["level"], "text": c["text"], "design_ref": c["ref"]},
            "level_note": c["note"],
            "technique": c["technique"],
        })
    na = []
    for p in props:
        if p["id"] not in CHECKS:
            na.append({"property_id": p["id"], "reason": NA.get(p["id"], "check not built yet in this session (work in progress; see DESIGN.md section 9)")})
    man = {
        "version": 1,
        "setup_cmd": "bash setup.sh",
        "hooks": {"guard": "XOBJECTS_VERIF", "enable": "no hooks in /repo: contracts are sidecar files in /verif, run-time checks are installed from /verif", "baseline_off_cmd": BASE, "source_commits": [], "add_only": True},
        "engines": [{"name": "pyvc", "path": "/verif/pyvc", "serves_properties": sorted(CHECKS), "kind_free_text": "home-built VC generator (symbolic execution of the python AST of /repo's current source against sidecar contracts) + SMT portfolio z3 4.8.12 / z3 5.1 / cvc5; native run-time evaluation of the same contracts for replay and bounded stand-ins"}],
        "checks": checks,
        "not_applicable": na,
        "notes": "fix commits in /repo: see known_findings.json ('fixed' entries). Exit codes of checks: 0 held, 1 violation (VIOLATION line), 3 checker fault.",
    }
    json.dump(man, open(os.path.join(HERE, "MANIFEST.json"), "w"), indent=1)
    import jsonschema
    jsonschema.validate(man, json.load(open("/root/.vp/MANIFEST.schema.json")))
    for pid in CHECKS:
        f = os.path.join(HERE, "evidence", pid + ".json")
        if os.path.exists(f):
            jsonschema.validate(json.load(open(f)), json.load(open("/root/.vp/EVIDENCE.schema.json")))
    print("MANIFEST ok:", len(checks), "checks,", len(na), "not applicable")

if __name__ == "__main__":
    main()
