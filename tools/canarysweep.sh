#!/bin/bash
# canarysweep.sh [-P n] [checks...] : every property-PRESERVING patch of canaries/ against the given quick checks (default: all 20), each on
# a scratch worktree (tools/canary.sh), n patches at a time.  Prints the runs that raised an alarm (there must be none) and a count of the
# quiet ones; exit 1 if any check exits non-zero or prints a VIOLATION line.  Does not touch /repo or /verif/evidence.
HERE="$(cd "$(dirname "$0")/.." && pwd)"; cd "$HERE"
P=4; [ "$1" = "-P" ] && { P=$2; shift 2; }
CHECKS="$@"
rm -f /tmp/canarysweep_*.log  # (results of an earlier sweep are overwritten)
ls canaries/*.diff | ( [ -n "$CANARY_REVERSE" ] && sort -r || cat ) | xargs -P $P -I{} bash -c 'f={}; n=$(basename $f .diff); VERIF_PROCS=4 tools/canary.sh cs_$n $f '"$CHECKS"' > /tmp/canarysweep_$n.log 2>&1'
quiet=$(cat /tmp/canarysweep_*.log | grep -c "exit=0 violations=0")
und=$(cat /tmp/canarysweep_*.log | grep "exit=0 violations=0" | grep -vc "undecided=0")
alarms=$(cat /tmp/canarysweep_*.log | grep -v "exit=0 violations=0")
echo "quiet runs: $quiet (with UNDECIDED lines: $und)"
if [ -n "$alarms" ]; then echo "ALARMS:"; echo "$alarms"; exit 1; fi
exit 0
