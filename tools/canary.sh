#!/bin/bash
# canary.sh <name> <patch.diff> [checks...]   -- false-alarm test: a property-PRESERVING change must raise no VIOLATION.
# Works on a scratch worktree (never touches /repo): VERIF_REPO points the checks at it, VERIF_OUT keeps evidence/replay apart.
# Prints one line per check: "<name> <Cxx> exit=<n> violations=<k> undecided=<u>"; the worktree and outputs are removed afterwards
# (outputs of checks that raised an alarm are kept in /tmp/canary_<name>/ for triage).
name=$1; patch=$2; shift 2
[ "$patch" != "-" ] && patch="$(realpath "$patch")"
checks="${@:-C01 C02 C03 C04 C05 C06 C07 C08 C09 C10 C11 C12 C13 C14 C15 C16 C17 C18 C19 C20}"
HERE="$(cd "$(dirname "$0")/.." && pwd)"
wt=/tmp/cw_$name; out=/tmp/canary_$name
rm -rf $wt $out; mkdir -p $out
git -C /repo worktree prune; git -C /repo worktree add -q --detach $wt HEAD || exit 3
if [ "$patch" != "-" ]; then git -C $wt apply "$patch" || { echo "$name: patch does not apply"; git -C /repo worktree remove --force $wt; exit 3; }; fi
alarm=0
for c in $checks; do
  VERIF_REPO=$wt VERIF_OUT=$out VERIF_PROCS=${VERIF_PROCS:-4} "$HERE/bin/vcheck" $c --tier quick > $out/$c.out 2>&1
  ex=$?
  v=$(grep -c '^VIOLATION' $out/$c.out); u=$(grep -c '^UNDECIDED' $out/$c.out)
  echo "$name $c exit=$ex violations=$v undecided=$u"
  if [ $ex -ne 0 ] || [ $v -ne 0 ]; then alarm=1; else rm -f $out/$c.out; fi
done
git -C /repo worktree remove --force $wt
[ $alarm -eq 0 ] && rm -rf $out
exit $alarm
