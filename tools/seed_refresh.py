"""after tools/seedsweep.sh: record in every seeded/<id>/meta.json the result of the latest sweep of the own check (`checks_with_change`),
keeping the result obtained when the change was first tried as `checks_when_first_tried`; then rewrite seeded/SUMMARY.md"""
import glob, json, os, re, subprocess, sys
n = 0
for log in sorted(glob.glob("/tmp/seedsweep_C*.log")):
    seed = os.path.basename(log)[len("seedsweep_"):-4]
    m = f"/verif/seeded/{seed}/meta.json"
    if not os.path.exists(m):
        continue
    txt = open(log).read()
    r = re.search(r" (C\d\d) exit=(\d+) violations=(\d+)", txt)
    if not r:
        continue
    j = json.load(open(m))
    new = f"{r.group(1)}:exit={r.group(2)}:violations={r.group(3)}"
    old = j.get("checks_with_change", "")
    if "checks_when_first_tried" not in j:
        j["checks_when_first_tried"] = old
    own_old = [c for c in old.split() if c.startswith(r.group(1) + ":")]
    rest = [c for c in old.split() if not c.startswith(r.group(1) + ":")]
    j["checks_with_change"] = " ".join([new] + rest)
    json.dump(j, open(m, "w"), indent=1)
    n += 1
print(n, "metas refreshed")
subprocess.run([sys.executable, "/verif/tools/seed_summary.py"])
