#!/bin/bash
# seedtest.sh <prop> <k> [checkprops...] : confirm a seeded breaking change (tests pass, demo fails with / passes without),
# store it under /verif/seeded/<prop>_<k>/, then run the given checks (default: <prop>) on /repo with the patch applied and undo it.
P=$1; K=$2; shift 2
CHECKS=${@:-$P}
SRC=/tmp/wt_out/$P/$K
DST=/verif/seeded/${P}_$K
[ -f $DST/patch.diff ] && SRC=$DST
WT=/tmp/sv_${P}_$K
set -u
git -C /repo worktree remove --force $WT 2>/dev/null
git -C /repo worktree add --detach $WT HEAD >/dev/null 2>&1 || { echo "worktree failed"; exit 2; }
res() { echo "$1" ; }
cd $WT
PYTHONPATH=$WT /venv/bin/python $SRC/demo.py >/tmp/sv_${P}_$K.demo0 2>&1; D0=$?
git apply $SRC/patch.diff || { echo "patch does not apply"; git -C /repo worktree remove --force $WT; exit 2; }
PYTHONPATH=$WT /venv/bin/python $SRC/demo.py >/tmp/sv_${P}_$K.demo1 2>&1; D1=$?
if [ "${SKIPTESTS:-0}" = 1 ]; then T="skipped"; else
T=$(PYTHONPATH=$WT /venv/bin/python -m pytest -q -p no:cacheprovider --timeout=900 tests 2>&1 | tail -1); fi
cd /verif
git -C /repo worktree remove --force $WT
echo "demo_without=$D0 demo_with=$D1 tests_with: $T"
mkdir -p $DST
[ $SRC != $DST ] && cp $SRC/patch.diff $SRC/demo.py $SRC/notes.txt $DST/ 2>/dev/null
OUT=""
git -C /repo diff --quiet || { echo "/repo not clean, not applying"; exit 2; }
git -C /repo apply $DST/patch.diff
for C in $CHECKS; do
  bin/vcheck $C --tier quick > /tmp/sv_${P}_$K.$C.out 2>&1; RC=$?
  V=$(grep -c '^VIOLATION' /tmp/sv_${P}_$K.$C.out)
  echo "check $C exit=$RC violations=$V :: $(grep '^VIOLATION' /tmp/sv_${P}_$K.$C.out | head -2 | tr '\n' ' ')"
  OUT="$OUT $C:exit=$RC:violations=$V"
done
git -C /repo checkout -- .
git -C /verif checkout -- evidence 2>/dev/null
python3 - "$P" "$K" "$D0" "$D1" "$T" "$OUT" <<'PY'
import json,sys,os
P,K,D0,D1,T,OUT=sys.argv[1:7]
d=f"/verif/seeded/{P}_{K}"
notes=open(d+"/notes.txt").read() if os.path.exists(d+"/notes.txt") else ""
meta={"property":P,"variant":K,"breaks":P,"needs_to_manifest":notes.strip(),
      "confirmed":{"demo_exit_without_change":int(D0),"demo_exit_with_change":int(D1),"test_suite_with_change":T,
                   "how":"scratch worktree under /tmp: demo on clean tree, git apply patch.diff, demo, full pytest suite; then patch applied to /repo, quick checks run, git checkout -- ."},
      "checks_with_change":OUT.strip()}
json.dump(meta,open(d+"/meta.json","w"),indent=1)
PY
