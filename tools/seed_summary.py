"""writes seeded/SUMMARY.md from the meta.json files left by tools/seedtest.sh"""
import json, os, glob
rows = []
for d in sorted(glob.glob("/verif/seeded/*/")):
    m = os.path.join(d, "meta.json")
    if not os.path.exists(m):
        continue
    j = json.load(open(m))
    name = os.path.basename(d.rstrip("/"))
    notes = (j.get("needs_to_manifest") or "").split("\n")[0][:160]
    conf = j.get("confirmed", {})
    ok = conf.get("demo_exit_without_change") == 0 and conf.get("demo_exit_with_change") not in (0, None)
    checks = j.get("checks_with_change", "")
    own = [c for c in checks.split() if c.startswith(j["property"] + ":")]
    caught = any("exit=1" in c and "violations=0" not in c for c in own)
    others = [c.split(":")[0] + ("!" if "exit=1" in c else "") for c in checks.split() if not c.startswith(j["property"] + ":")]
    first = j.get("checks_when_first_tried")
    was = ""
    if first is not None:
        fo = [c for c in first.split() if c.startswith(j["property"] + ":")]
        was = "caught" if any("exit=1" in c and "violations=0" not in c for c in fo) else "missed"
    rows.append((name, "yes" if ok else "NO", "caught" if caught else "MISSED", was, " ".join(others), notes))
with open("/verif/seeded/SUMMARY.md", "w") as fh:
    fh.write("# Seeded property-breaking changes\n\nEach directory holds patch.diff, demo.py (fails with the change, passes without), notes.txt (the author's description) and meta.json "
             "(what was confirmed and which checks were run with the change applied to /repo). Written by independent sub-agents that saw only the property text.\n\n"
             "`confirmed` = demo passes on the unchanged tree, fails with the change, and the 163 tests still pass. `own check` = result of the quick check of the property the change "
             "was written against. `other checks run` lists further checks run on the same change (`!` = that check also reported a violation).\n\n"
             "`when first tried` = what the own check said before any strengthening prompted by this change (empty: not recorded separately).\n\n"
             "| change | confirmed | own check | when first tried | other checks run | what it is |\n|---|---|---|---|---|---|\n")
    for r in rows:
        fh.write("| " + " | ".join(r) + " |\n")
print(len(rows), "rows;", sum(1 for r in rows if r[2] == "caught"), "caught")
