#!/bin/bash
# seedsweep.sh [-P n]: every seeded change against the quick check of its own property, each on a scratch worktree (tools/canary.sh),
# n at a time.  Prints "<seed> caught|MISSED (exit=..)"; exit 1 if any is missed.  Does not touch /repo or /verif/evidence.
HERE="$(cd "$(dirname "$0")/.." && pwd)"; cd "$HERE"
P=3; [ "$1" = "-P" ] && P=$2
ls -d seeded/C*_* | sed 's|seeded/||' | xargs -P $P -I{} bash -c 's={}; p=${s%_*}; VERIF_PROCS=4 tools/canary.sh seed_$s seeded/$s/patch.diff $p > /tmp/seedsweep_$s.log 2>&1; rm -rf /tmp/canary_seed_$s'
miss=0
for f in /tmp/seedsweep_C*.log; do s=$(basename $f .log); s=${s#seedsweep_}; if grep -q "exit=1 violations=[1-9]" $f; then echo "$s caught"; else echo "$s MISSED ($(cat $f | tr '\n' ' '))"; miss=1; fi; done
exit $miss
