#!/bin/bash
# seedtest3.sh <prop> <k> [checkprops...] : like seedtest.sh but never touches /repo: the change is confirmed on a scratch worktree
# (demo passes without / fails with, full test suite passes with), stored under /verif/seeded/<prop>_<k>/, and the quick checks are
# run on a second scratch worktree through tools/canary.sh (VERIF_REPO / VERIF_OUT).  Several of these can run side by side.
P=$1; K=$2; shift 2
CHECKS=${@:-$P}
HERE="$(cd "$(dirname "$0")/.." && pwd)"; cd "$HERE"
SRC=/tmp/wt_out/$P/$K
DST=$HERE/seeded/${P}_$K
[ -f $DST/patch.diff ] && SRC=$DST
WT=/tmp/sv3_${P}_$K
git -C /repo worktree remove --force $WT 2>/dev/null
git -C /repo worktree add --detach $WT HEAD >/dev/null 2>&1 || { echo "worktree failed"; exit 2; }
cd $WT
PYTHONPATH=$WT /venv/bin/python $SRC/demo.py >/tmp/sv3_${P}_$K.demo0 2>&1; D0=$?
git apply $SRC/patch.diff || { echo "patch does not apply"; git -C /repo worktree remove --force $WT; exit 2; }
PYTHONPATH=$WT /venv/bin/python $SRC/demo.py >/tmp/sv3_${P}_$K.demo1 2>&1; D1=$?
if [ "${SKIPTESTS:-0}" = 1 ]; then T="skipped"; else
T=$(PYTHONPATH=$WT /venv/bin/python -m pytest -q -p no:cacheprovider --timeout=900 tests 2>&1 | tail -1); fi
cd "$HERE"
git -C /repo worktree remove --force $WT
echo "$P_$K demo_without=$D0 demo_with=$D1 tests_with: $T"
mkdir -p $DST
[ $SRC != $DST ] && cp $SRC/patch.diff $SRC/demo.py $SRC/notes.txt $DST/ 2>/dev/null
OUT=""
RES=$(VERIF_PROCS=${VERIF_PROCS:-4} tools/canary.sh seed3_${P}_$K $DST/patch.diff $CHECKS)
echo "$RES"
for C in $CHECKS; do
  L=$(echo "$RES" | grep " $C exit=")
  RC=$(echo "$L" | sed 's/.*exit=\([0-9]*\).*/\1/'); V=$(echo "$L" | sed 's/.*violations=\([0-9]*\).*/\1/')
  [ -f /tmp/canary_seed3_${P}_$K/$C.out ] && grep '^VIOLATION' /tmp/canary_seed3_${P}_$K/$C.out | head -3
  OUT="$OUT $C:exit=$RC:violations=$V"
done
rm -rf /tmp/canary_seed3_${P}_$K
python3 - "$P" "$K" "$D0" "$D1" "$T" "$OUT" "$DST" <<'PY'
import json,sys,os
P,K,D0,D1,T,OUT,d=sys.argv[1:8]
notes=open(d+"/notes.txt").read() if os.path.exists(d+"/notes.txt") else ""
meta={"property":P,"variant":K,"breaks":P,"needs_to_manifest":notes.strip(),
      "confirmed":{"demo_exit_without_change":int(D0),"demo_exit_with_change":int(D1),"test_suite_with_change":T,
                   "how":"scratch worktree under /tmp: demo on clean tree, git apply patch.diff, demo, full pytest suite; quick checks run on a second scratch worktree with the patch applied (tools/canary.sh: VERIF_REPO, VERIF_OUT)"},
      "checks_with_change":OUT.strip()}
if os.path.exists(d+"/meta.json"):
    old=json.load(open(d+"/meta.json"))
    if T=="skipped": meta["confirmed"]["test_suite_with_change"]=old.get("confirmed",{}).get("test_suite_with_change",T)
    meta["checks_when_first_tried"]=old.get("checks_when_first_tried",old.get("checks_with_change",""))
json.dump(meta,open(d+"/meta.json","w"),indent=1)
PY
