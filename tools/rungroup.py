import sys, importlib
from pyvc import solve
import checks.types_vc as T
for m in ("types2_vc","types3_vc","types4_vc","types5_vc"):
    importlib.import_module("checks."+m)
sel=sys.argv[1:]
for name,(g,props) in T.GROUPS.items():
    if not any(s in name for s in sel): continue
    obs=g()
    solve.discharge_all(obs, solve.QUICK)
    for o in obs:
        if o.status!="discharged": print(f"  {o.status:10s} {o.time:6.2f} {o.backend} {o.name}")
    print(name, sum(o.status=="discharged" for o in obs),"/",len(obs),"undecided:",getattr(g,"undecided",[]))
