#!/bin/bash
# offline build of the overlay interpreter: python 3.12 with z3-solver, cvc5, jsonschema + /venv's site-packages (numpy, cffi, xobjects from /repo)
set -e
HERE="$(cd "$(dirname "$0")" && pwd)"
cd "$HERE"
if [ ! -x .venv/bin/python ] || ! .venv/bin/python -c "import z3, numpy, xobjects" 2>/dev/null; then
  rm -rf .venv
  /venv/bin/python -m venv .venv
  PIP_NO_INDEX=1 .venv/bin/pip install -q --no-index --find-links /opt/veriftools/wheels z3-solver cvc5 jsonschema
  echo "import site; site.addsitedir('/venv/lib/python3.12/site-packages')" > .venv/lib/python3.12/site-packages/_overlay.pth
fi
.venv/bin/python -c "import z3, numpy, cffi, xobjects; print('setup ok', z3.get_version_string())"
