"""Executable specification of a first-fit free list (oracle for C12, written from the property
statement; independent of xobjects).  Free space is a sorted list of disjoint, non-touching,
non-empty intervals [s, e).  Zero-size chunks of the implementation are ignored when comparing."""


def align_up(x, a):
    return ((x + a - 1) // a) * a


class FreeListModel:
    def __init__(self, capacity):
        self.capacity = capacity
        self.free = [(0, capacity)] if capacity > 0 else []
        self.live = []  # (offset, size)
        self.pad = 0  # bytes lost to alignment padding (never reusable: nobody owns them)

    def first_fit(self, size, a):
        for k, (s, e) in enumerate(self.free):
            o = align_up(s, a)
            if o + size <= e:
                return k, o
        return None

    def extend(self, newcap):
        if newcap > self.capacity:
            if self.free and self.free[-1][1] == self.capacity:
                self.free[-1] = (self.free[-1][0], newcap)
            else:
                self.free.append((self.capacity, newcap))
            self.capacity = newcap

    def allocate(self, size, a, impl_capacity_after):
        """returns (offset, grew).  Growth amount is the implementation's choice; the specification only
        says: grow iff nothing fits, never shrink, and then serve first-fit from the enlarged list."""
        ff = self.first_fit(size, a)
        grew = False
        if ff is None:
            grew = True
            self.extend(impl_capacity_after)
            ff = self.first_fit(size, a)
            if ff is None:
                return None, grew
        k, o = ff
        s, e = self.free[k]
        self.pad += o - s
        if o + size < e:
            self.free[k] = (o + size, e)
        else:
            del self.free[k]
        self.live.append((o, size))
        return o, grew

    def release(self, o, size):
        self.live.remove((o, size))
        if size == 0:
            return
        self.free.append((o, o + size))
        self.free.sort()
        merged = [self.free[0]]
        for s, e in self.free[1:]:
            ps, pe = merged[-1]
            if s <= pe:
                merged[-1] = (ps, max(pe, e))
            else:
                merged.append((s, e))
        self.free = merged

    def total_free(self):
        return sum(e - s for s, e in self.free)
