"""Oracle for the allocator properties (C04, C12): a mathematical first-fit free list.

Written from the property statements, not from the code.  Every function here is evaluated two
ways: symbolically by pyvc (quantifiers become solver quantifiers, `Live` an uninterpreted
predicate) and natively by pyvc.native (quantifiers enumerate, `Live` a concrete set of regions).
"""


def nobyte(o, s, c0, c1):
    "the region [o, o+s) and the interval [c0, c1) have no byte in common"
    return s <= 0 or c0 >= c1 or o + s <= c0 or c1 <= o


def chunk_ok(b, i):
    return 0 <= b.chunks[i].start and b.chunks[i].start <= b.chunks[i].end and b.chunks[i].end <= b.capacity


def WF(b):
    "representation invariant of a buffer: free list sorted, in bounds, pairwise separated (non-touching)"
    return (
        b.capacity >= 0
        and slen(b.buffer) == b.capacity
        and forall(0, len(b.chunks), lambda i: chunk_ok(b, i))
        and forall(0, len(b.chunks), lambda i, j: implies(i < j, b.chunks[i].end < b.chunks[j].start))
        and pow2(b.default_alignment)
        and (b.grow_step is None or b.grow_step > 0)
    )


def LiveIn(b, Live):
    "every region handed out lies inside the capacity"
    return forall_live(Live, lambda o, s: s >= 0 and 0 <= o and o + s <= b.capacity)


def LiveSep(b, Live):
    "no region handed out shares a byte with free space"
    return forall_live(
        Live, lambda o, s: forall(0, len(b.chunks), lambda i: nobyte(o, s, b.chunks[i].start, b.chunks[i].end))
    )


def LivePair(Live):
    "regions handed out are pairwise disjoint"
    return forall_live(
        Live, lambda o, s: forall_live(Live, lambda o2, s2: (o == o2 and s == s2) or nobyte(o, s, o2, o2 + s2))
    )


def region_free_of_live(o, s, Live):
    return forall_live(Live, lambda o2, s2: nobyte(o, s, o2, o2 + s2))


def region_free_of_chunks(b, o, s):
    return forall(0, len(b.chunks), lambda i: nobyte(o, s, b.chunks[i].start, b.chunks[i].end))


def infree(b, x):
    "byte x belongs to the free space (some chunk of the free list covers it)"
    return exists(0, len(b.chunks), lambda i: b.chunks[i].start <= x and x < b.chunks[i].end)


def fits(c, size, a):
    "first-fit test of the specification: the aligned start plus the size stays inside the chunk"
    return align_up(c.start, a) + size <= c.end


def bytes_kept(b, n, oldbuf):
    return forall(0, n, lambda x: byte(b.buffer, x) == byte(oldbuf, x))


def tailfree(b):
    n = len(b.chunks)
    if n > 0 and b.chunks[n - 1].end == b.capacity:
        return b.capacity - b.chunks[n - 1].start
    return 0


def deficit(b, need):
    "variant of allocate's retry: bytes still missing at the tail (+1 while the free list is empty)"
    d = need - tailfree(b)
    return (d if d > 0 else 0) + (1 if len(b.chunks) == 0 else 0)
